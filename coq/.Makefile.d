Gen/Params.vo Gen/Params.glob Gen/Params.v.beautified Gen/Params.required_vo: Gen/Params.v 
Gen/Params.vio: Gen/Params.v 
Gen/Params.vos Gen/Params.vok Gen/Params.required_vos: Gen/Params.v 
Gen/Guards.vo Gen/Guards.glob Gen/Guards.v.beautified Gen/Guards.required_vo: Gen/Guards.v 
Gen/Guards.vio: Gen/Guards.v 
Gen/Guards.vos Gen/Guards.vok Gen/Guards.required_vos: Gen/Guards.v 
Gen/Oids.vo Gen/Oids.glob Gen/Oids.v.beautified Gen/Oids.required_vo: Gen/Oids.v 
Gen/Oids.vio: Gen/Oids.v 
Gen/Oids.vos Gen/Oids.vok Gen/Oids.required_vos: Gen/Oids.v 
Gen/Types.vo Gen/Types.glob Gen/Types.v.beautified Gen/Types.required_vo: Gen/Types.v 
Gen/Types.vio: Gen/Types.v 
Gen/Types.vos Gen/Types.vok Gen/Types.required_vos: Gen/Types.v 
Gen/Features.vo Gen/Features.glob Gen/Features.v.beautified Gen/Features.required_vo: Gen/Features.v 
Gen/Features.vio: Gen/Features.v 
Gen/Features.vos Gen/Features.vok Gen/Features.required_vos: Gen/Features.v 
Base/Util.vo Base/Util.glob Base/Util.v.beautified Base/Util.required_vo: Base/Util.v 
Base/Util.vio: Base/Util.v 
Base/Util.vos Base/Util.vok Base/Util.required_vos: Base/Util.v 
Base/Mach.vo Base/Mach.glob Base/Mach.v.beautified Base/Mach.required_vo: Base/Mach.v Base/Util.vo
Base/Mach.vio: Base/Mach.v Base/Util.vio
Base/Mach.vos Base/Mach.vok Base/Mach.required_vos: Base/Mach.v Base/Util.vos
Spec/SpecConv.vo Spec/SpecConv.glob Spec/SpecConv.v.beautified Spec/SpecConv.required_vo: Spec/SpecConv.v Base/Util.vo Gen/Params.vo
Spec/SpecConv.vio: Spec/SpecConv.v Base/Util.vio Gen/Params.vio
Spec/SpecConv.vos Spec/SpecConv.vok Spec/SpecConv.required_vos: Spec/SpecConv.v Base/Util.vos Gen/Params.vos
Spec/SpecRound.vo Spec/SpecRound.glob Spec/SpecRound.v.beautified Spec/SpecRound.required_vo: Spec/SpecRound.v Base/Util.vo Gen/Params.vo Spec/SpecConv.vo
Spec/SpecRound.vio: Spec/SpecRound.v Base/Util.vio Gen/Params.vio Spec/SpecConv.vio
Spec/SpecRound.vos Spec/SpecRound.vok Spec/SpecRound.required_vos: Spec/SpecRound.v Base/Util.vos Gen/Params.vos Spec/SpecConv.vos
Spec/SpecNtt.vo Spec/SpecNtt.glob Spec/SpecNtt.v.beautified Spec/SpecNtt.required_vo: Spec/SpecNtt.v Base/Util.vo Gen/Params.vo Spec/SpecConv.vo
Spec/SpecNtt.vio: Spec/SpecNtt.v Base/Util.vio Gen/Params.vio Spec/SpecConv.vio
Spec/SpecNtt.vos Spec/SpecNtt.vok Spec/SpecNtt.required_vos: Spec/SpecNtt.v Base/Util.vos Gen/Params.vos Spec/SpecConv.vos
