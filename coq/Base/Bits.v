(* Bit-operation lemmas: shifts/masks/ors as arithmetic.  Used to read the crate's bit tricks
   (`x >> 31 & Q`, `a << 16 | b << 8 | c`, `& 0x7F`) as the arithmetic FIPS 204 writes. *)
From Coq Require Import ZArith Lia Bool List.
Require Import F204.Base.Util F204.Base.Mach.
Open Scope Z_scope.
Ltac Zify.zify_post_hook ::= Z.div_mod_to_equations.

Lemma shr_div a n : 0 <= n -> shr a n = a / 2 ^ n.
Proof. intros. unfold shr. apply Z.shiftr_div_pow2; assumption. Qed.

Lemma land_low_zero a n x : 0 <= n -> 0 <= x < 2 ^ n -> Z.land (Z.shiftl a n) x = 0.
Proof.
  intros Hn Hx. apply Z.bits_inj'. intros m Hm.
  rewrite Z.land_spec, Z.bits_0.
  destruct (Z.lt_ge_cases m n) as [Hlt|Hge].
  - rewrite Z.shiftl_spec_low by assumption. reflexivity.
  - assert (Z.testbit x m = false) as ->.
    { destruct (Z.eq_dec x 0) as [->|Hx0]; [apply Z.bits_0|].
      apply Z.bits_above_log2; [lia|].
      apply Z.lt_le_trans with n; [|assumption].
      apply Z.log2_lt_pow2; lia. }
    apply andb_false_r.
Qed.

Lemma lor_shiftl_low a n x : 0 <= n -> 0 <= x < 2 ^ n -> Z.lor (Z.shiftl a n) x = a * 2 ^ n + x.
Proof.
  intros Hn Hx.
  rewrite <- Z.lxor_lor by (apply land_low_zero; assumption).
  rewrite <- Z.add_nocarry_lxor by (apply land_low_zero; assumption).
  rewrite Z.shiftl_mul_pow2 by assumption. reflexivity.
Qed.

Lemma land_ones_mod a n : 0 <= n -> Z.land a (Z.ones n) = a mod 2 ^ n.
Proof. intros; apply Z.land_ones; assumption. Qed.

(* sign mask of an i32 value: x >> 31 is -1 for negative x and 0 otherwise *)
Lemma shr31_neg x : - 2147483648 <= x < 0 -> shr x 31 = -1.
Proof. intros. rewrite shr_div by lia. change (2 ^ 31) with 2147483648. lia. Qed.
Lemma shr31_nonneg x : 0 <= x < 2147483648 -> shr x 31 = 0.
Proof. intros. rewrite shr_div by lia. change (2 ^ 31) with 2147483648. lia. Qed.
Lemma land_m1 a : Z.land (-1) a = a.
Proof. apply Z.land_m1_l. Qed.

Lemma sign_mask x c : - 2147483648 <= x < 2147483648 ->
  Z.land (shr x 31) c = if x <? 0 then c else 0.
Proof.
  intros Hx. destruct (x <? 0) eqn:E.
  - apply Z.ltb_lt in E. rewrite shr31_neg by lia. apply Z.land_m1_l.
  - apply Z.ltb_ge in E. rewrite shr31_nonneg by lia. apply Z.land_0_l.
Qed.

(* bounded exhaustive sweep, lifted to a universally quantified statement *)
Fixpoint allupto (f : Z -> bool) (n : nat) (z : Z) : bool :=
  match n with O => true | S k => f z && allupto f k (z + 1) end.
Lemma allupto_spec f n z : allupto f n z = true -> forall x, z <= x < z + Z.of_nat n -> f x = true.
Proof.
  revert z. induction n as [|n IH]; intros z Hall x Hx; [lia|].
  cbn [allupto] in Hall. apply andb_true_iff in Hall as [H1 H2].
  destruct (Z.eq_dec x z) as [->|Hne]; [exact H1|]. apply (IH (z + 1)); [exact H2|lia].
Qed.
