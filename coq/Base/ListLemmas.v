(* List lemmas used by the refinement proofs: Forall / Forall2 through firstn, skipn, map, map2,
   and "monadic map = pure map" under a pointwise precondition. *)
Require Import F204.Base.Util F204.Base.Mach.
Open Scope Z_scope.

Lemma Forall_firstn {A} (P : A -> Prop) n l : Forall P l -> Forall P (firstn n l).
Proof.
  revert n. induction l as [|a l IH]; intros [|n] H; cbn; auto.
  inversion H; subst. constructor; auto.
Qed.
Lemma Forall_skipn {A} (P : A -> Prop) n l : Forall P l -> Forall P (skipn n l).
Proof.
  revert n. induction l as [|a l IH]; intros [|n] H; cbn; auto.
  inversion H; subst. auto.
Qed.
Lemma Forall2_firstn {A B} (R : A -> B -> Prop) n l1 l2 : Forall2 R l1 l2 -> Forall2 R (firstn n l1) (firstn n l2).
Proof.
  intros H. revert n. induction H; intros [|n]; cbn; constructor; auto.
Qed.
Lemma Forall2_skipn {A B} (R : A -> B -> Prop) n l1 l2 : Forall2 R l1 l2 -> Forall2 R (skipn n l1) (skipn n l2).
Proof.
  intros H. revert n. induction H; intros [|n]; cbn; auto.
Qed.
Lemma Forall2_length {A B} (R : A -> B -> Prop) l1 l2 : Forall2 R l1 l2 -> length l1 = length l2.
Proof. induction 1; cbn; congruence. Qed.

Lemma map2_Forall {A B C} (f : A -> B -> C) (P : A -> Prop) (Q : B -> Prop) (R : C -> Prop) l1 l2 :
  (forall a b, P a -> Q b -> R (f a b)) -> Forall P l1 -> Forall Q l2 -> Forall R (map2 f l1 l2).
Proof.
  intros Hf H1. revert l2. induction H1 as [|a l1 Ha H1 IH]; intros l2 H2; cbn; [constructor|].
  destruct l2 as [|b l2]; [constructor|]. inversion H2; subst. constructor; auto.
Qed.
Lemma map_Forall {A B} (f : A -> B) (P : A -> Prop) (R : B -> Prop) l :
  (forall a, P a -> R (f a)) -> Forall P l -> Forall R (map f l).
Proof. intros Hf H. induction H; cbn; constructor; auto. Qed.

Lemma map2_Forall2 {A B C A' B' C'} (f : A -> B -> C) (f' : A' -> B' -> C')
  (RA : A -> A' -> Prop) (RB : B -> B' -> Prop) (RC : C -> C' -> Prop) l1 l2 l1' l2' :
  (forall a a' b b', RA a a' -> RB b b' -> RC (f a b) (f' a' b')) ->
  Forall2 RA l1 l1' -> Forall2 RB l2 l2' -> Forall2 RC (map2 f l1 l2) (map2 f' l1' l2').
Proof.
  intros Hf H1. revert l2 l2'. induction H1; intros l2 l2' H2; cbn; [constructor|].
  inversion H2; subst; constructor; auto.
Qed.
Lemma map_Forall2 {A B A' B'} (f : A -> B) (f' : A' -> B') (RA : A -> A' -> Prop) (RB : B -> B' -> Prop) l l' :
  (forall a a', RA a a' -> RB (f a) (f' a')) -> Forall2 RA l l' -> Forall2 RB (map f l) (map f' l').
Proof. intros Hf H. induction H; cbn; constructor; auto. Qed.
Lemma Forall2_app' {A B} (R : A -> B -> Prop) a b c d : Forall2 R a c -> Forall2 R b d -> Forall2 R (a ++ b) (c ++ d).
Proof. intros H1 H2. induction H1; cbn; auto. Qed.
Lemma Forall2_refl {A} (R : A -> A -> Prop) l : (forall a, R a a) -> Forall2 R l l.
Proof. intros Hr. induction l; constructor; auto. Qed.
Lemma Forall2_impl {A B} (R R' : A -> B -> Prop) l1 l2 : (forall a b, R a b -> R' a b) -> Forall2 R l1 l2 -> Forall2 R' l1 l2.
Proof. intros Hi H. induction H; constructor; auto. Qed.
Lemma Forall2_trans {A} (R : A -> A -> Prop) l1 l2 l3 :
  (forall a b c, R a b -> R b c -> R a c) -> Forall2 R l1 l2 -> Forall2 R l2 l3 -> Forall2 R l1 l3.
Proof.
  intros Ht H. revert l3. induction H; intros l3 H3; inversion H3; subst; constructor; eauto.
Qed.

Lemma map2_length' {A B C} (f : A -> B -> C) l1 l2 : length l1 = length l2 -> length (map2 f l1 l2) = length l1.
Proof. intros. rewrite map2_length. lia. Qed.

(* monadic maps agree with pure maps under pointwise preconditions *)
Lemma mapM_pure {A B} (f : A -> res B) (g : A -> B) (P : A -> Prop) l :
  (forall a, P a -> f a = Ok (g a)) -> Forall P l -> mapM f l = Ok (map g l).
Proof.
  intros Hf H. induction H as [|a l Ha H IH]; cbn; [reflexivity|].
  rewrite (Hf a Ha). cbn [bind]. rewrite IH. reflexivity.
Qed.
Lemma map2M_pure {A B C} (f : A -> B -> res C) (g : A -> B -> C) (P : A -> Prop) (Q : B -> Prop) l1 l2 :
  (forall a b, P a -> Q b -> f a b = Ok (g a b)) -> Forall P l1 -> Forall Q l2 -> map2M f l1 l2 = Ok (map2 g l1 l2).
Proof.
  intros Hf H1. revert l2. induction H1 as [|a l1 Ha H1 IH]; intros l2 H2; cbn; [reflexivity|].
  destruct l2 as [|b l2]; [reflexivity|]. inversion H2; subst.
  rewrite (Hf a b) by assumption. cbn [bind]. rewrite IH by assumption. reflexivity.
Qed.
(* variant with a joint precondition on the pair *)
Lemma map2M_pure2 {A B C} (f : A -> B -> res C) (g : A -> B -> C) (P : A -> B -> Prop) l1 l2 :
  (forall a b, P a b -> f a b = Ok (g a b)) -> Forall2 P l1 l2 -> map2M f l1 l2 = Ok (map2 g l1 l2).
Proof.
  intros Hf H. induction H; cbn; [reflexivity|].
  rewrite Hf by assumption. cbn [bind]. rewrite IHForall2. reflexivity.
Qed.
Lemma Forall_Forall2_pair {A B} (P : A -> Prop) (Q : B -> Prop) l1 l2 :
  length l1 = length l2 -> Forall P l1 -> Forall Q l2 -> Forall2 (fun a b => P a /\ Q b) l1 l2.
Proof.
  revert l2. induction l1 as [|a l1 IH]; intros [|b l2] Hl H1 H2; cbn in *; try discriminate; constructor.
  - inversion H1; inversion H2; subst; auto.
  - inversion H1; inversion H2; subst. apply IH; auto.
Qed.

Lemma firstn_skipn_lengths {A} (l : list A) n : (n <= length l)%nat ->
  length (firstn n l) = n /\ length (skipn n l) = (length l - n)%nat.
Proof. intros. rewrite firstn_length, skipn_length. lia. Qed.

(* ternary maps *)
Fixpoint map3 {A B C D} (f : A -> B -> C -> D) (l1 : list A) (l2 : list B) (l3 : list C) : list D :=
  match l1, l2, l3 with
  | a :: r1, b :: r2, c :: r3 => f a b c :: map3 f r1 r2 r3
  | _, _, _ => []
  end.
Require Import F204.Impl.Helpers.
Lemma map3M_pure {A B C D} (f : A -> B -> C -> res D) (g : A -> B -> C -> D)
  (P : A -> Prop) (Q : B -> Prop) (R : C -> Prop) l1 l2 l3 :
  (forall a b c, P a -> Q b -> R c -> f a b c = Ok (g a b c)) ->
  Forall P l1 -> Forall Q l2 -> Forall R l3 -> map3M f l1 l2 l3 = Ok (map3 g l1 l2 l3).
Proof.
  intros Hf H1. revert l2 l3. induction H1 as [|a l1 Ha H1 IH]; intros l2 l3 H2 H3; cbn; [reflexivity|].
  destruct l2 as [|b l2]; [reflexivity|]. destruct l3 as [|c l3]; [reflexivity|].
  inversion H2; inversion H3; subst.
  rewrite (Hf a b c) by assumption. cbn [bind]. rewrite IH by assumption. reflexivity.
Qed.
Lemma map3_Forall {A B C D} (f : A -> B -> C -> D) (P : A -> Prop) (Q : B -> Prop) (R : C -> Prop) (S : D -> Prop) l1 l2 l3 :
  (forall a b c, P a -> Q b -> R c -> S (f a b c)) -> Forall P l1 -> Forall Q l2 -> Forall R l3 -> Forall S (map3 f l1 l2 l3).
Proof.
  intros Hf H1. revert l2 l3. induction H1 as [|a l1 Ha H1 IH]; intros l2 l3 H2 H3; cbn; [constructor|].
  destruct l2 as [|b l2]; [constructor|]. destruct l3 as [|c l3]; [constructor|].
  inversion H2; inversion H3; subst. constructor; auto.
Qed.
Lemma map3_length {A B C D} (f : A -> B -> C -> D) l1 l2 l3 :
  length l1 = length l2 -> length l1 = length l3 -> length (map3 f l1 l2 l3) = length l1.
Proof.
  revert l2 l3. induction l1 as [|a l1 IH]; intros [|b l2] [|c l3] H2 H3; cbn in *; try discriminate; auto.
Qed.
