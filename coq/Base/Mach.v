(* Machine integers and the outcome monad of the implementation model.

   Ok     : the function returns normally with this value
   Err    : the API returns an error (ensure!, RNG failure, rejection sample, context too long)
   Panic  : a build with debug assertions and overflow checks panics here
            (arithmetic overflow, failed debug_assert!/expect, index out of bounds)
   OutOfFuel : artefact of the model only (finite XOF prefix or signing-attempt budget exhausted) *)
From Coq Require Export ZArith List Lia Bool String.
Require Export F204.Base.Util.
Open Scope Z_scope.

Inductive err := CtxTooLong | RngFailed | Malformed | Reject | LoopLimit.

Inductive res (A : Type) : Type :=
| Ok (a : A)
| Err (e : err)
| Panic (site : string)
| OutOfFuel.
Arguments Ok {A} a.
Arguments Err {A} e.
Arguments Panic {A} site.
Arguments OutOfFuel {A}.

Definition bind {A B} (m : res A) (f : A -> res B) : res B :=
  match m with
  | Ok a => f a
  | Err e => Err e
  | Panic s => Panic s
  | OutOfFuel => OutOfFuel
  end.
Notation "x <- m ;; k" := (bind m (fun x => k)) (at level 61, m at next level, right associativity).
Notation "' pat <- m ;; k" := (bind m (fun x => match x with pat => k end))
  (at level 61, pat pattern, m at next level, right associativity).

Definition guard (c : bool) (site : string) : res unit := if c then Ok tt else Panic site.
Definition ensure (c : bool) (e : err) : res unit := if c then Ok tt else Err e.

Fixpoint mapM {A B} (f : A -> res B) (l : list A) : res (list B) :=
  match l with
  | [] => Ok []
  | a :: r => b <- f a ;; bs <- mapM f r ;; Ok (b :: bs)
  end.

Fixpoint map2M {A B C} (f : A -> B -> res C) (l1 : list A) (l2 : list B) : res (list C) :=
  match l1, l2 with
  | a :: r1, b :: r2 => c <- f a b ;; cs <- map2M f r1 r2 ;; Ok (c :: cs)
  | _, _ => Ok []
  end.

Definition is_ok {A} (m : res A) : bool := match m with Ok _ => true | _ => false end.
Definition is_panic {A} (m : res A) : bool := match m with Panic _ => true | _ => false end.

(* ---- ranges ---- *)
Definition i32_min : Z := -2147483648.
Definition i32_max : Z := 2147483647.
Definition i64_min : Z := -9223372036854775808.
Definition i64_max : Z := 9223372036854775807.
Definition in_i32 (z : Z) : bool := (i32_min <=? z) && (z <=? i32_max).
Definition in_i64 (z : Z) : bool := (i64_min <=? z) && (z <=? i64_max).

(* two's complement wrap (what `as i32`, `wrapping_mul`, and `<<` do).  Written with a mask so
   that the extracted model is fast; [wrap32_eq]/[wrap64_eq] give the arithmetic reading. *)
Definition wrap32 (z : Z) : Z := Z.land (z + 2147483648) 4294967295 - 2147483648.
Definition wrap64 (z : Z) : Z := Z.land (z + 9223372036854775808) 18446744073709551615 - 9223372036854775808.
Definition wrapu32 (z : Z) : Z := Z.land z 4294967295.

(* ---- checked operations: Panic exactly when rustc's overflow check fires ---- *)
Definition chk32 (site : string) (z : Z) : res Z := if in_i32 z then Ok z else Panic site.
Definition chk64 (site : string) (z : Z) : res Z := if in_i64 z then Ok z else Panic site.
Definition add32 a b := chk32 "i32 add overflow" (a + b).
Definition sub32 a b := chk32 "i32 sub overflow" (a - b).
Definition mul32 a b := chk32 "i32 mul overflow" (a * b).
Definition neg32 a := chk32 "i32 neg overflow" (- a).
Definition abs32 a := chk32 "i32 abs overflow" (Z.abs a).
Definition add64 a b := chk64 "i64 add overflow" (a + b).
Definition sub64 a b := chk64 "i64 sub overflow" (a - b).
Definition mul64 a b := chk64 "i64 mul overflow" (a * b).
Definition abs64 a := chk64 "i64 abs overflow" (Z.abs a).
(* shifts: the shift amount is a constant < width everywhere in the crate; `>>` on a signed
   integer is an arithmetic shift (floor division), `<<` discards the bits shifted out *)
Definition shr (a n : Z) : Z := Z.shiftr a n.
Definition shl32 (a n : Z) : Z := wrap32 (Z.shiftl a n).
Definition shl64 (a n : Z) : Z := wrap64 (Z.shiftl a n).

Lemma chk32_ok s z : i32_min <= z <= i32_max -> chk32 s z = Ok z.
Proof. unfold chk32, in_i32; intros [H1 H2]. apply Z.leb_le in H1, H2. now rewrite H1, H2. Qed.
Lemma chk64_ok s z : i64_min <= z <= i64_max -> chk64 s z = Ok z.
Proof. unfold chk64, in_i64; intros [H1 H2]. apply Z.leb_le in H1, H2. now rewrite H1, H2. Qed.
Lemma wrap32_eq z : wrap32 z = (z + 2147483648) mod 4294967296 - 2147483648.
Proof. unfold wrap32. change 4294967295 with (Z.ones 32). rewrite Z.land_ones by lia. reflexivity. Qed.
Lemma wrap64_eq z : wrap64 z = (z + 9223372036854775808) mod 18446744073709551616 - 9223372036854775808.
Proof. unfold wrap64. change 18446744073709551615 with (Z.ones 64). rewrite Z.land_ones by lia. reflexivity. Qed.
Lemma wrapu32_eq z : wrapu32 z = z mod 4294967296.
Proof. unfold wrapu32. change 4294967295 with (Z.ones 32). rewrite Z.land_ones by lia. reflexivity. Qed.
Lemma wrap32_id z : i32_min <= z <= i32_max -> wrap32 z = z.
Proof. rewrite wrap32_eq. unfold i32_min, i32_max; intros H. rewrite Z.mod_small; lia. Qed.
Lemma wrap64_id z : i64_min <= z <= i64_max -> wrap64 z = z.
Proof. rewrite wrap64_eq. unfold i64_min, i64_max; intros H. rewrite Z.mod_small; lia. Qed.

Lemma mapM_ok {A B} (f : A -> res B) (g : A -> B) l :
  (forall a, In a l -> f a = Ok (g a)) -> mapM f l = Ok (map g l).
Proof.
  induction l as [|a l IH]; intros H; simpl; [reflexivity|].
  rewrite (H a (or_introl eq_refl)). simpl. rewrite IH; [reflexivity|].
  intros b Hb; apply H; now right.
Qed.
