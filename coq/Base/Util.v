(* Small list / byte utilities shared by the specification and the implementation model. *)
From Coq Require Export ZArith List Lia Bool.
Export ListNotations.
Open Scope Z_scope.

Definition bytes := list Z.

Definition zlen {A} (l : list A) : Z := Z.of_nat (length l).

(* firstn / skipn indexed by Z (lengths in this development are Z; nat only for recursion) *)
Definition ztake {A} (n : Z) (l : list A) : list A := firstn (Z.to_nat n) l.
Definition zdrop {A} (n : Z) (l : list A) : list A := skipn (Z.to_nat n) l.
Definition zslice {A} (a b : Z) (l : list A) : list A := ztake (b - a) (zdrop a l).
Definition znth (l : list Z) (i : Z) : Z := nth (Z.to_nat i) l 0.

Fixpoint map2 {A B C} (f : A -> B -> C) (l1 : list A) (l2 : list B) : list C :=
  match l1, l2 with
  | a :: r1, b :: r2 => f a b :: map2 f r1 r2
  | _, _ => []
  end.

(* split a list into [n] chunks of [sz] elements *)
Fixpoint chunks {A} (sz : nat) (n : nat) (l : list A) : list (list A) :=
  match n with
  | O => []
  | S n' => firstn sz l :: chunks sz n' (skipn sz l)
  end.

Fixpoint upd {A} (l : list A) (i : nat) (v : A) : list A :=
  match l, i with
  | [], _ => []
  | _ :: r, O => v :: r
  | x :: r, S i' => x :: upd r i' v
  end.

Definition zupd (l : list Z) (i : Z) (v : Z) : list Z := upd l (Z.to_nat i) v.

Definition zeros (n : nat) : list Z := repeat 0 n.

Definition sumZ (l : list Z) : Z := fold_right Z.add 0 l.
Definition maxZ (l : list Z) : Z := fold_right Z.max 0 l.

Definition list_eqb (a b : list Z) : bool :=
  (length a =? length b)%nat && forallb (fun p => fst p =? snd p) (combine a b).

Definition is_byte (b : Z) : bool := (0 <=? b) && (b <? 256).
Definition all_bytes (l : list Z) : bool := forallb is_byte l.

Lemma map2_length {A B C} (f : A -> B -> C) l1 l2 :
  length (map2 f l1 l2) = Nat.min (length l1) (length l2).
Proof. revert l2; induction l1 as [|a l1 IH]; intros [|b l2]; simpl; auto. Qed.

Lemma list_eqb_eq a b : list_eqb a b = true <-> a = b.
Proof.
  unfold list_eqb. revert b. induction a as [|x a IH]; intros [|y b]; simpl; split; intros H;
    try reflexivity; try discriminate.
  - apply andb_prop in H as [Hl H]. apply andb_prop in H as [Hxy H].
    apply Z.eqb_eq in Hxy. subst y. f_equal. apply IH. rewrite Hl. exact H.
  - inversion H; subst. rewrite Nat.eqb_refl, Z.eqb_refl. simpl.
    destruct (IH b) as [_ IH2]. specialize (IH2 eq_refl). apply andb_prop in IH2 as [_ IH2]. exact IH2.
Qed.
