(* Extraction of the executable models for the correspondence check.
   ExtrOcamlBasic only: bool/option/unit/list/prod/sumbool/sumor map to the OCaml types; Z, N,
   positive, nat, string stay the extracted inductive types.  No Extract Constant of our own. *)
Require Import ExtrOcamlBasic.
Require Import F204.Base.Util F204.Base.Mach F204.Gen.Params F204.Gen.Guards F204.Gen.Oids
  F204.Hash.HashIface F204.Impl.Helpers F204.Impl.Ntt F204.Impl.HighLow F204.Impl.Conversion
  F204.Impl.Encodings F204.Impl.Hashing F204.Impl.MlDsa F204.Impl.Api.
Require F204.Hash.Keccak F204.Hash.Sha2.
Require F204.Spec.SpecConv F204.Spec.SpecRound F204.Spec.SpecNtt F204.Spec.SpecSample F204.Spec.SpecMLDSA.

(* helper for the constructed-signature generator: the commitment hash FIPS 204 Verify_internal
   recomputes (Algorithm 8 lines 5-12) for a given response z and hint h.  For a public key with
   t1 = 0 it does not depend on the challenge, so any (z, h) can be completed to a signature. *)
Definition spec_ctilde (H : Hashes) (P : Params) (pk M' : bytes) (c_tilde_in : bytes) (z h : list (list Z)) : option bytes :=
  let '(rho, t1) := SpecConv.pkDecode (p_k P) pk in
  match SpecSample.ExpandA H P rho, SpecSample.SampleInBall H (p_tau P) c_tilde_in with
  | Some A_hat, Some c =>
      let tr := h_shake256 H pk 64 in
      let mu := h_shake256 H (tr ++ M') 64 in
      let t1d := map (map (fun x => x * 2 ^ SpecConv.d)) t1 in
      let w := SpecMLDSA.vinvNTT (SpecMLDSA.vsub (SpecNtt.MatrixVectorNTT A_hat (SpecMLDSA.vNTT z))
                 (SpecNtt.ScalarVectorNTT (SpecNtt.NTT c) (SpecMLDSA.vNTT t1d))) in
      let w1 := map2 (map2 (SpecRound.UseHint (p_gamma2 P))) h w in
      Some (h_shake256 H (mu ++ SpecConv.w1Encode P w1) (Z.to_nat (p_lambda_div4 P)))
  | _, _ => None
  end.

Definition spec_mod_pm := SpecConv.mod_pm.
Definition spec_CoeffFromThreeBytes := SpecConv.CoeffFromThreeBytes.
Definition spec_CoeffFromHalfByte := SpecConv.CoeffFromHalfByte.
Definition spec_SimpleBitPack := SpecConv.SimpleBitPack.
Definition spec_BitPack := SpecConv.BitPack.
Definition spec_SimpleBitUnpack := SpecConv.SimpleBitUnpack.
Definition spec_BitUnpack := SpecConv.BitUnpack.
Definition spec_HintBitPack := SpecConv.HintBitPack.
Definition spec_HintBitUnpack := SpecConv.HintBitUnpack.
Definition spec_pkEncode := SpecConv.pkEncode.
Definition spec_pkDecode := SpecConv.pkDecode.
Definition spec_skEncode := SpecConv.skEncode.
Definition spec_skDecode := SpecConv.skDecode.
Definition spec_sigEncode := SpecConv.sigEncode.
Definition spec_sigDecode := SpecConv.sigDecode.
Definition spec_w1Encode := SpecConv.w1Encode.
Definition spec_Power2Round := SpecRound.Power2Round.
Definition spec_Decompose := SpecRound.Decompose.
Definition spec_HighBits := SpecRound.HighBits.
Definition spec_LowBits := SpecRound.LowBits.
Definition spec_MakeHint := SpecRound.MakeHint.
Definition spec_UseHint := SpecRound.UseHint.
Definition spec_NTT := SpecNtt.NTT.
Definition spec_invNTT := SpecNtt.invNTT.
Definition spec_negacyclic := SpecNtt.negacyclic.
Definition spec_zetas := SpecNtt.zetas.
Definition spec_MatrixVectorNTT := SpecNtt.MatrixVectorNTT.
Definition spec_SampleInBall := SpecSample.SampleInBall.
Definition spec_RejNTTPoly := SpecSample.RejNTTPoly.
Definition spec_RejBoundedPoly := SpecSample.RejBoundedPoly.
Definition spec_ExpandA := SpecSample.ExpandA.
Definition spec_ExpandS := SpecSample.ExpandS.
Definition spec_ExpandMask := SpecSample.ExpandMask.
Definition spec_KeyGen_internal := SpecMLDSA.KeyGen_internal.
Definition spec_Sign_internal := SpecMLDSA.Sign_internal.
Definition spec_Verify_internal := SpecMLDSA.Verify_internal.
Definition spec_Sign := SpecMLDSA.Sign.
Definition spec_HashSign := SpecMLDSA.HashSign.
Definition spec_Verify := SpecMLDSA.Verify.
Definition spec_HashVerify := SpecMLDSA.HashVerify.
Definition spec_M_pure := SpecMLDSA.M_pure.
Definition spec_M_hash := SpecMLDSA.M_hash.
Extraction Language OCaml.

Definition z_ops := (Z.add, Z.mul, Z.opp, Z.div, Z.modulo, Z.ltb, Z.eqb, Z.of_nat, Z.to_nat).

Extraction "../ocaml/model.ml"
  z_ops P44 P65 P87 real_hashes
  partial_reduce64 partial_reduce32 full_reduce32 center_mod mont_reduce bit_length
  is_in_range to_mont add_vector_ntt mat_vec_mul infinity_norm ZETA_TABLE_MONT
  ntt inv_ntt power2round decompose high_bits low_bits make_hint use_hint
  coeff_from_three_bytes coeff_from_half_byte bit_pack simple_bit_pack bit_unpack simple_bit_unpack
  hint_bit_pack hint_bit_unpack
  pk_encode pk_decode sk_encode sk_decode sig_encode sig_decode w1_encode
  sample_in_ball rej_ntt_poly rej_bounded_poly expand_a expand_s expand_mask hash_message
  key_gen key_gen_internal sign_internal verify_internal expand_private expand_public private_to_public_key
  try_keygen_with_rng keygen_from_seed try_sign_with_rng try_hash_sign_with_rng get_public_key
  verify hash_verify sk_try_from_bytes sk_into_bytes pk_try_from_bytes pk_into_bytes
  internal_sign internal_verify dudect_keygen_sign_with_rng
  spec_mod_pm spec_CoeffFromThreeBytes spec_CoeffFromHalfByte spec_SimpleBitPack spec_BitPack spec_SimpleBitUnpack spec_BitUnpack spec_HintBitPack spec_HintBitUnpack spec_pkEncode spec_pkDecode spec_skEncode spec_skDecode spec_sigEncode spec_sigDecode spec_w1Encode spec_Power2Round spec_Decompose spec_HighBits spec_LowBits spec_MakeHint spec_UseHint spec_NTT spec_invNTT spec_negacyclic spec_zetas spec_MatrixVectorNTT spec_SampleInBall spec_RejNTTPoly spec_RejBoundedPoly spec_ExpandA spec_ExpandS spec_ExpandMask spec_KeyGen_internal spec_Sign_internal spec_Verify_internal spec_Sign spec_HashSign spec_Verify spec_HashVerify spec_M_pure spec_M_hash
  spec_ctilde.
