(* Extraction of the executable models for the correspondence check.
   ExtrOcamlBasic only: bool/option/unit/list/prod/sumbool/sumor map to the OCaml types; Z, N,
   positive, nat, string stay the extracted inductive types.  No Extract Constant of our own. *)
Require Import ExtrOcamlBasic.
Require Import F204.Base.Util F204.Base.Mach F204.Gen.Params F204.Gen.Guards F204.Gen.Oids
  F204.Hash.HashIface F204.Impl.Helpers F204.Impl.Ntt F204.Impl.HighLow F204.Impl.Conversion
  F204.Impl.Encodings F204.Impl.Hashing F204.Impl.MlDsa F204.Impl.Api.
Require F204.Hash.Keccak F204.Hash.Sha2.
Extraction Language OCaml.

Definition z_ops := (Z.add, Z.mul, Z.opp, Z.div, Z.modulo, Z.ltb, Z.eqb, Z.of_nat, Z.to_nat).

Extraction "../ocaml/model.ml"
  z_ops P44 P65 P87 real_hashes
  partial_reduce64 partial_reduce32 full_reduce32 center_mod mont_reduce bit_length
  is_in_range to_mont add_vector_ntt mat_vec_mul infinity_norm ZETA_TABLE_MONT
  ntt inv_ntt power2round decompose high_bits low_bits make_hint use_hint
  coeff_from_three_bytes coeff_from_half_byte bit_pack simple_bit_pack bit_unpack simple_bit_unpack
  hint_bit_pack hint_bit_unpack
  pk_encode pk_decode sk_encode sk_decode sig_encode sig_decode w1_encode
  sample_in_ball rej_ntt_poly rej_bounded_poly expand_a expand_s expand_mask hash_message
  key_gen key_gen_internal sign_internal verify_internal expand_private expand_public private_to_public_key
  try_keygen_with_rng keygen_from_seed try_sign_with_rng try_hash_sign_with_rng get_public_key
  verify hash_verify sk_try_from_bytes sk_into_bytes pk_try_from_bytes pk_into_bytes
  internal_sign internal_verify dudect_keygen_sign_with_rng.
