(* Abstract interface to the hash functions the crate calls (sha3::Shake128/Shake256,
   sha2::Sha256/Sha512).  All models take a [Hashes] record; theorems quantify over it, so no
   theorem depends on the executable Keccak/SHA-2 models, which exist to RUN the models.
   An XOF is modelled as a function returning the first n output bytes; successive reads from
   one reader are one request that is then split.  Where a model requests two different lengths
   of the same stream, the prefix law below is an explicit hypothesis of the theorem. *)
Require Import F204.Base.Util.
Require F204.Hash.Keccak F204.Hash.Sha2.

Record Hashes := mkHashes {
  h_shake256 : bytes -> nat -> bytes;
  h_shake128 : bytes -> nat -> bytes;
  h_sha256 : bytes -> bytes;
  h_sha512 : bytes -> bytes }.

Definition real_hashes : Hashes :=
  mkHashes Keccak.shake256 Keccak.shake128 Sha2.sha256 Sha2.sha512.

(* laws a real XOF / hash satisfies; used as named hypotheses, never as axioms *)
Record HashLaws (H : Hashes) : Prop := {
  shake256_len : forall m n, length (h_shake256 H m n) = n;
  shake128_len : forall m n, length (h_shake128 H m n) = n;
  shake256_prefix : forall m n k, firstn n (h_shake256 H m (n + k)) = h_shake256 H m n;
  shake128_prefix : forall m n k, firstn n (h_shake128 H m (n + k)) = h_shake128 H m n;
  shake256_bytes : forall m n, all_bytes (h_shake256 H m n) = true;
  shake128_bytes : forall m n, all_bytes (h_shake128 H m n) = true;
  sha256_len : forall m, length (h_sha256 H m) = 32%nat;
  sha512_len : forall m, length (h_sha512 H m) = 64%nat;
  sha256_bytes : forall m, all_bytes (h_sha256 H m) = true;
  sha512_bytes : forall m, all_bytes (h_sha512 H m) = true }.
