(* Executable reference model of Keccak-f[1600] and the SHAKE128 / SHAKE256 XOFs (FIPS 202).
   Lanes are binary naturals [N] below 2^64; the state is the list of 25 lanes A[x + 5y].
   This file is NOT the code under verification (the crate uses the `sha3` crate); it exists so
   that the models can be run.  It is validated on every run against Python's hashlib and the
   Rust crates (tools/check.py, stream "hash"). Theorems never depend on it: they are stated
   over an abstract [Hashes] record (Hash/HashIface.v). *)
From Coq Require Import NArith ZArith List.
Import ListNotations.
Open Scope N_scope.

Definition mask64 : N := 18446744073709551615.

Definition rotl (x n : N) : N :=
  if n =? 0 then x
  else N.lor (N.shiftl (N.land x (N.ones (64 - n))) n) (N.shiftr x (64 - n)).

Definition not64 (x : N) : N := N.lxor x mask64.

Definition RC : list N :=
  [ 0x0000000000000001; 0x0000000000008082; 0x800000000000808A; 0x8000000080008000;
    0x000000000000808B; 0x0000000080000001; 0x8000000080008081; 0x8000000000008009;
    0x000000000000008A; 0x0000000000000088; 0x0000000080008009; 0x000000008000000A;
    0x000000008000808B; 0x800000000000008B; 0x8000000000008089; 0x8000000000008003;
    0x8000000000008002; 0x8000000000000080; 0x000000000000800A; 0x800000008000000A;
    0x8000000080008081; 0x8000000000008080; 0x0000000080000001; 0x8000000080008008 ].

Definition x5 (a b c d e : N) : N := N.lxor a (N.lxor b (N.lxor c (N.lxor d e))).
Definition chi (a b c : N) : N := N.lxor a (N.land (not64 b) c).

(* one round; state index = x + 5y *)
Definition round (rc : N) (s : list N) : list N :=
  match s with
  | [a00; a10; a20; a30; a40;  a01; a11; a21; a31; a41;  a02; a12; a22; a32; a42;
     a03; a13; a23; a33; a43;  a04; a14; a24; a34; a44] =>
      (* theta *)
      let c0 := x5 a00 a01 a02 a03 a04 in
      let c1 := x5 a10 a11 a12 a13 a14 in
      let c2 := x5 a20 a21 a22 a23 a24 in
      let c3 := x5 a30 a31 a32 a33 a34 in
      let c4 := x5 a40 a41 a42 a43 a44 in
      let d0 := N.lxor c4 (rotl c1 1) in
      let d1 := N.lxor c0 (rotl c2 1) in
      let d2 := N.lxor c1 (rotl c3 1) in
      let d3 := N.lxor c2 (rotl c4 1) in
      let d4 := N.lxor c3 (rotl c0 1) in
      let a00 := N.lxor a00 d0 in let a01 := N.lxor a01 d0 in let a02 := N.lxor a02 d0 in
      let a03 := N.lxor a03 d0 in let a04 := N.lxor a04 d0 in
      let a10 := N.lxor a10 d1 in let a11 := N.lxor a11 d1 in let a12 := N.lxor a12 d1 in
      let a13 := N.lxor a13 d1 in let a14 := N.lxor a14 d1 in
      let a20 := N.lxor a20 d2 in let a21 := N.lxor a21 d2 in let a22 := N.lxor a22 d2 in
      let a23 := N.lxor a23 d2 in let a24 := N.lxor a24 d2 in
      let a30 := N.lxor a30 d3 in let a31 := N.lxor a31 d3 in let a32 := N.lxor a32 d3 in
      let a33 := N.lxor a33 d3 in let a34 := N.lxor a34 d3 in
      let a40 := N.lxor a40 d4 in let a41 := N.lxor a41 d4 in let a42 := N.lxor a42 d4 in
      let a43 := N.lxor a43 d4 in let a44 := N.lxor a44 d4 in
      (* rho and pi: B[y, 2x+3y] = rot(A[x,y], r[x,y]) *)
      let b00 := a00 in
      let b13 := rotl a01 36 in
      let b21 := rotl a02 3 in
      let b34 := rotl a03 41 in
      let b42 := rotl a04 18 in
      let b02 := rotl a10 1 in
      let b10 := rotl a11 44 in
      let b23 := rotl a12 10 in
      let b31 := rotl a13 45 in
      let b44 := rotl a14 2 in
      let b04 := rotl a20 62 in
      let b12 := rotl a21 6 in
      let b20 := rotl a22 43 in
      let b33 := rotl a23 15 in
      let b41 := rotl a24 61 in
      let b01 := rotl a30 28 in
      let b14 := rotl a31 55 in
      let b22 := rotl a32 25 in
      let b30 := rotl a33 21 in
      let b43 := rotl a34 56 in
      let b03 := rotl a40 27 in
      let b11 := rotl a41 20 in
      let b24 := rotl a42 39 in
      let b32 := rotl a43 8 in
      let b40 := rotl a44 14 in
      (* chi and iota; bXY = B[x=X, y=Y] *)
      [ N.lxor (chi b00 b10 b20) rc; chi b10 b20 b30; chi b20 b30 b40; chi b30 b40 b00; chi b40 b00 b10;
        chi b01 b11 b21; chi b11 b21 b31; chi b21 b31 b41; chi b31 b41 b01; chi b41 b01 b11;
        chi b02 b12 b22; chi b12 b22 b32; chi b22 b32 b42; chi b32 b42 b02; chi b42 b02 b12;
        chi b03 b13 b23; chi b13 b23 b33; chi b23 b33 b43; chi b33 b43 b03; chi b43 b03 b13;
        chi b04 b14 b24; chi b14 b24 b34; chi b24 b34 b44; chi b34 b44 b04; chi b44 b04 b14 ]
  | _ => s
  end.

Definition keccak_f (s : list N) : list N := fold_left (fun st rc => round rc st) RC s.

(* ---- sponge over byte strings (bytes as N below 256) ---- *)
Fixpoint lane_of_bytes (bs : list N) : N :=
  match bs with [] => 0 | b :: r => b + 256 * lane_of_bytes r end.
Fixpoint bytes_of_lane (n : nat) (x : N) : list N :=
  match n with O => [] | S n' => N.land x 255 :: bytes_of_lane n' (N.shiftr x 8) end.

Fixpoint lanes_of_bytes (nl : nat) (bs : list N) : list N :=
  match nl with
  | O => []
  | S n' => lane_of_bytes (firstn 8 bs) :: lanes_of_bytes n' (skipn 8 bs)
  end.

Fixpoint xor_into (s : list N) (blk : list N) : list N :=
  match s, blk with
  | a :: s', b :: blk' => N.lxor a b :: xor_into s' blk'
  | _, [] => s
  | [], _ => []
  end.

Definition zero_state : list N := repeat 0 25.

(* absorb a padded message whose length is a multiple of [rate] bytes; [nb] = number of blocks.
   The sponge is written over an arbitrary permutation [f] of the state (instantiated with keccak_f
   below) so that the structural laws of Proofs/RealHashes.v never have to unfold Keccak-f. *)
Fixpoint absorb_g (f : list N -> list N) (rate : nat) (nb : nat) (s : list N) (msg : list N) : list N :=
  match nb with
  | O => s
  | S nb' =>
      let blk := lanes_of_bytes (Nat.div rate 8) (firstn rate msg) in
      absorb_g f rate nb' (f (xor_into s blk)) (skipn rate msg)
  end.

Definition pad (rate : nat) (suffix : N) (msg : list N) : list N :=
  let r := Nat.modulo (length msg) rate in
  let padlen := (rate - r)%nat in       (* 1 .. rate *)
  match padlen with
  | 1%nat => msg ++ [N.lor suffix 128]
  | _ => msg ++ [suffix] ++ repeat 0 (padlen - 2) ++ [128]
  end.

Definition state_bytes (rate : nat) (s : list N) : list N :=
  firstn rate (flat_map (bytes_of_lane 8) s).

(* squeeze [nb] blocks *)
Fixpoint squeeze_g (f : list N -> list N) (rate : nat) (nb : nat) (s : list N) : list N :=
  match nb with
  | O => []
  | S nb' => state_bytes rate s ++ squeeze_g f rate nb' (f s)
  end.

Definition sponge_g (f : list N -> list N) (rate : nat) (suffix : N) (msg : list N) (outlen : nat) : list N :=
  let p := pad rate suffix msg in
  let s := absorb_g f rate (Nat.div (length p) rate) zero_state p in
  let nb := Nat.div (outlen + rate - 1) rate in
  firstn outlen (squeeze_g f rate nb s).

Definition sponge := sponge_g keccak_f.

Definition shake128_N (msg : list N) (outlen : nat) : list N := sponge 168 31 msg outlen.
Definition shake256_N (msg : list N) (outlen : nat) : list N := sponge 136 31 msg outlen.

Definition shake128 (msg : list Z) (outlen : nat) : list Z :=
  map Z.of_N (shake128_N (map Z.to_N msg) outlen).
Definition shake256 (msg : list Z) (outlen : nat) : list Z :=
  map Z.of_N (shake256_N (map Z.to_N msg) outlen).
