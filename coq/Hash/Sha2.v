(* Executable reference model of SHA-256 and SHA-512 (FIPS 180-4) over [N] words.
   Not the code under verification (the crate uses the `sha2` crate); validated on every run
   against hashlib and the Rust crate.  Theorems are stated over an abstract hash record. *)
From Coq Require Import NArith ZArith List.
Import ListNotations.
Open Scope N_scope.

Section Generic.
  Variable wbits : N.            (* 32 or 64 *)
  Let modulus : N := 2 ^ wbits.
  Definition wadd (a b : N) : N := (a + b) mod modulus.
  Definition rotr (x n : N) : N :=
    N.lor (N.shiftr x n) (N.land (N.shiftl x (wbits - n)) (N.ones wbits)).
  Definition shr (x n : N) : N := N.shiftr x n.
  Definition wnot (x : N) : N := N.lxor x (N.ones wbits).
  Definition ch (x y z : N) : N := N.lxor (N.land x y) (N.land (wnot x) z).
  Definition maj (x y z : N) : N := N.lxor (N.land x y) (N.lxor (N.land x z) (N.land y z)).

  Variables s0a s0b s0c s1a s1b s1c : N.   (* big sigma rotations *)
  Variables g0a g0b g0c g1a g1b g1c : N.   (* small sigma: two rotations and one shift *)
  Definition bsig0 x := N.lxor (rotr x s0a) (N.lxor (rotr x s0b) (rotr x s0c)).
  Definition bsig1 x := N.lxor (rotr x s1a) (N.lxor (rotr x s1b) (rotr x s1c)).
  Definition ssig0 x := N.lxor (rotr x g0a) (N.lxor (rotr x g0b) (shr x g0c)).
  Definition ssig1 x := N.lxor (rotr x g1a) (N.lxor (rotr x g1b) (shr x g1c)).

  (* message schedule: [w] holds the words so far in REVERSE order (most recent first) *)
  Fixpoint schedule (n : nat) (w : list N) : list N :=
    match n with
    | O => w
    | S n' =>
        let wt := wadd (wadd (ssig1 (nth 1 w 0)) (nth 6 w 0)) (wadd (ssig0 (nth 14 w 0)) (nth 15 w 0)) in
        schedule n' (wt :: w)
    end.

  Definition step (st : list N) (kw : N * N) : list N :=
    match st with
    | [a; b; c; d; e; f; g; h] =>
        let t1 := wadd (wadd (wadd h (bsig1 e)) (wadd (ch e f g) (fst kw))) (snd kw) in
        let t2 := wadd (bsig0 a) (maj a b c) in
        [wadd t1 t2; a; b; c; wadd d t1; e; f; g]
    | _ => st
    end.

  Variable K : list N.
  Definition compress (hst : list N) (blockwords : list N) : list N :=
    let w := rev (schedule (length K - 16) (rev blockwords)) in
    let st := fold_left step (combine K w) hst in
    map (fun p => wadd (fst p) (snd p)) (combine hst st).
End Generic.

Fixpoint be_word (bs : list N) : N :=
  match bs with [] => 0 | b :: r => b * 256 ^ (N.of_nat (length r)) + be_word r end.
Fixpoint be_bytes (n : nat) (x : N) : list N :=
  match n with O => [] | S n' => N.land (N.shiftr x (8 * N.of_nat n')) 255 :: be_bytes n' x end.
Fixpoint words_of (wb : nat) (n : nat) (bs : list N) : list N :=
  match n with O => [] | S n' => be_word (firstn wb bs) :: words_of wb n' (skipn wb bs) end.

(* padding: 0x80, zeros, length in bits as a big-endian (lenbytes)-byte integer *)
Definition sha_pad (block lenbytes : nat) (msg : list N) : list N :=
  let l := length msg in
  let r := Nat.modulo (l + 1 + lenbytes) block in
  let z := if Nat.eqb r 0 then O else (block - r)%nat in
  msg ++ [128] ++ repeat 0 z ++ be_bytes lenbytes (8 * N.of_nat l).

Fixpoint blocks (block wb : nat) (nb : nat) (f : list N -> list N -> list N) (h : list N) (m : list N) : list N :=
  match nb with
  | O => h
  | S nb' => blocks block wb nb' f (f h (words_of wb 16 (firstn block m))) (skipn block m)
  end.

Definition K256 : list N :=
 [0x428a2f98;0x71374491;0xb5c0fbcf;0xe9b5dba5;0x3956c25b;0x59f111f1;0x923f82a4;0xab1c5ed5;
  0xd807aa98;0x12835b01;0x243185be;0x550c7dc3;0x72be5d74;0x80deb1fe;0x9bdc06a7;0xc19bf174;
  0xe49b69c1;0xefbe4786;0x0fc19dc6;0x240ca1cc;0x2de92c6f;0x4a7484aa;0x5cb0a9dc;0x76f988da;
  0x983e5152;0xa831c66d;0xb00327c8;0xbf597fc7;0xc6e00bf3;0xd5a79147;0x06ca6351;0x14292967;
  0x27b70a85;0x2e1b2138;0x4d2c6dfc;0x53380d13;0x650a7354;0x766a0abb;0x81c2c92e;0x92722c85;
  0xa2bfe8a1;0xa81a664b;0xc24b8b70;0xc76c51a3;0xd192e819;0xd6990624;0xf40e3585;0x106aa070;
  0x19a4c116;0x1e376c08;0x2748774c;0x34b0bcb5;0x391c0cb3;0x4ed8aa4a;0x5b9cca4f;0x682e6ff3;
  0x748f82ee;0x78a5636f;0x84c87814;0x8cc70208;0x90befffa;0xa4506ceb;0xbef9a3f7;0xc67178f2].
Definition H256 : list N :=
 [0x6a09e667;0xbb67ae85;0x3c6ef372;0xa54ff53a;0x510e527f;0x9b05688c;0x1f83d9ab;0x5be0cd19].

Definition K512 : list N :=
 [0x428a2f98d728ae22;0x7137449123ef65cd;0xb5c0fbcfec4d3b2f;0xe9b5dba58189dbbc;0x3956c25bf348b538;
  0x59f111f1b605d019;0x923f82a4af194f9b;0xab1c5ed5da6d8118;0xd807aa98a3030242;0x12835b0145706fbe;
  0x243185be4ee4b28c;0x550c7dc3d5ffb4e2;0x72be5d74f27b896f;0x80deb1fe3b1696b1;0x9bdc06a725c71235;
  0xc19bf174cf692694;0xe49b69c19ef14ad2;0xefbe4786384f25e3;0x0fc19dc68b8cd5b5;0x240ca1cc77ac9c65;
  0x2de92c6f592b0275;0x4a7484aa6ea6e483;0x5cb0a9dcbd41fbd4;0x76f988da831153b5;0x983e5152ee66dfab;
  0xa831c66d2db43210;0xb00327c898fb213f;0xbf597fc7beef0ee4;0xc6e00bf33da88fc2;0xd5a79147930aa725;
  0x06ca6351e003826f;0x142929670a0e6e70;0x27b70a8546d22ffc;0x2e1b21385c26c926;0x4d2c6dfc5ac42aed;
  0x53380d139d95b3df;0x650a73548baf63de;0x766a0abb3c77b2a8;0x81c2c92e47edaee6;0x92722c851482353b;
  0xa2bfe8a14cf10364;0xa81a664bbc423001;0xc24b8b70d0f89791;0xc76c51a30654be30;0xd192e819d6ef5218;
  0xd69906245565a910;0xf40e35855771202a;0x106aa07032bbd1b8;0x19a4c116b8d2d0c8;0x1e376c085141ab53;
  0x2748774cdf8eeb99;0x34b0bcb5e19b48a8;0x391c0cb3c5c95a63;0x4ed8aa4ae3418acb;0x5b9cca4f7763e373;
  0x682e6ff3d6b2b8a3;0x748f82ee5defb2fc;0x78a5636f43172f60;0x84c87814a1f0ab72;0x8cc702081a6439ec;
  0x90befffa23631e28;0xa4506cebde82bde9;0xbef9a3f7b2c67915;0xc67178f2e372532b;0xca273eceea26619c;
  0xd186b8c721c0c207;0xeada7dd6cde0eb1e;0xf57d4f7fee6ed178;0x06f067aa72176fba;0x0a637dc5a2c898a6;
  0x113f9804bef90dae;0x1b710b35131c471b;0x28db77f523047d84;0x32caab7b40c72493;0x3c9ebe0a15c9bebc;
  0x431d67c49c100d4c;0x4cc5d4becb3e42b6;0x597f299cfc657e2a;0x5fcb6fab3ad6faec;0x6c44198c4a475817].
Definition H512 : list N :=
 [0x6a09e667f3bcc908;0xbb67ae8584caa73b;0x3c6ef372fe94f82b;0xa54ff53a5f1d36f1;
  0x510e527fade682d1;0x9b05688c2b3e6c1f;0x1f83d9abfb41bd6b;0x5be0cd19137e2179].

Definition compress256 := compress 32 2 13 22 6 11 25 7 18 3 17 19 10 K256.
Definition compress512 := compress 64 28 34 39 14 18 41 1 8 7 19 61 6 K512.

Definition sha256_N (msg : list N) : list N :=
  let p := sha_pad 64 8 msg in
  flat_map (be_bytes 4) (blocks 64 4 (Nat.div (length p) 64) compress256 H256 p).
Definition sha512_N (msg : list N) : list N :=
  let p := sha_pad 128 16 msg in
  flat_map (be_bytes 8) (blocks 128 8 (Nat.div (length p) 128) compress512 H512 p).

Definition sha256 (msg : list Z) : list Z := map Z.of_N (sha256_N (map Z.to_N msg)).
Definition sha512 (msg : list Z) : list Z := map Z.of_N (sha512_N (map Z.to_N msg)).
