(* Model of /repo/src/conversion.rs *)
Require Import F204.Base.Util F204.Base.Mach F204.Gen.Params F204.Impl.Helpers.
Open Scope string_scope.
Open Scope list_scope.
Open Scope Z_scope.

(* Algorithm 14.  Err Reject is the Rust Err("Alg 14: returns bottom") *)
Definition coeff_from_three_bytes (ctest : bool) (b0 b1 b2 : Z) : res Z :=
  let b2p := Z.land b2 127 in
  let b2p := if ctest then Z.land b2p 63 else b2p in
  let z := Z.lor (Z.lor (Z.shiftl b2p 16) (Z.shiftl b1 8)) b0 in
  if z <? Q then Ok z else Err Reject.

(* Algorithm 15 *)
Definition M5 : Z := 3355444.   (* ((1 << 24) / 5) + 1 *)
Definition coeff_from_half_byte (ctest : bool) (eta b : Z) : res Z :=
  _ <- guard ((eta =? 2) || (eta =? 4)) "Alg 15: incorrect eta" ;;
  _ <- guard (b <? 16) "Alg 15: b out of range" ;;
  let b := if ctest then Z.land b 7 else b in
  if (eta =? 2) && (b <? 15) then
    t <- mul32 b M5 ;; let quot := shr t 24 in
    t <- mul32 quot 5 ;; rem <- sub32 b t ;;
    sub32 2 rem
  else if (eta =? 4) && (b <? 9) then sub32 4 b
  else Err Reject.

(* ---- Algorithm 17 bit_pack: accumulator (temp : u32, bit_index, output bytes in reverse) ---- *)

(* the inner `while bit_index > 7` loop; fuel = 4 suffices because bit_index < 8 + 20 *)
Fixpoint bp_flush (fuel : nat) (temp bit_index : Z) (out : list Z) : Z * Z * list Z :=
  match fuel with
  | O => (temp, bit_index, out)
  | S f => if 7 <? bit_index
           then bp_flush f (shr temp 8) (bit_index - 8) (temp mod 256 :: out)
           else (temp, bit_index, out)
  end.

Definition bp_step (a b bitlen : Z) (st : Z * Z * list Z) (coeff : Z) : Z * Z * list Z :=
  let '(temp, bit_index, out) := st in
  let v := if 0 <? a then Z.abs (b - coeff) else Z.abs coeff in
  let temp := Z.lor temp (wrapu32 (Z.shiftl v bit_index)) in
  bp_flush 4 temp (bit_index + bitlen) out.

Definition bit_pack_raw (w : list Z) (a b : Z) : list Z :=
  let '(_, _, out) := fold_left (bp_step a b (bitlen (a + b))) w (0, 0, []) in rev out.

(* [outlen] = bytes_out.len() *)
Definition bit_pack (w : list Z) (a b : Z) (outlen : Z) : res (list Z) :=
  _ <- guard ((0 <=? a) && (a <? 1048576)) "Alg 17: a out of range" ;;
  _ <- guard ((1 <=? b) && (b <? 1048576)) "Alg 17: b out of range" ;;
  _ <- guard (is_in_range w a b) "Alg 17: w out of range" ;;
  _ <- guard (zlen w * bitlen (a + b) =? outlen * 8) "Alg 17: bad output size" ;;
  Ok (bit_pack_raw w a b).

Definition simple_bit_pack (w : list Z) (b : Z) (outlen : Z) : res (list Z) :=
  _ <- guard ((1 <=? b) && (b <? 1048576)) "Alg 16: b out of range" ;;
  _ <- guard (is_in_range w 0 b) "Alg 16: w out of range" ;;
  _ <- guard (outlen =? 32 * bitlen b) "Alg 16: incorrect size of output bytes" ;;
  bit_pack w 0 b outlen.

(* ---- Algorithm 19 bit_unpack: accumulator (temp : i32, bit_index, coefficients in reverse) ---- *)
Fixpoint bu_drain (fuel : nat) (a b bitlen : Z) (temp bit_index : Z) (out : list Z) : Z * Z * list Z :=
  match fuel with
  | O => (temp, bit_index, out)
  | S f => if bitlen <=? bit_index
           then let tmask := Z.land temp (Z.ones bitlen) in
                let c := if a =? 0 then tmask else b - tmask in
                bu_drain f a b bitlen (shr temp bitlen) (bit_index - bitlen) (c :: out)
           else (temp, bit_index, out)
  end.

Definition bu_step (a b bitlen : Z) (st : Z * Z * list Z) (byte : Z) : Z * Z * list Z :=
  let '(temp, bit_index, out) := st in
  let temp := Z.lor temp (shl32 byte bit_index) in
  bu_drain 8 a b bitlen temp (bit_index + 8) out.

Definition bit_unpack_raw (v : list Z) (a b : Z) : list Z :=
  let '(_, _, out) := fold_left (bu_step a b (bitlen (a + b))) v (0, 0, []) in rev out.

Definition bit_unpack (v : list Z) (a b : Z) : res (list Z) :=
  _ <- guard ((0 <=? a) && (a <? 1048576)) "Alg 19: a out of range" ;;
  _ <- guard ((1 <=? b) && (b <? 1048576)) "Alg 19: b out of range" ;;
  _ <- guard (zlen v =? 32 * bitlen (a + b)) "Alg 19: bad output size" ;;
  let w := bit_unpack_raw v a b in
  _ <- ensure (is_in_range w a b) Malformed ;;
  Ok w.

Definition simple_bit_unpack (v : list Z) (b : Z) : res (list Z) :=
  _ <- guard ((1 <=? b) && (b <? 1048576)) "Alg 18: b out of range" ;;
  _ <- guard (zlen v =? 32 * bitlen b) "Alg 18: bad output size" ;;
  bit_unpack v 0 b.

(* ---- Algorithm 20 hint_bit_pack ---- *)
(* writing y[index] with index out of bounds panics *)
Definition set_byte (y : list Z) (i : Z) (v : Z) : res (list Z) :=
  if (0 <=? i) && (i <? zlen y) then Ok (zupd y i v) else Panic "index out of bounds".

Definition hbp_coef (ctest : bool) (st : list Z * Z) (jh : Z * Z) : res (list Z * Z) :=
  let '(y, index) := st in
  let '(j, hj) := jh in
  if ctest && (zlen y - 1 <? index) then Ok (y, index)
  else if ctest || negb (hj =? 0) then
    y' <- set_byte y index (j mod 256) ;; Ok (y', index + 1)
  else Ok (y, index).

Fixpoint foldM {A B} (f : A -> B -> res A) (l : list B) (a : A) : res A :=
  match l with [] => Ok a | b :: r => a' <- f a b ;; foldM f r a' end.

Definition hbp_poly (ctest : bool) (omega : Z) (st : list Z * Z * Z) (p : list Z) : res (list Z * Z * Z) :=
  let '(y, index, i) := st in
  '(y1, index1) <- foldM (hbp_coef ctest) (combine (map Z.of_nat (seq 0 256)) p) (y, index) ;;
  y2 <- set_byte y1 (omega + i) (index1 mod 256) ;;
  Ok (y2, index1, i + 1).

Definition count_ones (p : list Z) : Z := sumZ (filter (fun e => e =? 1) p).

Definition hint_bit_pack (ctest : bool) (omega : Z) (h : list (list Z)) (ylen : Z) : res (list Z) :=
  _ <- guard (0 <=? omega) "Alg 20: try_from fail" ;;
  let k := zlen h in
  _ <- guard ((1 <=? omega + k) && (omega + k <? 256)) "Alg 20: omega+K out of range" ;;
  _ <- guard (ylen =? omega + k) "Alg 20: bad output size" ;;
  _ <- guard (forallb (fun r => is_in_range r 0 1) h) "Alg 20: h not 0/1" ;;
  _ <- guard (forallb (fun r => count_ones r <=? omega) h) "Alg 20: too many 1's in h" ;;
  '(y, _, _) <- foldM (hbp_poly ctest omega) h (zeros (Z.to_nat ylen), 0, 0) ;;
  Ok y.

(* ---- Algorithm 21 hint_bit_unpack ---- *)
Definition get_byte (y : list Z) (i : Z) : res Z :=
  if (0 <=? i) && (i <? zlen y) then Ok (znth y i) else Panic "index out of bounds".

(* the `while index < y[omega+i]` loop; fuel 256 suffices (index is a u8) *)
Fixpoint hbu_while (fuel : nat) (y : list Z) (lim first index : Z) (p : list Z) : res (list Z * Z) :=
  match fuel with
  | O => OutOfFuel
  | S f =>
      if index <? lim then
        ok <- (if first <? index then
                 a <- get_byte y (index - 1) ;; b <- get_byte y index ;; Ok (a <? b)
               else Ok true) ;;
        if ok : bool then
          pos <- get_byte y index ;;
          _ <- guard (pos <? zlen p) "index out of bounds" ;;
          _ <- guard (index + 1 <? 256) "u8 add overflow" ;;
          hbu_while f y lim first (index + 1) (zupd p pos 1)
        else Err Malformed
      else Ok (p, index)
  end.

Definition hbu_poly (omega : Z) (y : list Z) (st : list (list Z) * Z) (i : Z) : res (list (list Z) * Z) :=
  let '(acc, index) := st in
  c <- get_byte y (omega + i) ;;
  if (c <? index) || (omega mod 256 <? c) then Err Malformed
  else
    '(p, index') <- hbu_while 257 y c index index (zeros 256) ;;
    Ok (acc ++ [p], index').

Definition hint_bit_unpack (k : nat) (omega : Z) (y : list Z) : res (list (list Z)) :=
  _ <- guard (0 <=? omega) "Alg 21: omega try_into fail" ;;
  let kz := Z.of_nat k in
  _ <- guard ((1 <=? omega + kz) && (omega + kz <? 256)) "Alg 21: omega+K too large" ;;
  _ <- guard (zlen y =? omega + kz) "Alg 21: bad output size" ;;
  '(h, index) <- foldM (hbu_poly omega y) (map Z.of_nat (seq 0 k)) ([], 0) ;;
  (* for i in index..omega.to_le_bytes()[0] { if y[i] != 0 return Err } *)
  rest <- mapM (get_byte y) (map (fun d => index + Z.of_nat d) (seq 0 (Z.to_nat (omega mod 256 - index)))) ;;
  _ <- ensure (forallb (fun b => b =? 0) rest) Malformed ;;
  _ <- guard (forallb (fun r => count_ones r <=? omega) h) "Alg 21: too many 1's in h" ;;
  Ok h.
