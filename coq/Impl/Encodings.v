(* Model of /repo/src/encodings.rs.  Const generics K, L, PK_LEN, ... come from the [Params]
   record (generated from the three instantiations of functionality!()). *)
Require Import F204.Base.Util F204.Base.Mach F204.Gen.Params F204.Impl.Helpers F204.Impl.Conversion.
Open Scope string_scope.
Open Scope list_scope.
Open Scope Z_scope.

Definition kz (P : Params) : Z := Z.of_nat (p_k P).
Definition lz (P : Params) : Z := Z.of_nat (p_l P).
Definition BLQD : Z := bitlen (Q - 1) - D.          (* 10 *)
Definition T1MAX : Z := 2 ^ BLQD - 1.                (* 1023 *)
Definition TOP : Z := 2 ^ (D - 1).                   (* 4096 *)

Definition concatM {A} (l : list (res (list A))) : res (list A) :=
  fold_right (fun m acc => x <- m ;; r <- acc ;; Ok (x ++ r)) (Ok []) l.

Definition pk_encode (P : Params) (rho : bytes) (t1 : list (list Z)) : res bytes :=
  _ <- guard (forallb (fun t => is_in_range t 0 T1MAX) t1) "Alg 22: t1 out of range" ;;
  _ <- guard (p_pk_len P =? 32 + 32 * kz P * BLQD) "Alg 22: bad pk/config size" ;;
  body <- mapM (fun t => simple_bit_pack t T1MAX (32 * BLQD)) t1 ;;
  Ok (rho ++ concat body).

Definition pk_decode (P : Params) (pk : bytes) : res (bytes * list (list Z)) :=
  _ <- guard (zlen pk =? 32 + 32 * kz P * BLQD) "Alg 23: incorrect pk length" ;;
  _ <- guard (p_pk_len P =? 32 + 32 * kz P * BLQD) "Alg 23: bad pk/config size" ;;
  let rho := zslice 0 32 pk in
  t1 <- mapM (fun i => let i := Z.of_nat i in
                       simple_bit_unpack (zslice (32 + 32 * i * BLQD) (32 + 32 * (i + 1) * BLQD) pk) T1MAX)
             (seq 0 (p_k P)) ;;
  _ <- guard (forallb (fun t => is_in_range t 0 T1MAX) t1) "Alg 23: t1 out of range" ;;
  Ok (rho, t1).

Definition sk_len_formula (P : Params) : Z :=
  128 + 32 * ((kz P + lz P) * bitlen (2 * p_eta P) + D * kz P).

Definition sk_encode (P : Params) (rho k tr : bytes) (s1 s2 t0 : list (list Z)) : res bytes :=
  let eta := p_eta P in
  _ <- guard ((eta =? 2) || (eta =? 4)) "Alg 24: incorrect eta" ;;
  _ <- guard (forallb (fun x => is_in_range x eta eta) s1) "Alg 24: s1 out of range" ;;
  _ <- guard (forallb (fun x => is_in_range x eta eta) s2) "Alg 24: s2 out of range" ;;
  _ <- guard (forallb (fun x => is_in_range x (TOP - 1) TOP) t0) "Alg 24: t0 out of range" ;;
  _ <- guard (p_sk_len P =? sk_len_formula P) "Alg 24: bad sk/config size" ;;
  let step := 32 * bitlen (2 * eta) in
  b1 <- mapM (fun p => bit_pack p eta eta step) s1 ;;
  b2 <- mapM (fun p => bit_pack p eta eta step) s2 ;;
  b3 <- mapM (fun p => bit_pack p (TOP - 1) TOP (32 * D)) t0 ;;
  Ok (rho ++ k ++ tr ++ concat b1 ++ concat b2 ++ concat b3).

Definition sk_decode (P : Params) (sk : bytes)
  : res (bytes * bytes * bytes * list (list Z) * list (list Z) * list (list Z)) :=
  let eta := p_eta P in
  _ <- guard ((eta =? 2) || (eta =? 4)) "Alg 25: incorrect eta" ;;
  _ <- guard (p_sk_len P =? sk_len_formula P) "Alg 25: bad sk/config size" ;;
  let rho := zslice 0 32 sk in
  let k := zslice 32 64 sk in
  let tr := zslice 64 128 sk in
  let start := 128 in
  let step := 32 * bitlen (2 * eta) in
  s1 <- mapM (fun i => let i := Z.of_nat i in
                bit_unpack (zslice (start + i * step) (start + (i + 1) * step) sk) eta eta) (seq 0 (p_l P)) ;;
  let start := start + lz P * step in
  s2 <- mapM (fun i => let i := Z.of_nat i in
                bit_unpack (zslice (start + i * step) (start + (i + 1) * step) sk) eta eta) (seq 0 (p_k P)) ;;
  let start := start + kz P * step in
  let step := 32 * D in
  t0 <- mapM (fun i => let i := Z.of_nat i in
                bit_unpack (zslice (start + i * step) (start + (i + 1) * step) sk) (TOP - 1) TOP) (seq 0 (p_k P)) ;;
  _ <- guard (start + kz P * step =? zlen sk) "Alg 25: length miscalc" ;;
  Ok (rho, k, tr, s1, s2, t0).

Definition sig_len_formula (P : Params) : Z :=
  p_lambda_div4 P + lz P * 32 * (1 + bitlen (p_gamma1 P - 1)) + Z.abs (p_omega P) + kz P.

Definition sig_encode (ctest : bool) (P : Params) (c_tilde : bytes) (z h : list (list Z)) : res bytes :=
  let g1 := p_gamma1 P in
  _ <- guard (forallb (fun x => is_in_range x (g1 - 1) g1) z) "Alg 26: z out of range" ;;
  _ <- guard (forallb (fun x => is_in_range x 0 1) h) "Alg 26: h out of range" ;;
  _ <- guard (p_sig_len P =? sig_len_formula P) "Alg 26: bad sig/config size" ;;
  let step := 32 * (1 + bitlen (g1 - 1)) in
  zb <- mapM (fun p => bit_pack p (g1 - 1) g1 step) z ;;
  hb <- hint_bit_pack ctest (p_omega P) h (p_sig_len P - (p_lambda_div4 P + lz P * step)) ;;
  Ok (c_tilde ++ concat zb ++ hb).

Definition sig_decode (P : Params) (sigma : bytes) : res (bytes * list (list Z) * list (list Z)) :=
  let g1 := p_gamma1 P in
  _ <- guard (p_sig_len P =? sig_len_formula P) "Alg 27: bad sig/config size" ;;
  let c_tilde := zslice 0 (p_lambda_div4 P) sigma in
  let start := p_lambda_div4 P in
  let step := 32 * (bitlen (g1 - 1) + 1) in
  z <- mapM (fun i => let i := Z.of_nat i in
               bit_unpack (zslice (start + i * step) (start + (i + 1) * step) sigma) (g1 - 1) g1) (seq 0 (p_l P)) ;;
  h <- hint_bit_unpack (p_k P) (p_omega P) (zdrop (start + lz P * step) sigma) ;;
  Ok (c_tilde, z, h).

Definition w1_encode (P : Params) (w1 : list (list Z)) (outlen : Z) : res bytes :=
  let m := (Q - 1) / (2 * p_gamma2 P) - 1 in
  _ <- guard (outlen =? 32 * kz P * bitlen m) "Alg 28: bad w1_tilde/config size" ;;
  _ <- guard (forallb (fun r => is_in_range r 0 m) w1) "Alg 28: w1 out of range" ;;
  let step := 32 * bitlen m in
  b <- mapM (fun p => simple_bit_pack p m step) w1 ;;
  Ok (concat b).
