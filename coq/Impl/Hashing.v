(* Model of /repo/src/hashing.rs.  An XOF reader is modelled by the finite prefix of its output
   that the function is given; running out of prefix is the model-only outcome OutOfFuel, and
   [with_fuel] retries with a longer prefix (by the XOF prefix law the result does not depend on
   which sufficient length was used). *)
Require Import F204.Base.Util F204.Base.Mach F204.Gen.Params F204.Gen.Oids F204.Hash.HashIface
  F204.Impl.Helpers F204.Impl.Conversion F204.Impl.Encodings.
Open Scope string_scope.
Open Scope list_scope.
Open Scope Z_scope.

Fixpoint with_fuel {A} (f : nat -> res A) (fuels : list nat) : res A :=
  match fuels with
  | [] => OutOfFuel
  | n :: r => match f n with OutOfFuel => with_fuel f r | x => x end
  end.

Section WithHashes.
Variable H : Hashes.

(* ---- Algorithm 29 sample_in_ball ---- *)
(* `while j > i { read j }` after an initial read (or, under CTEST, no read and j = i) *)
Fixpoint sib_find (i : Z) (s : bytes) : res (Z * bytes) :=
  match s with
  | [] => OutOfFuel
  | j :: r => if i <? j then sib_find i r else Ok (j, r)
  end.

Definition sib_step (ctest : bool) (tau : Z) (h8 : bytes) (st : list Z * bytes) (i : Z)
  : res (list Z * bytes) :=
  let '(c, s) := st in
  '(j, s') <- (if ctest then Ok (i mod 256, s) else sib_find i s) ;;
  cj <- get_byte c j ;;
  _ <- guard (i <? zlen c) "index out of bounds" ;;
  let c1 := zupd c i cj in
  let index := i + tau - 256 in
  bite <- get_byte h8 (index / 8) ;;
  let shifted := shr bite (Z.land index 7) in
  v <- mul32 2 (Z.land shifted 1) ;; v <- sub32 1 v ;;
  Ok (zupd c1 j v, s').

Definition sample_in_ball_from (ctest : bool) (tau : Z) (stream : bytes) : res (list Z) :=
  _ <- guard (0 <=? tau) "Alg 29: try_from fail" ;;
  _ <- guard (tau <=? 256) "usize subtract overflow" ;;
  let h8 := ztake 8 stream in
  _ <- (if zlen stream <? 8 then OutOfFuel else Ok tt) ;;
  '(c, _) <- foldM (sib_step ctest tau h8)
                   (map (fun d => 256 - tau + Z.of_nat d) (seq 0 (Z.to_nat tau)))
                   (zeros 256, zdrop 8 stream) ;;
  _ <- guard (zlen (filter (fun e => negb (e =? 0)) c) =? tau) "Alg 29: bad hamming weight (a)" ;;
  _ <- guard (sumZ (map (fun e => Z.land e 1) c) =? tau) "Alg 29: bad hamming weight (b)" ;;
  Ok c.

Definition sample_in_ball (ctest : bool) (tau : Z) (rho : bytes) : res (list Z) :=
  with_fuel (fun n => sample_in_ball_from ctest tau (h_shake256 H rho n)) (map Z.to_nat [136; 272; 1360; 13600]).

(* ---- Algorithm 30 rej_ntt_poly ---- *)
Fixpoint rej_ntt_loop (ctest : bool) (s : bytes) (need : nat) (acc : list Z) : res (list Z) :=
  match need with
  | O => Ok (rev acc)
  | S need' =>
      match s with
      | b0 :: b1 :: b2 :: r =>
          match coeff_from_three_bytes ctest b0 b1 b2 with
          | Ok z => rej_ntt_loop ctest r need' (z :: acc)
          | Err _ => rej_ntt_loop ctest r need acc
          | Panic p => Panic p
          | OutOfFuel => OutOfFuel
          end
      | _ => OutOfFuel
      end
  end.

Definition rej_ntt_poly (ctest : bool) (seed : bytes) : res (list Z) :=
  _ <- guard (zlen seed =? 34) "Alg 30: bad rho size" ;;
  with_fuel (fun n => rej_ntt_loop ctest (h_shake128 H seed n) 256 []) (map Z.to_nat [840; 1008; 1680; 16800]).

(* ---- Algorithm 31 rej_bounded_poly ---- *)
Definition rbp_take (need : nat) (acc : list Z) (r : res Z) : res (nat * list Z) :=
  match r with
  | Ok v => match need with O => Ok (need, acc) | S n' => Ok (n', v :: acc) end
  | Err _ => Ok (need, acc)
  | Panic p => Panic p
  | OutOfFuel => OutOfFuel
  end.

Fixpoint rej_bounded_loop (ctest : bool) (eta : Z) (s : bytes) (need : nat) (acc : list Z) : res (list Z) :=
  match need with
  | O => Ok (rev acc)
  | S _ =>
      match s with
      | z :: r =>
          let z0 := coeff_from_half_byte ctest eta (Z.land z 15) in
          let z1 := coeff_from_half_byte ctest eta (shr z 4) in
          (* both are evaluated before either is used: a Panic in either propagates *)
          match z0, z1 with
          | Panic p, _ => Panic p
          | _, Panic p => Panic p
          | _, _ =>
            '(need1, acc1) <- rbp_take need acc z0 ;;
            '(need2, acc2) <- rbp_take need1 acc1 z1 ;;
            rej_bounded_loop ctest eta r need2 acc2
          end
      | [] => OutOfFuel
      end
  end.

Definition rej_bounded_poly (ctest : bool) (eta : Z) (seed : bytes) : res (list Z) :=
  _ <- guard (zlen seed =? 66) "Alg 31: bad rho size" ;;
  with_fuel (fun n => rej_bounded_loop ctest eta (h_shake256 H seed n) 256 []) (map Z.to_nat [272; 408; 816; 8160]).

(* ---- Algorithms 32-34 ---- *)
Definition expand_a (ctest : bool) (P : Params) (rho : bytes) : res (list (list (list Z))) :=
  mapM (fun r => mapM (fun s => rej_ntt_poly ctest (rho ++ [Z.of_nat s mod 256] ++ [Z.of_nat r mod 256]))
                      (seq 0 (p_l P)))
       (seq 0 (p_k P)).

Definition expand_s (ctest : bool) (P : Params) (rho : bytes) : res (list (list Z) * list (list Z)) :=
  let eta := p_eta P in
  s1 <- mapM (fun r => rej_bounded_poly ctest eta (rho ++ [Z.of_nat r mod 256] ++ [0])) (seq 0 (p_l P)) ;;
  s2 <- mapM (fun r => rej_bounded_poly ctest eta (rho ++ [Z.of_nat (r + p_l P) mod 256] ++ [0])) (seq 0 (p_k P)) ;;
  _ <- guard (forallb (fun r => is_in_range r eta eta) s1) "Alg 33: s1 out of range" ;;
  _ <- guard (forallb (fun r => is_in_range r eta eta) s2) "Alg 33: s2 out of range" ;;
  Ok (s1, s2).

Definition le2 (n : Z) : bytes := [n mod 256; (n / 256) mod 256].

Definition expand_mask (P : Params) (rho : bytes) (mu : Z) : res (list (list Z)) :=
  let g1 := p_gamma1 P in
  let c := 1 + bitlen (g1 - 1) in
  _ <- guard ((c =? 18) || (c =? 20)) "Alg 34: illegal c" ;;
  _ <- guard (lz P <? 65536) "Alg 34: try_from1 fail" ;;
  y <- mapM (fun r =>
        let n := mu + Z.of_nat r in
        _ <- guard (n <? 65536) "u16 add overflow" ;;
        let v := h_shake256 H (rho ++ le2 n) (Z.to_nat (32 * c)) in
        match bit_unpack v (g1 - 1) g1 with
        | Err _ => Panic "Alg 34: try_from2 fail"
        | x => x
        end) (seq 0 (p_l P)) ;;
  _ <- guard (forallb (fun r => is_in_range r (g1 - 1) g1) y) "Alg 34: s coeff out of range" ;;
  Ok y.

(* hash_message: (oid, phm[0..phm_len]) *)
Definition hash_message (message : bytes) (ph : Ph) : bytes * bytes :=
  (ph_oid ph,
   match ph_fn ph with
   | HF_sha256 => ztake (ph_len ph) (ztake (ph_written ph) (h_sha256 H message) ++ zeros 64)
   | HF_sha512 => ztake (ph_len ph) (ztake (ph_written ph) (h_sha512 H message) ++ zeros 64)
   | HF_shake128 => ztake (ph_len ph) (h_shake128 H message (Z.to_nat (ph_written ph)) ++ zeros 64)
   end).

End WithHashes.
