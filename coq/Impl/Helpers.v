(* Model of /repo/src/helpers.rs (every non-test function) in the outcome monad of Base/Mach.v.
   Each checked Rust operation is the checked primitive of the same width; each debug_assert!
   is a [guard].  Polynomials are [list Z] (256 entries), vectors lists of polynomials. *)
Require Import F204.Base.Util F204.Base.Mach F204.Gen.Params.
Open Scope string_scope.
Open Scope list_scope.
Open Scope Z_scope.

(* is_in_range(w, lo, hi): all(|e| e >= -lo && e <= hi) *)
Definition is_in_range (w : list Z) (lo hi : Z) : bool :=
  forallb (fun e => (- lo <=? e) && (e <=? hi)) w.

Definition PR64_M : Z := 33587228.   (* (1 << 48) / Q *)
Definition PR64_BOUND : Z := 288014231922540544.   (* 67_058_539 << 32 *)
Definition PR32_BOUND : Z := 2143289344.
Definition Q_HALF : Z := Q / 2.
Definition QM1_HALF : Z := (Q - 1) / 2.
Definition TWO_Q : Z := 2 * Q.

Definition partial_reduce64 (a : Z) : res Z :=
  aa <- abs64 a ;;
  _ <- guard (aa <? PR64_BOUND) "partial_reduce64 input" ;;
  let x := shr a 23 in
  t <- mul64 x Q ;; a1 <- sub64 a t ;;
  let x := shr a1 23 in
  t <- mul64 x Q ;; a2 <- sub64 a1 t ;;
  t <- mul64 a2 PR64_M ;;
  let q := shr t 48 in
  t <- mul64 q Q ;; r <- sub64 a2 t ;;
  ar <- abs64 r ;;
  _ <- guard (ar <? TWO_Q) "partial_reduce64 output" ;;
  Ok (wrap32 r).

Definition partial_reduce32 (a : Z) : res Z :=
  aa <- abs32 a ;;
  _ <- guard (aa <? PR32_BOUND) "partial_reduce32 input" ;;
  t <- add32 a 4194304 ;;
  let x := shr t 23 in
  t <- mul32 x Q ;; r <- sub32 a t ;;
  ar <- abs32 r ;;
  _ <- guard (ar <? Q) "partial_reduce32 output" ;;
  Ok r.

Definition full_reduce32 (a : Z) : res Z :=
  aa <- abs32 a ;;
  _ <- guard (aa <? PR32_BOUND) "full_reduce32 input" ;;
  x <- partial_reduce32 a ;;
  r <- add32 x (Z.land (shr x 31) Q) ;;
  _ <- guard (r <? Q) "full_reduce32 output" ;;
  Ok r.

(* x.ilog2() + 1; ilog2 panics for x <= 0 *)
Definition bit_length (x : Z) : res Z :=
  _ <- guard (0 <? x) "ilog2 of non-positive" ;; Ok (Z.log2 x + 1).
(* pure version for the fixed security parameters *)
Definition bitlen (x : Z) : Z := Z.log2 x + 1.

Definition center_mod (m : Z) : res Z :=
  am <- abs32 m ;;
  _ <- guard (am <? PR32_BOUND) "center_mod input" ;;
  t <- full_reduce32 m ;;
  over2 <- sub32 Q_HALF t ;;
  r <- sub32 t (Z.land (shr over2 31) Q) ;;
  _ <- guard (m mod Q =? r mod Q) "center_mod output" ;;
  Ok r.

Definition MONT_LO : Z := -17996808479301632.
Definition MONT_HI : Z := 17996808470921215.

Definition mont_reduce (a : Z) : res Z :=
  _ <- guard (MONT_LO <=? a) "mont_reduce input (a)" ;;
  _ <- guard (a <=? MONT_HI) "mont_reduce input (b)" ;;
  let t := wrap32 (wrap32 a * QINV) in
  d <- sub64 a (wrap64 (t * Q)) ;;
  let r := shr d 32 in
  _ <- guard (r <? Q) "mont_reduce output 1" ;;
  _ <- guard (- Q <? r) "mont_reduce output 2" ;;
  Ok (wrap32 r).

(* to_mont: partial_reduce64(i64::from(x) << 32) per coefficient *)
Definition to_mont_coef (x : Z) : res Z := partial_reduce64 (shl64 x 32).
Definition to_mont_poly (p : list Z) : res (list Z) := mapM to_mont_coef p.
Definition to_mont (v : list (list Z)) : res (list (list Z)) := mapM to_mont_poly v.

(* add_vector_ntt: checked i32 addition per coefficient *)
Definition add_poly (a b : list Z) : res (list Z) := map2M add32 a b.
Definition add_vector_ntt (v w : list (list Z)) : res (list (list Z)) := map2M add_poly v w.

(* mat_vec_mul: w_hat[i][n] += mont_reduce(a_hat[i][j][n] * u_hat_mont[j][n]), j = 0..L-1 *)
Definition mul_mont_coef (a u : Z) : res Z := p <- mul64 a u ;; mont_reduce p.
Definition acc_coef (acc a u : Z) : res Z := m <- mul_mont_coef a u ;; add32 acc m.
Fixpoint map3M {A B C D} (f : A -> B -> C -> res D) (l1 : list A) (l2 : list B) (l3 : list C) : res (list D) :=
  match l1, l2, l3 with
  | a :: r1, b :: r2, c :: r3 => d <- f a b c ;; ds <- map3M f r1 r2 r3 ;; Ok (d :: ds)
  | _, _, _ => Ok []
  end.
Fixpoint row_acc (acc : list Z) (row : list (list Z)) (u : list (list Z)) : res (list Z) :=
  match row, u with
  | a :: row', uj :: u' => acc' <- map3M acc_coef acc a uj ;; row_acc acc' row' u'
  | _, _ => Ok acc
  end.
Definition mat_vec_mul (a_hat : list (list (list Z))) (u_hat : list (list Z)) : res (list (list Z)) :=
  um <- to_mont u_hat ;;
  mapM (fun row => row_acc (zeros 256) row um) a_hat.

(* infinity_norm: max over all coefficients of |center_mod(e)|; `.expect` on an empty vector *)
Definition abs_center (e : Z) : res Z := c <- center_mod e ;; abs32 c.
Definition infinity_norm (w : list (list Z)) : res Z :=
  l <- mapM abs_center (concat w) ;;
  match l with
  | [] => Panic "infinity norm fails"
  | x :: r => Ok (fold_left Z.max r x)
  end.

(* gen_zeta_table_mont (compile-time): result[brv8 i] = (x << 32) % Q, x = ZETA^i % Q *)
Fixpoint brv_aux (n : nat) (x acc : Z) : Z :=
  match n with O => acc | S n' => brv_aux n' (x / 2) (2 * acc + x mod 2) end.
Definition brv8 (i : Z) : Z := brv_aux 8 i 0.
Fixpoint zeta_powers (n : nat) (x : Z) : list Z :=
  match n with O => [] | S n' => (x * 2 ^ 32) mod Q :: zeta_powers n' ((x * ZETA) mod Q) end.
Definition ZETA_TABLE_MONT : list Z :=
  let pw := zeta_powers 256 1 in
  map (fun m => nth (Z.to_nat (brv8 (Z.of_nat m))) pw 0) (seq 0 256).
Definition zeta_mont (m : Z) : Z := nth (Z.to_nat m) ZETA_TABLE_MONT 0.
