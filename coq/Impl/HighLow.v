(* Model of /repo/src/high_low.rs *)
Require Import F204.Base.Util F204.Base.Mach F204.Gen.Params F204.Impl.Helpers.
Open Scope string_scope.
Open Scope list_scope.
Open Scope Z_scope.

(* power2round per coefficient: r1 = (r + (1 << (D-1)) - 1) >> D ; r0 = r - (r1 << D) *)
Definition p2r_hi (r : Z) : res Z := t <- add32 r (Z.shiftl 1 (D - 1)) ;; t <- sub32 t 1 ;; Ok (shr t D).
Definition p2r_lo (r r1 : Z) : res Z := sub32 r (shl32 r1 D).
Definition p2r_check (r r1 r0 : Z) : res bool := s <- add32 (shl32 r1 D) r0 ;; Ok (r =? s).
Definition power2round (v : list (list Z)) : res (list (list Z) * list (list Z)) :=
  _ <- guard (forallb (fun e => (0 <=? e) && (e <? Q)) (concat v)) "power2round input" ;;
  r1 <- mapM (mapM p2r_hi) v ;;
  r0 <- map2M (map2M p2r_lo) v r1 ;;
  chk <- map3M (map3M p2r_check) v r1 r0 ;;
  _ <- guard (forallb (fun b => b) (concat chk)) "Alg 35: fails" ;;
  Ok (r1, r0).

Definition is44 (gamma2 : Z) : bool := Z.land gamma2 131072 =? 0.

Definition decompose (gamma2 r : Z) : res (Z * Z) :=
  rp <- full_reduce32 r ;;
  xr1 <- (if is44 gamma2 then
            t <- add32 rp 127 ;; let x := shr t 7 in
            t <- mul32 x 11275 ;; t <- add32 t 8388608 ;; let x := shr t 24 in
            t <- sub32 43 x ;;
            Ok (Z.lxor x (Z.land (shr t 31) x))
          else
            t <- add32 rp 127 ;; let x := shr t 7 in
            t <- mul32 x 1025 ;; t <- add32 t 2097152 ;; let x := shr t 22 in
            Ok (Z.land x 15)) ;;
  t <- mul32 xr1 2 ;; t <- mul32 t gamma2 ;; xr0 <- sub32 rp t ;;
  t <- sub32 QM1_HALF xr0 ;;
  xr0 <- sub32 xr0 (Z.land (shr t 31) Q) ;;
  (* debug_assert_eq!(r.rem_euclid(Q), (xr1 * 2 * gamma2 + xr0).rem_euclid(Q)) *)
  t <- mul32 xr1 2 ;; t <- mul32 t gamma2 ;; t <- add32 t xr0 ;;
  _ <- guard (r mod Q =? t mod Q) "Alg 36: fails" ;;
  Ok (xr1, xr0).

Definition high_bits (gamma2 r : Z) : res Z := '(r1, _) <- decompose gamma2 r ;; Ok r1.
Definition low_bits (gamma2 r : Z) : res Z := '(_, r0) <- decompose gamma2 r ;; Ok r0.

Definition make_hint (gamma2 z r : Z) : res bool :=
  r1 <- high_bits gamma2 r ;;
  s <- add32 r z ;;
  v1 <- high_bits gamma2 s ;;
  Ok (negb (r1 =? v1)).

Definition use_hint (gamma2 h r : Z) : res Z :=
  '(r1, r0) <- decompose gamma2 r ;;
  if h =? 0 then Ok r1
  else if is44 gamma2 then
    if 0 <? r0 then (if r1 =? 43 then Ok 0 else add32 r1 1)
    else if r1 =? 0 then Ok 43 else sub32 r1 1
  else
    if 0 <? r0 then t <- add32 r1 1 ;; Ok (Z.land t 15)
    else t <- sub32 r1 1 ;; Ok (Z.land t 15).
