(* Model of /repo/src/ml_dsa.rs: key_gen, key_gen_internal, sign_internal, verify_internal,
   expand_private, expand_public, private_to_public_key. *)
Require Import F204.Base.Util F204.Base.Mach F204.Gen.Params F204.Gen.Guards F204.Hash.HashIface
  F204.Impl.Helpers F204.Impl.Ntt F204.Impl.HighLow F204.Impl.Conversion F204.Impl.Encodings
  F204.Impl.Hashing.
Open Scope string_scope.
Open Scope list_scope.
Open Scope Z_scope.

Record PublicKey := mkPK { pk_rho : bytes; pk_tr : bytes; pk_t1_d2_hat_mont : list (list Z) }.
Record PrivateKey := mkSK { sk_rho : bytes; sk_cap_k : bytes; sk_tr : bytes;
  sk_s_1_hat_mont : list (list Z); sk_s_2_hat_mont : list (list Z); sk_t_0_hat_mont : list (list Z) }.

(* RNG oracle: the scripted replies of successive try_fill_bytes calls.  An exhausted script
   fails.  The infallible RngCore methods are not available to the model (the harness RNG
   panics in them). *)
Inductive rng_reply := Fill (b : bytes) | Fail (partial : bytes).
Definition rng := list rng_reply.
Definition try_fill (g : rng) (n : Z) : option bytes * rng :=
  match g with
  | Fill b :: g' => (if zlen b =? n then Some b else None, g')
  | Fail _ :: g' => (None, g')
  | [] => (None, [])
  end.

Section WithHashes.
Variable H : Hashes.
Let h256 := h_shake256 H.

(* the verifier's pre-compute NTT(t1 * 2^d) in Montgomery form: used by key_gen_internal,
   expand_public and private_to_public_key *)
Definition t1_precompute (t1 : list (list Z)) : res (list (list Z)) :=
  t1h <- ntt t1 ;;
  t1hm <- to_mont t1h ;;
  sh <- mapM (mapM (fun x => mont_reduce (shl64 x D))) t1hm ;;
  to_mont sh.

Definition ntt_mont (v : list (list Z)) : res (list (list Z)) := x <- ntt v ;; to_mont x.

Definition key_gen_internal (ctest : bool) (P : Params) (xi : bytes) : res (PublicKey * PrivateKey) :=
  let h2 := h256 (xi ++ [kz P mod 256] ++ [lz P mod 256]) 128 in
  let rho := zslice 0 32 h2 in
  let rho_prime := zslice 32 96 h2 in
  let cap_k := zslice 96 128 h2 in
  '(s_1, s_2) <- expand_s H ctest P rho_prime ;;
  cap_a_hat <- expand_a H ctest P rho ;;
  s_1_hat <- ntt s_1 ;;
  as1_hat <- mat_vec_mul cap_a_hat s_1_hat ;;
  as1 <- inv_ntt as1_hat ;;
  t_not_reduced <- add_vector_ntt as1 s_2 ;;
  t <- mapM (mapM full_reduce32) t_not_reduced ;;
  '(t_1, t_0) <- power2round t ;;
  pkb <- pk_encode P rho t_1 ;;
  let tr := h256 pkb 64 in
  t1_d2_hat_mont <- t1_precompute t_1 ;;
  s_1_hat_mont <- ntt_mont s_1 ;;
  s_2_hat_mont <- ntt_mont s_2 ;;
  t_0_hat_mont <- ntt_mont t_0 ;;
  Ok (mkPK rho tr t1_d2_hat_mont, mkSK rho cap_k tr s_1_hat_mont s_2_hat_mont t_0_hat_mont).

Definition key_gen (ctest : bool) (P : Params) (g : rng) : res (PublicKey * PrivateKey) * rng :=
  match try_fill g xi_len with
  | (None, g') => (Err RngFailed, g')
  | (Some xi, g') => (key_gen_internal ctest P xi, g')
  end.

(* how the three entry paths build mu *)
Inductive mode := Nist | Pure | Prehash (oid phm : bytes).
Definition mu_of (tr : bytes) (md : mode) (message ctx : bytes) : bytes :=
  match md with
  | Nist => h256 (tr ++ message) 64
  | Pure => h256 (tr ++ [dom_pure] ++ [len_byte (zlen ctx)] ++ ctx ++ message) 64
  | Prehash oid phm => h256 (tr ++ [dom_hash] ++ [len_byte (zlen ctx)] ++ ctx ++ oid ++ phm) 64
  end.
(* sign_internal/verify_internal select the path with `nist`, then `oid.is_empty()` *)
Definition mode_of (nist : bool) (oid phm : bytes) : mode :=
  if nist then Nist else match oid with [] => Pure | _ => Prehash oid phm end.

Definition scalar_mul (c_hat : list Z) (v_hat_mont : list (list Z)) : res (list (list Z)) :=
  mapM (fun p => map2M mul_mont_coef c_hat p) v_hat_mont.

Definition sum_hints (h : list (list Z)) : Z := sumZ (map sumZ h).

(* one iteration of the rejection loop: None = `continue` *)
Definition sign_attempt (ctest : bool) (P : Params) (sk : PrivateKey) (cap_a_hat : list (list (list Z)))
  (mu rho_prime : bytes) (kappa : Z) : res (option (bytes * list (list Z) * list (list Z))) :=
  let gamma1 := p_gamma1 P in let gamma2 := p_gamma2 P in let beta := p_beta P in
  y <- expand_mask H P rho_prime kappa ;;
  y_hat <- ntt y ;;
  ay_hat <- mat_vec_mul cap_a_hat y_hat ;;
  w <- inv_ntt ay_hat ;;
  w_1 <- mapM (mapM (high_bits gamma2)) w ;;
  w1_tilde <- w1_encode P w_1 (p_w1_len P) ;;
  let c_tilde := h256 (mu ++ w1_tilde) (Z.to_nat (p_lambda_div4 P)) in
  c <- sample_in_ball H ctest (p_tau P) c_tilde ;;
  c_hat <- ntt_poly c ;;
  cs1_hat <- scalar_mul c_hat (sk_s_1_hat_mont sk) ;;
  c_s_1 <- inv_ntt cs1_hat ;;
  cs2_hat <- scalar_mul c_hat (sk_s_2_hat_mont sk) ;;
  c_s_2 <- inv_ntt cs2_hat ;;
  z <- map2M (map2M (fun a b => s <- add32 a b ;; partial_reduce32 s)) y c_s_1 ;;
  r0 <- map2M (map2M (fun a b => s <- sub32 a b ;; p <- partial_reduce32 s ;; low_bits gamma2 p)) w c_s_2 ;;
  z_norm <- infinity_norm z ;;
  r0_norm <- infinity_norm r0 ;;
  if negb ctest && ((gamma1 - beta <=? z_norm) || (gamma2 - beta <=? r0_norm)) then Ok None
  else
    ct0_hat <- scalar_mul c_hat (sk_t_0_hat_mont sk) ;;
    c_t_0 <- inv_ntt ct0_hat ;;
    h <- map3M (map3M (fun wv cs2 ct0 =>
            a <- sub32 Q ct0 ;;
            s <- sub32 wv cs2 ;; s <- add32 s ct0 ;; p <- partial_reduce32 s ;;
            b <- make_hint gamma2 a p ;; Ok (Z.b2z b))) w c_s_2 c_t_0 ;;
    rej <- (if ctest then Ok false
            else n <- infinity_norm c_t_0 ;;
                 Ok ((gamma2 <=? n) || (p_omega P <? sum_hints h))) ;;
    if rej : bool then Ok None else Ok (Some (c_tilde, z, h)).

Fixpoint sign_loop (fuel : nat) (ctest : bool) (P : Params) (sk : PrivateKey) (cap_a_hat : list (list (list Z)))
  (mu rho_prime : bytes) (kappa : Z) : res (bytes * list (list Z) * list (list Z)) :=
  match fuel with
  | O => OutOfFuel
  | S f =>
      r <- sign_attempt ctest P sk cap_a_hat mu rho_prime kappa ;;
      match r with
      | Some x => Ok x
      | None =>
          _ <- guard (lz P <? 65536) "cannot fail; L is static parameter" ;;
          (* ensure!(kappa_ctr <= u16::MAX - 2*L, "ML-DSA.Sign: rejection loop limit exceeded") *)
          if kappa <=? 65535 - 2 * lz P then sign_loop f ctest P sk cap_a_hat mu rho_prime (kappa + lz P)
          else Err LoopLimit
      end
  end.

Definition sign_internal (fuel : nat) (ctest : bool) (P : Params) (sk : PrivateKey)
  (message ctx oid phm rnd : bytes) (nist : bool) : res bytes :=
  cap_a_hat <- expand_a H ctest P (sk_rho sk) ;;
  let mu := mu_of (sk_tr sk) (mode_of nist oid phm) message ctx in
  let rho_prime := h256 (sk_cap_k sk ++ rnd ++ mu) 64 in
  '(c_tilde, z, h) <- sign_loop fuel ctest P sk cap_a_hat mu rho_prime 0 ;;
  zmodq <- mapM (mapM center_mod) z ;;
  sig_encode ctest P c_tilde zmodq h.

(* everything verify_internal computes from the public key and the signature alone: the decoded
   commitment hash, the encoding of the reconstructed commitment w'_1 and the norm test.  None =
   the signature did not decode.  (The message, context and mode enter only through mu, below.) *)
Definition verify_core (ctest : bool) (P : Params) (pk : PublicKey) (sig : bytes) : res (option (bytes * bytes * bool)) :=
  let gamma1 := p_gamma1 P in let gamma2 := p_gamma2 P in
  match sig_decode P sig with
  | Err _ => Ok None
  | Panic s => Panic s
  | OutOfFuel => OutOfFuel
  | Ok (c_tilde, z, h) =>
      zn <- infinity_norm z ;;
      _ <- guard (zn <=? gamma1) "Alg 8: i_norm out of range" ;;
      c <- sample_in_ball H false (p_tau P) c_tilde ;;
      cap_a_hat <- expand_a H ctest P (pk_rho pk) ;;
      z_hat <- ntt z ;;
      az_hat <- mat_vec_mul cap_a_hat z_hat ;;
      c_hat <- ntt_poly c ;;
      diff <- map2M (fun azp t1p => map3M (fun az ch t1 => m <- mul_mont_coef ch t1 ;; sub32 az m) azp c_hat t1p)
                    az_hat (pk_t1_d2_hat_mont pk) ;;
      wp_approx <- inv_ntt diff ;;
      wp_1 <- map2M (map2M (use_hint gamma2)) h wp_approx ;;
      tmp <- w1_encode P wp_1 (p_w1_len P) ;;
      zn2 <- infinity_norm z ;;
      Ok (Some (c_tilde, tmp, zn2 <? gamma1 - p_beta P))
  end.

Definition verify_internal (ctest : bool) (P : Params) (pk : PublicKey)
  (m sig ctx oid phm : bytes) (nist : bool) : res bool :=
  r <- verify_core ctest P pk sig ;;
  match r with
  | None => Ok false
  | Some (c_tilde, tmp, norm_ok) =>
      let mu := mu_of (pk_tr pk) (mode_of nist oid phm) m ctx in
      let c_tilde_p := h256 (mu ++ tmp) (Z.to_nat (p_lambda_div4 P)) in
      Ok (norm_ok && list_eqb c_tilde c_tilde_p)
  end.

Definition expand_private (P : Params) (skb : bytes) : res PrivateKey :=
  '(rho, cap_k, tr, s_1, s_2, t_0) <- sk_decode P skb ;;
  s_1_hat_mont <- ntt_mont s_1 ;;
  s_2_hat_mont <- ntt_mont s_2 ;;
  t_0_hat_mont <- ntt_mont t_0 ;;
  Ok (mkSK rho cap_k tr s_1_hat_mont s_2_hat_mont t_0_hat_mont).

Definition expand_public (P : Params) (pkb : bytes) : res PublicKey :=
  '(rho, t_1) <- pk_decode P pkb ;;
  let tr := h256 pkb 64 in
  t1_d2_hat_mont <- t1_precompute t_1 ;;
  Ok (mkPK rho tr t1_d2_hat_mont).

Definition unmont (v : list (list Z)) : res (list (list Z)) := mapM (mapM mont_reduce) v.
(* if x > Q/2 { x - Q } else { x } *)
Definition recenter (x : Z) : res Z := if Q_HALF <? x then sub32 x Q else Ok x.

Definition private_to_public_key (P : Params) (sk : PrivateKey) : res PublicKey :=
  cap_a_hat <- expand_a H false P (sk_rho sk) ;;
  s_1_hat <- unmont (sk_s_1_hat_mont sk) ;;
  s_2h <- unmont (sk_s_2_hat_mont sk) ;;
  s_2 <- inv_ntt s_2h ;;
  s_2 <- mapM (mapM recenter) s_2 ;;
  as1_hat <- mat_vec_mul cap_a_hat s_1_hat ;;
  as1 <- inv_ntt as1_hat ;;
  t_not_reduced <- add_vector_ntt as1 s_2 ;;
  t <- mapM (mapM full_reduce32) t_not_reduced ;;
  '(t_1, _) <- power2round t ;;
  t1_d2_hat_mont <- t1_precompute t_1 ;;
  Ok (mkPK (sk_rho sk) (sk_tr sk) t1_d2_hat_mont).

End WithHashes.
