(* Model of /repo/src/ntt.rs.  The in-place loops are written as the equivalent recursion on the
   two halves of a block: layer `len` splits a block into lo ++ hi and uses one zeta per block
   (forward: index m = 2^layer + block, children 2m and 2m+1; inverse: processed bottom-up,
   block b of the layer with `base` blocks uses index 2*base - 1 - b).  The recursion performs
   the same machine operations on the same operands as the loops, so one overflows iff the
   other does; the order in which independent butterflies run differs, which no output or
   panic/no-panic outcome depends on.  This re-association is checked by the correspondence
   streams "ntt"/"inv_ntt" (tools/check.py), not proved. *)
Require Import F204.Base.Util F204.Base.Mach F204.Gen.Params F204.Impl.Helpers.
Open Scope Z_scope.

(* butterfly of the forward transform: t = mont_reduce(zeta * hi); (lo + t, lo - t) *)
Definition fwd_t (zeta hi : Z) : res Z := p <- mul64 zeta hi ;; mont_reduce p.

Fixpoint ntt_rec (depth : nat) (m : Z) (w : list Z) : res (list Z) :=
  match depth with
  | O => Ok w
  | S dp =>
      let n := Nat.pow 2 dp in
      let lo := firstn n w in
      let hi := skipn n w in
      ts <- mapM (fwd_t (zeta_mont m)) hi ;;
      lo' <- map2M add32 lo ts ;;
      hi' <- map2M sub32 lo ts ;;
      a <- ntt_rec dp (2 * m) lo' ;;
      b <- ntt_rec dp (2 * m + 1) hi' ;;
      Ok (a ++ b)
  end.
Definition ntt_poly (w : list Z) : res (list Z) := ntt_rec 8 1 w.
Definition ntt (v : list (list Z)) : res (list (list Z)) := mapM ntt_poly v.

(* inverse butterfly: (lo + hi, mont_reduce(-zeta * (lo - hi))) *)
Definition inv_hi (nz lo hi : Z) : res Z := d <- sub32 lo hi ;; p <- mul64 nz d ;; mont_reduce p.

Fixpoint inv_rec (depth : nat) (base m : Z) (w : list Z) : res (list Z) :=
  match depth with
  | O => Ok w
  | S dp =>
      let n := Nat.pow 2 dp in
      lo <- inv_rec dp (2 * base) (2 * m) (firstn n w) ;;
      hi <- inv_rec dp (2 * base) (2 * m + 1) (skipn n w) ;;
      nz <- neg32 (zeta_mont (3 * base - 1 - m)) ;;
      lo' <- map2M add32 lo hi ;;
      hi' <- map2M (inv_hi nz) lo hi ;;
      Ok (lo' ++ hi')
  end.
Definition inv_final (x : Z) : res Z := p <- mul64 F_MONT x ;; r <- mont_reduce p ;; full_reduce32 r.
Definition inv_ntt_poly (w : list Z) : res (list Z) :=
  w0 <- mapM partial_reduce32 w ;;
  w1 <- inv_rec 8 1 1 w0 ;;
  mapM inv_final w1.
Definition inv_ntt (v : list (list Z)) : res (list (list Z)) := mapM inv_ntt_poly v.
