(* Context-length guards of the four external entry points (and the two deprecated internal
   ones), over the implementation model of lib.rs.  The thresholds are the constants the
   translator T2 reads from the guards in /repo/src/lib.rs (Gen/Guards.v), so moving a guard by
   one makes these proofs fail. *)
Require Import F204.Base.Util F204.Base.Mach F204.Gen.Params F204.Gen.Guards F204.Gen.Oids
  F204.Hash.HashIface F204.Impl.Hashing F204.Impl.MlDsa F204.Impl.Api F204.Spec.SpecMLDSA.
Open Scope Z_scope.

Section G.
Variable H : Hashes.
Variable fuel : nat.

(* the limit FIPS 204 states (Algorithms 2-5, line 1) *)
Definition FIPS_CTX_MAX : Z := 255.

Lemma guards_are_fips :
  ctx_max_try_sign_with_rng = FIPS_CTX_MAX /\ ctx_max_try_hash_sign_with_rng = FIPS_CTX_MAX /\
  ctx_max_verify = FIPS_CTX_MAX /\ ctx_max_hash_verify = FIPS_CTX_MAX /\
  ctx_max_internal_sign = FIPS_CTX_MAX /\ ctx_max_internal_verify = FIPS_CTX_MAX.
Proof. repeat split; reflexivity. Qed.

Lemma sign_ctx_too_long P sk g M ctx :
  FIPS_CTX_MAX < zlen ctx -> try_sign_with_rng H fuel P sk g M ctx = (Err CtxTooLong, g).
Proof.
  intros Hl. unfold try_sign_with_rng.
  destruct guards_are_fips as (E & _). rewrite E.
  destruct (zlen ctx <=? FIPS_CTX_MAX) eqn:Hc; [apply Z.leb_le in Hc; lia | reflexivity].
Qed.

Lemma hash_sign_ctx_too_long P sk g M ctx ph :
  FIPS_CTX_MAX < zlen ctx -> try_hash_sign_with_rng H fuel P sk g M ctx ph = (Err CtxTooLong, g).
Proof.
  intros Hl. unfold try_hash_sign_with_rng.
  destruct guards_are_fips as (_ & E & _). rewrite E.
  destruct (zlen ctx <=? FIPS_CTX_MAX) eqn:Hc; [apply Z.leb_le in Hc; lia | reflexivity].
Qed.

(* a context of at most 255 bytes passes the guard: the entry point then does exactly one RNG
   request and hands the SAME context to sign_internal *)
Lemma sign_ctx_accepted P sk g M ctx :
  zlen ctx <= FIPS_CTX_MAX ->
  try_sign_with_rng H fuel P sk g M ctx =
    match try_fill g 32 with
    | (None, g') => (Err RngFailed, g')
    | (Some rnd, g') => (sign_internal H fuel false P sk M ctx [] [] rnd false, g')
    end.
Proof.
  intros Hl. unfold try_sign_with_rng.
  destruct guards_are_fips as (E & _). rewrite E.
  destruct (zlen ctx <=? FIPS_CTX_MAX) eqn:Hc; [reflexivity | apply Z.leb_gt in Hc; lia].
Qed.

Lemma hash_sign_ctx_accepted P sk g M ctx ph :
  zlen ctx <= FIPS_CTX_MAX ->
  try_hash_sign_with_rng H fuel P sk g M ctx ph =
    match try_fill g 32 with
    | (None, g') => (Err RngFailed, g')
    | (Some rnd, g') =>
        let '(oid, phm) := hash_message H M ph in
        (sign_internal H fuel false P sk M ctx oid phm rnd false, g')
    end.
Proof.
  intros Hl. unfold try_hash_sign_with_rng.
  destruct guards_are_fips as (_ & E & _). rewrite E.
  destruct (zlen ctx <=? FIPS_CTX_MAX) eqn:Hc; [reflexivity | apply Z.leb_gt in Hc; lia].
Qed.

Lemma verify_ctx_too_long P pk M sig ctx :
  FIPS_CTX_MAX < zlen ctx -> verify H P pk M sig ctx = Ok false.
Proof.
  intros Hl. unfold verify. destruct guards_are_fips as (_ & _ & E & _). rewrite E.
  destruct (FIPS_CTX_MAX <? zlen ctx) eqn:Hc; [reflexivity | apply Z.ltb_ge in Hc; lia].
Qed.

Lemma hash_verify_ctx_too_long P pk M sig ctx ph :
  FIPS_CTX_MAX < zlen ctx -> hash_verify H P pk M sig ctx ph = Ok false.
Proof.
  intros Hl. unfold hash_verify. destruct guards_are_fips as (_ & _ & _ & E & _). rewrite E.
  destruct (FIPS_CTX_MAX <? zlen ctx) eqn:Hc; [reflexivity | apply Z.ltb_ge in Hc; lia].
Qed.

Lemma verify_ctx_accepted P pk M sig ctx :
  zlen ctx <= FIPS_CTX_MAX -> verify H P pk M sig ctx = verify_internal H false P pk M sig ctx [] [] false.
Proof.
  intros Hl. unfold verify. destruct guards_are_fips as (_ & _ & E & _). rewrite E.
  destruct (FIPS_CTX_MAX <? zlen ctx) eqn:Hc; [apply Z.ltb_lt in Hc; lia | reflexivity].
Qed.

Lemma hash_verify_ctx_accepted P pk M sig ctx ph :
  zlen ctx <= FIPS_CTX_MAX ->
  hash_verify H P pk M sig ctx ph =
    let '(oid, phm) := hash_message H M ph in verify_internal H false P pk M sig ctx oid phm false.
Proof.
  intros Hl. unfold hash_verify. destruct guards_are_fips as (_ & _ & _ & E & _). rewrite E.
  destruct (FIPS_CTX_MAX <? zlen ctx) eqn:Hc; [apply Z.ltb_lt in Hc; lia | reflexivity].
Qed.

(* the one-byte length field is exact on every accepted context, hence injective there: no
   accepted context aliases another length, and no context above 255 bytes is accepted at all *)
Lemma len_byte_exact n : 0 <= n <= FIPS_CTX_MAX -> len_byte n = n.
Proof. unfold len_byte, FIPS_CTX_MAX. intros. apply Z.mod_small. lia. Qed.

Lemma len_byte_no_alias (c1 c2 : bytes) :
  zlen c1 <= FIPS_CTX_MAX -> zlen c2 <= FIPS_CTX_MAX ->
  len_byte (zlen c1) = len_byte (zlen c2) -> length c1 = length c2.
Proof.
  unfold zlen. intros H1 H2 E.
  rewrite !len_byte_exact in E by lia. lia.
Qed.

(* the wrap the property warns about is real: WITHOUT the guard, 256 would alias 0 *)
Lemma len_byte_wraps_at_256 : len_byte 256 = len_byte 0.
Proof. reflexivity. Qed.

(* FIPS 204 (the Spec transcription) rejects exactly the same lengths *)
Lemma spec_sign_ctx P sk M ctx rnd :
  FIPS_CTX_MAX < zlen ctx <-> Sign H fuel P sk M ctx rnd = SR_ctx_too_long.
Proof.
  unfold Sign, FIPS_CTX_MAX. destruct (255 <? zlen ctx) eqn:E.
  - apply Z.ltb_lt in E. tauto.
  - apply Z.ltb_ge in E. split; [lia|]. destruct (Sign_internal _ _ _ _ _ _); discriminate.
Qed.
Lemma spec_verify_ctx P pk M sigma ctx :
  FIPS_CTX_MAX < zlen ctx -> Verify H P pk M sigma ctx = Some false.
Proof. unfold Verify, FIPS_CTX_MAX. intros E. apply Z.ltb_lt in E. now rewrite E. Qed.
End G.
