(* Binding of a signature to (message, context, mode, pre-hash function) - C06 - and to message and
   context bits - C05: reductions to explicit hash collisions.  If one (pk, sig) verifies under two
   different interpretations, then two DIFFERENT byte strings are exhibited that SHAKE256 (or the
   pre-hash function) maps to the same output.  No cryptographic assumption is made. *)
Require Import F204.Base.Util F204.Base.Mach F204.Gen.Params F204.Gen.Guards F204.Gen.Oids F204.Hash.HashIface
  F204.Impl.Hashing F204.Impl.MlDsa F204.Impl.Api F204.Proofs.Format.
Open Scope Z_scope.

Section B.
Variable H : Hashes.

Definition shake256_collision : Prop := exists x y n, x <> y /\ h_shake256 H x n = h_shake256 H y n.
Definition prehash_digest (ph : Ph) (M : bytes) : bytes := snd (hash_message H M ph).
Definition prehash_collision : Prop := exists ph M M', M <> M' /\ prehash_digest ph M = prehash_digest ph M'.

(* what a verify_internal call that returns true establishes *)
Lemma verify_internal_true ct P pk m sig ctx oid phm nist :
  verify_internal H ct P pk m sig ctx oid phm nist = Ok true ->
  exists c_tilde tmp, verify_core H ct P pk sig = Ok (Some (c_tilde, tmp, true))
    /\ c_tilde = h_shake256 H (mu_of H (pk_tr pk) (mode_of nist oid phm) m ctx ++ tmp) (Z.to_nat (p_lambda_div4 P)).
Proof.
  unfold verify_internal. destruct (verify_core H ct P pk sig) as [[[[c t] l]|]|e|s|]; cbn [bind]; try discriminate.
  intros E. injection E as E. apply andb_prop in E as [El Ee]. subst l.
  exists c, t. split; [reflexivity|]. apply list_eqb_eq. exact Ee.
Qed.

(* two accepting interpretations of the same (pk, sig) give equal hashes of mu1 || w and mu2 || w *)
Lemma two_interpretations ct P pk sig m1 ctx1 oid1 phm1 n1 m2 ctx2 oid2 phm2 n2 :
  verify_internal H ct P pk m1 sig ctx1 oid1 phm1 n1 = Ok true ->
  verify_internal H ct P pk m2 sig ctx2 oid2 phm2 n2 = Ok true ->
  exists tmp, h_shake256 H (mu_of H (pk_tr pk) (mode_of n1 oid1 phm1) m1 ctx1 ++ tmp) (Z.to_nat (p_lambda_div4 P))
            = h_shake256 H (mu_of H (pk_tr pk) (mode_of n2 oid2 phm2) m2 ctx2 ++ tmp) (Z.to_nat (p_lambda_div4 P)).
Proof.
  intros V1 V2. apply verify_internal_true in V1 as (c1 & t1 & C1 & E1). apply verify_internal_true in V2 as (c2 & t2 & C2 & E2).
  rewrite C1 in C2. injection C2 as -> ->. exists t2. congruence.
Qed.

(* the mu preimage of each entry path *)
Definition mu_preimage (tr : bytes) (md : mode) (m ctx : bytes) : bytes :=
  match md with
  | Nist => tr ++ m
  | Pure => tr ++ fmt dom_pure ctx m
  | Prehash oid phm => tr ++ fmt dom_hash ctx (oid ++ phm)
  end.
Lemma mu_of_preimage tr md m ctx : mu_of H tr md m ctx = h_shake256 H (mu_preimage tr md m ctx) 64.
Proof. destruct md; unfold mu_of, mu_preimage, fmt; rewrite <- ?app_assoc; reflexivity. Qed.

(* different mu preimages, both accepted: a SHAKE256 collision is exhibited *)
Lemma binding_core ct P pk sig m1 ctx1 oid1 phm1 n1 m2 ctx2 oid2 phm2 n2 :
  verify_internal H ct P pk m1 sig ctx1 oid1 phm1 n1 = Ok true ->
  verify_internal H ct P pk m2 sig ctx2 oid2 phm2 n2 = Ok true ->
  mu_preimage (pk_tr pk) (mode_of n1 oid1 phm1) m1 ctx1 <> mu_preimage (pk_tr pk) (mode_of n2 oid2 phm2) m2 ctx2 ->
  shake256_collision.
Proof.
  intros V1 V2 Hne. destruct (two_interpretations _ _ _ _ _ _ _ _ _ _ _ _ _ _ V1 V2) as (tmp & E).
  set (mu1 := mu_of H (pk_tr pk) (mode_of n1 oid1 phm1) m1 ctx1) in *.
  set (mu2 := mu_of H (pk_tr pk) (mode_of n2 oid2 phm2) m2 ctx2) in *.
  destruct (list_eq_dec Z.eq_dec mu1 mu2) as [Emu|Nmu].
  - (* equal mu from different preimages: collision at 64 bytes *)
    unfold mu1, mu2 in Emu. rewrite !mu_of_preimage in Emu.
    exists (mu_preimage (pk_tr pk) (mode_of n1 oid1 phm1) m1 ctx1), (mu_preimage (pk_tr pk) (mode_of n2 oid2 phm2) m2 ctx2), 64%nat.
    split; assumption.
  - (* different mu: collision at lambda/4 bytes *)
    exists (mu1 ++ tmp), (mu2 ++ tmp), (Z.to_nat (p_lambda_div4 P)). split; [|exact E].
    intros Eq. apply app_inv_tail in Eq. contradiction.
Qed.

(* ---- API level ---- *)
Inductive interp := IPure | IHash (ph : Ph).
Definition api_verify (P : Params) (pk : PublicKey) (it : interp) (M sig ctx : bytes) : res bool :=
  match it with IPure => verify H P pk M sig ctx | IHash ph => hash_verify H P pk M sig ctx ph end.

Lemma api_verify_true P pk it M sig ctx : api_verify P pk it M sig ctx = Ok true ->
  zlen ctx <= 255 /\
  match it with
  | IPure => verify_internal H false P pk M sig ctx [] [] false = Ok true
  | IHash ph => verify_internal H false P pk M sig ctx (ph_oid ph) (prehash_digest ph M) false = Ok true
  end.
Proof.
  destruct it as [|ph]; cbn [api_verify]; unfold verify, hash_verify.
  - change ctx_max_verify with 255. destruct (255 <? zlen ctx) eqn:E; [discriminate|]. apply Z.ltb_ge in E. intros V. split; assumption.
  - change ctx_max_hash_verify with 255. destruct (255 <? zlen ctx) eqn:E; [discriminate|]. apply Z.ltb_ge in E.
    unfold prehash_digest. destruct (hash_message H M ph) as [oid phm] eqn:Eh. cbn [snd].
    assert (oid = ph_oid ph) by (unfold hash_message in Eh; injection Eh as <- _; reflexivity). subst oid.
    intros V. split; assumption.
Qed.

Lemma oid_nonempty ph : ph_oid ph <> []. Proof. destruct ph; discriminate. Qed.

Theorem binding_interp P pk sig it1 M1 ctx1 it2 M2 ctx2 :
  api_verify P pk it1 M1 sig ctx1 = Ok true -> api_verify P pk it2 M2 sig ctx2 = Ok true ->
  (it1, M1, ctx1) <> (it2, M2, ctx2) -> shake256_collision \/ prehash_collision.
Proof.
  intros V1 V2 Hne. apply api_verify_true in V1 as [L1 V1]. apply api_verify_true in V2 as [L2 V2].
  destruct it1 as [|ph1], it2 as [|ph2].
  - (* pure / pure *)
    left. eapply binding_core; [exact V1|exact V2|]. cbn [mode_of mu_preimage].
    intros Eq. apply app_inv_head in Eq. apply fmt_injective in Eq as (_ & -> & ->); try assumption. apply Hne. reflexivity.
  - (* pure / hash: different domain bytes *)
    left. eapply binding_core; [exact V1|exact V2|]. cbn [mode_of].
    destruct (ph_oid ph2) eqn:Eo; [exfalso; exact (oid_nonempty ph2 Eo)|]. cbn [mu_preimage].
    intros Eq. apply app_inv_head in Eq. apply fmt_injective in Eq as (Ed & _); try assumption. exact (domains_distinct Ed).
  - left. eapply binding_core; [exact V1|exact V2|]. cbn [mode_of].
    destruct (ph_oid ph1) eqn:Eo; [exfalso; exact (oid_nonempty ph1 Eo)|]. cbn [mu_preimage].
    intros Eq. apply app_inv_head in Eq. apply fmt_injective in Eq as (Ed & _); try assumption. exact (domains_distinct (eq_sym Ed)).
  - (* hash / hash *)
    destruct (list_eq_dec Z.eq_dec (mu_preimage (pk_tr pk) (mode_of false (ph_oid ph1) (prehash_digest ph1 M1)) M1 ctx1)
                                    (mu_preimage (pk_tr pk) (mode_of false (ph_oid ph2) (prehash_digest ph2 M2)) M2 ctx2)) as [Eq|Nq].
    + (* same formatted input: same context, same OID, same digest; so the messages collide under PH *)
      right. cbn [mode_of] in Eq.
      destruct (ph_oid ph1) eqn:Eo1; [exfalso; exact (oid_nonempty ph1 Eo1)|].
      destruct (ph_oid ph2) eqn:Eo2; [exfalso; exact (oid_nonempty ph2 Eo2)|].
      cbn [mu_preimage] in Eq. apply app_inv_head in Eq. apply fmt_injective in Eq as (_ & Ec & Eb); try assumption.
      rewrite <- Eo1, <- Eo2 in Eb. apply hash_body_injective in Eb as [Eph Ed]. subst ph2 ctx2.
      exists ph1, M1, M2. split; [|exact Ed]. intros EM. subst M2. apply Hne. reflexivity.
    + left. eapply binding_core; [exact V1|exact V2|exact Nq].
Qed.
End B.

(* ---------- binding to the public key (C05): two different public-key encodings ---------- *)
Section BPK.
Variable H : Hashes.
Hypothesis HL : HashLaws H.

Lemma sig_decode_ctilde P sig c z h : Encodings.sig_decode P sig = Ok (c, z, h) -> c = zslice 0 (p_lambda_div4 P) sig.
Proof.
  unfold Encodings.sig_decode.
  repeat match goal with |- context [bind ?m _] => destruct m; cbn [bind]; try discriminate end.
  intros E. injection E as <- _ _. reflexivity.
Qed.

Lemma verify_core_ctilde ct P pk sig c t l : verify_core H ct P pk sig = Ok (Some (c, t, l)) -> c = zslice 0 (p_lambda_div4 P) sig.
Proof.
  unfold verify_core. destruct (Encodings.sig_decode P sig) as [[[c0 z] h]|e|s|] eqn:Ed; try discriminate.
  repeat match goal with |- context [bind ?m _] => destruct m; cbn [bind]; try discriminate end.
  intros E. injection E as <- _ _. eapply sig_decode_ctilde; exact Ed.
Qed.

Lemma expand_public_tr P pkb pk : pk_try_from_bytes H P pkb = Ok pk -> pk_tr pk = h_shake256 H pkb 64.
Proof.
  unfold pk_try_from_bytes, expand_public. intros E.
  repeat match goal with
  | H0 : bind ?m _ = Ok _ |- _ => destruct m eqn:?; cbn [bind] in H0; try discriminate
  | H0 : match ?x with pair _ _ => _ end = Ok _ |- _ => destruct x
  end.
  injection E as <-. reflexivity.
Qed.

Theorem binding_pk P pkb1 pkb2 pk1 pk2 it M sig ctx :
  pk_try_from_bytes H P pkb1 = Ok pk1 -> pk_try_from_bytes H P pkb2 = Ok pk2 -> pkb1 <> pkb2 ->
  api_verify H P pk1 it M sig ctx = Ok true -> api_verify H P pk2 it M sig ctx = Ok true ->
  shake256_collision H.
Proof.
  intros E1 E2 Hne V1 V2.
  apply api_verify_true in V1 as [_ V1]. apply api_verify_true in V2 as [_ V2].
  pose proof (expand_public_tr _ _ _ E1) as T1. pose proof (expand_public_tr _ _ _ E2) as T2.
  assert (Hgen : forall oid phm,
            verify_internal H false P pk1 M sig ctx oid phm false = Ok true ->
            verify_internal H false P pk2 M sig ctx oid phm false = Ok true -> shake256_collision H).
  { intros oid phm W1 W2.
    apply verify_internal_true in W1 as (c1 & t1 & C1 & F1). apply verify_internal_true in W2 as (c2 & t2 & C2 & F2).
    pose proof (verify_core_ctilde _ _ _ _ _ _ _ C1) as K1. pose proof (verify_core_ctilde _ _ _ _ _ _ _ C2) as K2.
    assert (Ec : c1 = c2) by congruence. rewrite F1, F2 in Ec.
    set (md := mode_of false oid phm) in *.
    destruct (list_eq_dec Z.eq_dec (mu_of H (pk_tr pk1) md M ctx ++ t1) (mu_of H (pk_tr pk2) md M ctx ++ t2)) as [Eq|Nq].
    - (* same hash input: the 64-byte prefixes mu1, mu2 coincide *)
      assert (Emu : mu_of H (pk_tr pk1) md M ctx = mu_of H (pk_tr pk2) md M ctx).
      { apply app_eq_len in Eq as [Emu _]; [exact Emu|]. rewrite !mu_of_preimage, !(shake256_len H HL). reflexivity. }
      rewrite !mu_of_preimage in Emu.
      destruct (list_eq_dec Z.eq_dec (mu_preimage (pk_tr pk1) md M ctx) (mu_preimage (pk_tr pk2) md M ctx)) as [Ep|Np].
      + (* same preimage: tr1 = tr2, i.e. H(pkb1) = H(pkb2) *)
        assert (Etr : pk_tr pk1 = pk_tr pk2).
        { destruct md; cbn [mu_preimage] in Ep; apply app_inv_tail in Ep; exact Ep. }
        rewrite T1, T2 in Etr. exists pkb1, pkb2, 64%nat. split; assumption.
      + exists (mu_preimage (pk_tr pk1) md M ctx), (mu_preimage (pk_tr pk2) md M ctx), 64%nat. split; assumption.
    - exists (mu_of H (pk_tr pk1) md M ctx ++ t1), (mu_of H (pk_tr pk2) md M ctx ++ t2), (Z.to_nat (p_lambda_div4 P)). split; assumption. }
  destruct it as [|ph]; eapply Hgen; eassumption.
Qed.
End BPK.
