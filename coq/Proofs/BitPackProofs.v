(* Arithmetic meaning of the crate's bit-packing loops (conversion.rs bit_pack / bit_unpack).
   A byte string is the little-endian number le_int v; unpacking reads its base-2^c digits,
   packing writes the number sum d_i 2^(c i) in base 256.  From this, round trips and
   canonicity (C08) and the range behaviour of private-key decoding (C10). *)
Require Import F204.Base.Util F204.Base.Mach F204.Base.Bits F204.Base.ListLemmas F204.Gen.Params
  F204.Impl.Helpers F204.Impl.Conversion.
Open Scope Z_scope.
Ltac Zify.zify_post_hook ::= Z.div_mod_to_equations.
Arguments Z.mul : simpl never.
Arguments Z.add : simpl never.
Arguments Z.pow : simpl never.

Fixpoint le_int (v : list Z) : Z := match v with [] => 0 | b :: r => b + 256 * le_int r end.
(* value of a digit list in base 2^c, least significant first *)
Fixpoint dval (c : Z) (ds : list Z) : Z := match ds with [] => 0 | d :: r => d + 2 ^ c * dval c r end.

Definition bytes_ok (v : list Z) : Prop := Forall (fun b => 0 <= b < 256) v.
Definition digits_ok (c : Z) (ds : list Z) : Prop := Forall (fun d => 0 <= d < 2 ^ c) ds.

Lemma le_int_app p x : le_int (p ++ [x]) = le_int p + x * 256 ^ Z.of_nat (length p).
Proof.
  induction p as [|b p IH]; cbn [app le_int length].
  - cbn. rewrite Z.pow_0_r. lia.
  - rewrite IH. rewrite Nat2Z.inj_succ, Z.pow_succ_r by lia. ring.
Qed.
Lemma dval_app c ds d : 0 <= c -> dval c (ds ++ [d]) = dval c ds + d * 2 ^ (c * Z.of_nat (length ds)).
Proof.
  intros Hc. induction ds as [|e ds IH]; cbn [app dval length].
  - cbn. rewrite !Z.mul_0_r, Z.pow_0_r. lia.
  - rewrite IH. rewrite Nat2Z.inj_succ. replace (c * Z.succ (Z.of_nat (length ds))) with (c + c * Z.of_nat (length ds)) by lia.
    rewrite Z.pow_add_r by lia. ring.
Qed.
Lemma dval_bound c ds : 0 <= c -> digits_ok c ds -> 0 <= dval c ds < 2 ^ (c * Z.of_nat (length ds)).
Proof.
  intros Hc H. induction H as [|d ds Hd H IH]; cbn [dval length].
  - cbn. rewrite !Z.mul_0_r, Z.pow_0_r. lia.
  - rewrite Nat2Z.inj_succ. replace (c * Z.succ (Z.of_nat (length ds))) with (c + c * Z.of_nat (length ds)) by lia.
    rewrite Z.pow_add_r by lia. assert (0 < 2 ^ c) by (apply Z.pow_pos_nonneg; lia). nia.
Qed.
Lemma le_int_bound v : bytes_ok v -> 0 <= le_int v < 256 ^ Z.of_nat (length v).
Proof.
  intros H. induction H as [|b v Hb H IH]; cbn [le_int length].
  - cbn. rewrite Z.pow_0_r. lia.
  - rewrite Nat2Z.inj_succ, Z.pow_succ_r by lia. lia.
Qed.

(* digit lists are unique representations *)
Lemma dval_inj c : 0 < c -> forall ds es, digits_ok c ds -> digits_ok c es -> length ds = length es -> dval c ds = dval c es -> ds = es.
Proof.
  intros Hc. assert (Hp : 0 < 2 ^ c) by (apply Z.pow_pos_nonneg; lia).
  induction ds as [|d ds IH]; intros [|e es] Hd He Hl Hv; cbn in Hl; try discriminate; [reflexivity|].
  inversion Hd as [|? ? Hd1 Hd2]; inversion He as [|? ? He1 He2]; subst. cbn [dval] in Hv.
  destruct (Z.div_mod_unique (2 ^ c) (dval c ds) (dval c es) d e) as [Hq Hr]; [left; lia|left; lia|lia|].
  subst e. f_equal. apply IH; try assumption; lia.
Qed.

(* ---------- bit_unpack ---------- *)
Section Unpack.
Variables (a b c : Z).
Hypothesis Hc : 1 <= c <= 24.
Definition dec (d : Z) : Z := if a =? 0 then d else b - d.

(* loop state after a prefix p of the bytes: emitted digits ds (in order), remaining bits temp *)
Definition uinv (p : list Z) (st : Z * Z * list Z) (ds : list Z) : Prop :=
  let '(temp, bi, out) := st in
  out = rev (map dec ds) /\ digits_ok c ds /\ 0 <= bi /\ 8 * Z.of_nat (length p) = c * Z.of_nat (length ds) + bi
  /\ 0 <= temp < 2 ^ bi /\ le_int p = dval c ds + temp * 2 ^ (c * Z.of_nat (length ds)).

Lemma bu_drain_inv : forall fuel p temp bi ds,
  uinv p (temp, bi, rev (map dec ds)) ds -> bi < c * (Z.of_nat fuel + 1) ->
  exists ds' temp' bi', bu_drain fuel a b c temp bi (rev (map dec ds)) = (temp', bi', rev (map dec ds'))
                        /\ uinv p (temp', bi', rev (map dec ds')) ds' /\ bi' < c.
Proof.
  induction fuel as [|f IH]; intros p temp bi ds Hinv Hf.
  - exists ds, temp, bi. cbn [bu_drain]. split; [reflexivity|split; [exact Hinv|lia]].
  - cbn [bu_drain]. destruct (c <=? bi) eqn:E.
    + apply Z.leb_le in E. destruct Hinv as (Ho & Hd & Hb0 & Hlen & Ht & Hv).
      set (d := Z.land temp (Z.ones c)). set (t2 := shr temp c).
      assert (Hdm : d = temp mod 2 ^ c) by (unfold d; apply Z.land_ones; lia).
      assert (Ht2 : t2 = temp / 2 ^ c) by (unfold t2; apply shr_div; lia).
      assert (Hpc : 0 < 2 ^ c) by (apply Z.pow_pos_nonneg; lia).
      assert (Hsplit : 2 ^ bi = 2 ^ c * 2 ^ (bi - c)) by (rewrite <- Z.pow_add_r by lia; f_equal; lia).
      assert (Hp2 : 0 < 2 ^ (bi - c)) by (apply Z.pow_pos_nonneg; lia).
      assert (Hd_range : 0 <= d < 2 ^ c) by (rewrite Hdm; apply Z.mod_pos_bound; lia).
      assert (Ht2_range : 0 <= t2 < 2 ^ (bi - c)).
      { rewrite Ht2. split; [apply Z.div_pos; lia|]. apply Z.div_lt_upper_bound; [lia|]. lia. }
      destruct (IH p t2 (bi - c) (ds ++ [d])) as (ds' & temp' & bi' & E' & Hinv' & Hbi').
      * unfold uinv. rewrite map_app, rev_app_distr. cbn [map rev app].
        repeat split; try lia.
        -- apply Forall_app. split; [exact Hd|constructor; [exact Hd_range|constructor]].
        -- rewrite app_length. cbn [length]. lia.
        -- rewrite app_length. cbn [length]. rewrite dval_app by lia. rewrite Hv.
           replace (c * Z.of_nat (length ds + 1)) with (c * Z.of_nat (length ds) + c) by lia.
           rewrite Z.pow_add_r by lia.
           assert (temp = d + 2 ^ c * t2) by (rewrite Hdm, Ht2; pose proof (Z.div_mod temp (2 ^ c)); lia). nia.
      * lia.
      * exists ds', temp', bi'. split; [|split; assumption].
        rewrite map_app, rev_app_distr in E'. cbn [map rev app] in E'. unfold dec at 1 in E'. fold d t2. exact E'.
    + apply Z.leb_gt in E. exists ds, temp, bi. split; [reflexivity|split; [exact Hinv|exact E]].
Qed.

Lemma bu_step_inv p x temp bi ds :
  uinv p (temp, bi, rev (map dec ds)) ds -> bi < c -> 0 <= x < 256 ->
  exists ds' temp' bi', bu_step a b c (temp, bi, rev (map dec ds)) x = (temp', bi', rev (map dec ds'))
                        /\ uinv (p ++ [x]) (temp', bi', rev (map dec ds')) ds' /\ bi' < c.
Proof.
  intros Hinv Hbi Hx. unfold bu_step.
  destruct Hinv as (Ho & Hd & Hb0 & Hlen & Ht & Hv).
  assert (Hsh : shl32 x bi = x * 2 ^ bi).
  { unfold shl32. rewrite Z.shiftl_mul_pow2 by lia. apply wrap32_id.
    assert (2 ^ bi <= 2 ^ 23) by (apply Z.pow_le_mono_r; lia). change (2 ^ 23) with 8388608 in *.
    assert (0 < 2 ^ bi) by (apply Z.pow_pos_nonneg; lia). unfold i32_min, i32_max. nia. }
  rewrite Hsh.
  assert (Hor : Z.lor temp (x * 2 ^ bi) = x * 2 ^ bi + temp).
  { rewrite Z.lor_comm. rewrite <- Z.shiftl_mul_pow2 by lia. rewrite lor_shiftl_low by lia. rewrite Z.shiftl_mul_pow2 by lia. reflexivity. }
  rewrite Hor.
  assert (Hp : 0 < 2 ^ bi) by (apply Z.pow_pos_nonneg; lia).
  apply (bu_drain_inv 8 (p ++ [x]) (x * 2 ^ bi + temp) (bi + 8) ds).
  - unfold uinv. repeat split; try assumption; try lia.
    + rewrite app_length. cbn [length]. lia.
    + rewrite Z.pow_add_r by lia. change (2 ^ 8) with 256. nia.
    + rewrite le_int_app, Hv.
      replace (256 ^ Z.of_nat (length p)) with (2 ^ (8 * Z.of_nat (length p))).
      2:{ rewrite Z.pow_mul_r by lia. reflexivity. }
      rewrite Hlen, Z.pow_add_r by lia. ring.
  - lia.
Qed.

Lemma bu_fold_inv : forall v p temp bi ds,
  uinv p (temp, bi, rev (map dec ds)) ds -> bi < c -> bytes_ok v ->
  exists ds' temp' bi', fold_left (bu_step a b c) v (temp, bi, rev (map dec ds)) = (temp', bi', rev (map dec ds'))
                        /\ uinv (p ++ v) (temp', bi', rev (map dec ds')) ds' /\ bi' < c.
Proof.
  induction v as [|x v IH]; intros p temp bi ds Hinv Hbi Hv.
  - exists ds, temp, bi. cbn [fold_left]. rewrite app_nil_r. split; [reflexivity|split; assumption].
  - inversion Hv as [|? ? Hx Hv']; subst. cbn [fold_left].
    destruct (bu_step_inv p x temp bi ds Hinv Hbi Hx) as (ds1 & t1 & b1 & E1 & I1 & B1). rewrite E1.
    destruct (IH (p ++ [x]) t1 b1 ds1 I1 B1 Hv') as (ds2 & t2 & b2 & E2 & I2 & B2).
    exists ds2, t2, b2. rewrite <- app_assoc in I2. split; [exact E2|split; assumption].
Qed.

(* the digits read are THE base-2^c digits of the little-endian value *)
Theorem bit_unpack_raw_digits v : bytes_ok v -> 8 * Z.of_nat (length v) = c * 256 ->
  exists ds, fold_left (bu_step a b c) v (0, 0, []) = (0, 0, rev (map dec ds))
             /\ digits_ok c ds /\ length ds = 256%nat /\ dval c ds = le_int v.
Proof.
  intros Hv Hlen.
  destruct (bu_fold_inv v [] 0 0 []) as (ds & temp & bi & E & Hinv & Hbi).
  - unfold uinv. cbn [length rev map dval le_int]. change (Z.of_nat 0) with 0. rewrite !Z.mul_0_r, Z.pow_0_r. repeat split; try constructor; lia.
  - lia.
  - exact Hv.
  - cbn [app] in Hinv. destruct Hinv as (_ & Hd & Hb0 & Hl & Ht & Hval).
    (* 8*len v = 256 c = c * |ds| + bi with 0 <= bi < c: so |ds| = 256 and bi = 0 *)
    assert (Z.of_nat (length ds) = 256 /\ bi = 0) as [Hn Hb].
    { set (n := Z.of_nat (length ds)) in *. assert (Hbi2 : bi = c * (256 - n)) by lia.
      destruct (Z.lt_trichotomy n 256) as [Hlt|[Heq|Hgt]].
      - assert (c * 1 <= c * (256 - n)) by (apply Z.mul_le_mono_nonneg_l; lia). lia.
      - rewrite Heq in Hbi2. split; [exact Heq|lia].
      - assert (c * (256 - n) <= c * (-1)) by (apply Z.mul_le_mono_nonneg_l; lia). lia. }
    subst bi. rewrite Z.pow_0_r in Ht. assert (temp = 0) by lia. subst temp.
    exists ds. cbn [map rev] in E. rewrite E. repeat split; try assumption; lia.
Qed.
End Unpack.

(* ---------- bit_pack ---------- *)
Section Pack.
Variables (a b c : Z).
Hypothesis Hc : 1 <= c <= 24.
Definition enc (x : Z) : Z := if 0 <? a then Z.abs (b - x) else Z.abs x.

(* state after the digits ds: emitted bytes ob (in order), pending bits temp *)
Definition pinv (ds : list Z) (st : Z * Z * list Z) (ob : list Z) : Prop :=
  let '(temp, bi, out) := st in
  out = rev ob /\ bytes_ok ob /\ 0 <= bi /\ c * Z.of_nat (length ds) = 8 * Z.of_nat (length ob) + bi
  /\ 0 <= temp < 2 ^ bi /\ dval c ds = le_int ob + temp * 256 ^ Z.of_nat (length ob).

Lemma bp_flush_inv : forall fuel ds temp bi ob,
  pinv ds (temp, bi, rev ob) ob -> bi < 8 * (Z.of_nat fuel + 1) ->
  exists ob' temp' bi', bp_flush fuel temp bi (rev ob) = (temp', bi', rev ob') /\ pinv ds (temp', bi', rev ob') ob' /\ bi' < 8.
Proof.
  induction fuel as [|f IH]; intros ds temp bi ob Hinv Hf.
  - exists ob, temp, bi. cbn [bp_flush]. split; [reflexivity|split; [exact Hinv|lia]].
  - cbn [bp_flush]. destruct (7 <? bi) eqn:E.
    + apply Z.ltb_lt in E. destruct Hinv as (Ho & Hb & Hb0 & Hlen & Ht & Hv).
      rewrite shr_div by lia. change (2 ^ 8) with 256.
      set (byte := temp mod 256). set (t2 := temp / 256).
      assert (Hsplit : 2 ^ bi = 256 * 2 ^ (bi - 8)) by (change 256 with (2 ^ 8); rewrite <- Z.pow_add_r by lia; f_equal; lia).
      assert (Hp2 : 0 < 2 ^ (bi - 8)) by (apply Z.pow_pos_nonneg; lia).
      assert (Hbyte : 0 <= byte < 256) by (unfold byte; apply Z.mod_pos_bound; lia).
      assert (Ht2 : 0 <= t2 < 2 ^ (bi - 8)).
      { unfold t2. split; [apply Z.div_pos; lia|]. apply Z.div_lt_upper_bound; lia. }
      destruct (IH ds t2 (bi - 8) (ob ++ [byte])) as (ob' & temp' & bi' & E' & Hinv' & Hbi').
      * unfold pinv. rewrite rev_app_distr. cbn [rev app]. repeat split; try lia.
        -- apply Forall_app. split; [exact Hb|constructor; [exact Hbyte|constructor]].
        -- rewrite app_length. cbn [length]. lia.
        -- rewrite app_length. cbn [length]. rewrite le_int_app, Hv.
           replace (Z.of_nat (length ob + 1)) with (Z.succ (Z.of_nat (length ob))) by lia. rewrite Z.pow_succ_r by lia.
           assert (temp = byte + 256 * t2) by (unfold byte, t2; pose proof (Z.div_mod temp 256); lia). nia.
      * lia.
      * exists ob', temp', bi'. split; [|split; assumption].
        rewrite rev_app_distr in E'. cbn [rev app] in E'. exact E'.
    + apply Z.ltb_ge in E. exists ob, temp, bi. split; [reflexivity|split; [exact Hinv|lia]].
Qed.

Lemma bp_step_inv ds temp bi ob x :
  pinv ds (temp, bi, rev ob) ob -> bi < 8 -> 0 <= enc x < 2 ^ c ->
  exists ob' temp' bi', bp_step a b c (temp, bi, rev ob) x = (temp', bi', rev ob')
                        /\ pinv (ds ++ [enc x]) (temp', bi', rev ob') ob' /\ bi' < 8.
Proof.
  intros Hinv Hbi Hx. unfold bp_step. fold (enc x).
  destruct Hinv as (Ho & Hb & Hb0 & Hlen & Ht & Hv).
  assert (Hp : 0 < 2 ^ bi) by (apply Z.pow_pos_nonneg; lia).
  assert (Hpc : 2 ^ c <= 2 ^ 24) by (apply Z.pow_le_mono_r; lia). change (2 ^ 24) with 16777216 in Hpc.
  assert (Hpb : 2 ^ bi <= 2 ^ 7) by (apply Z.pow_le_mono_r; lia). change (2 ^ 7) with 128 in Hpb.
  assert (Hw : wrapu32 (Z.shiftl (enc x) bi) = enc x * 2 ^ bi).
  { rewrite wrapu32_eq, Z.shiftl_mul_pow2 by lia. apply Z.mod_small. nia. }
  rewrite Hw.
  assert (Hor : Z.lor temp (enc x * 2 ^ bi) = enc x * 2 ^ bi + temp).
  { rewrite Z.lor_comm. rewrite <- Z.shiftl_mul_pow2 by lia. rewrite lor_shiftl_low by lia. rewrite Z.shiftl_mul_pow2 by lia. reflexivity. }
  rewrite Hor.
  apply (bp_flush_inv 4 (ds ++ [enc x]) (enc x * 2 ^ bi + temp) (bi + c) ob).
  - unfold pinv. repeat split; try assumption; try lia.
    + rewrite app_length. cbn [length]. lia.
    + rewrite Z.pow_add_r by lia. nia.
    + rewrite dval_app by lia. rewrite Hv, Hlen. rewrite Z.pow_add_r by lia.
      replace (2 ^ (8 * Z.of_nat (length ob))) with (256 ^ Z.of_nat (length ob)).
      2:{ change 256 with (2 ^ 8). rewrite <- Z.pow_mul_r by lia. reflexivity. }
      ring.
  - lia.
Qed.

Lemma bp_fold_inv : forall w ds temp bi ob,
  pinv ds (temp, bi, rev ob) ob -> bi < 8 -> Forall (fun x => 0 <= enc x < 2 ^ c) w ->
  exists ob' temp' bi', fold_left (bp_step a b c) w (temp, bi, rev ob) = (temp', bi', rev ob')
                        /\ pinv (ds ++ map enc w) (temp', bi', rev ob') ob' /\ bi' < 8.
Proof.
  induction w as [|x w IH]; intros ds temp bi ob Hinv Hbi Hw.
  - exists ob, temp, bi. cbn [fold_left map]. rewrite app_nil_r. split; [reflexivity|split; assumption].
  - inversion Hw as [|? ? Hx Hw']; subst. cbn [fold_left map].
    destruct (bp_step_inv ds temp bi ob x Hinv Hbi Hx) as (ob1 & t1 & b1 & E1 & I1 & B1). rewrite E1.
    destruct (IH (ds ++ [enc x]) t1 b1 ob1 I1 B1 Hw') as (ob2 & t2 & b2 & E2 & I2 & B2).
    exists ob2, t2, b2. rewrite <- app_assoc in I2. split; [exact E2|split; assumption].
Qed.

Theorem bit_pack_raw_value w : length w = 256%nat -> Forall (fun x => 0 <= enc x < 2 ^ c) w ->
  exists ob, fold_left (bp_step a b c) w (0, 0, []) = (0, 0, rev ob)
             /\ bytes_ok ob /\ Z.of_nat (length ob) = 32 * c /\ le_int ob = dval c (map enc w).
Proof.
  intros Hl Hw.
  destruct (bp_fold_inv w [] 0 0 []) as (ob & temp & bi & E & Hinv & Hbi).
  - unfold pinv. cbn [length rev dval le_int]. change (Z.of_nat 0) with 0. rewrite !Z.mul_0_r, Z.pow_0_r. repeat split; try constructor; lia.
  - lia.
  - exact Hw.
  - cbn [app rev] in *. destruct Hinv as (_ & Hb & Hb0 & Hlen & Ht & Hval).
    rewrite map_length, Hl in Hlen. change (Z.of_nat 256) with 256 in Hlen.
    assert (bi = 0 /\ Z.of_nat (length ob) = 32 * c) as [Hb1 Hn] by lia.
    subst bi. rewrite Z.pow_0_r in Ht. assert (temp = 0) by lia. subst temp.
    exists ob. rewrite E. repeat split; try assumption. lia.
Qed.
End Pack.

(* ---------- round trips and canonicity ---------- *)
Lemma le_int_dval8 v : le_int v = dval 8 v.
Proof. induction v as [|x v IH]; [reflexivity|]. cbn [le_int dval]. rewrite IH. reflexivity. Qed.
Lemma le_int_inj v v' : bytes_ok v -> bytes_ok v' -> length v = length v' -> le_int v = le_int v' -> v = v'.
Proof.
  intros H1 H2 Hl He. rewrite !le_int_dval8 in He. apply (dval_inj 8); try assumption; try lia.
Qed.

Definition valid_ab (a b : Z) : Prop := 0 <= a < 1048576 /\ 1 <= b < 1048576.
Lemma bitlen_ab a b : valid_ab a b -> 1 <= bitlen (a + b) <= 24 /\ a + b < 2 ^ bitlen (a + b).
Proof.
  intros [Ha Hb]. unfold bitlen.
  assert (H0 : 0 < a + b) by lia.
  pose proof (Z.log2_spec (a + b) H0) as [L1 L2].
  assert (Hl : 0 <= Z.log2 (a + b)) by apply Z.log2_nonneg.
  assert (Hu : Z.log2 (a + b) <= 20).
  { destruct (Z.le_gt_cases (Z.log2 (a + b)) 20) as [|Hgt]; [assumption|].
    assert (2 ^ 21 <= 2 ^ Z.log2 (a + b)) by (apply Z.pow_le_mono_r; lia). change (2 ^ 21) with 2097152 in *. lia. }
  split; [lia|]. replace (Z.log2 (a + b) + 1) with (Z.succ (Z.log2 (a + b))) by lia. exact L2.
Qed.

Lemma enc_dec a b d : 0 <= a -> 0 <= d -> enc a b (dec a b d) = d.
Proof.
  intros Ha Hd. unfold enc, dec. destruct (a =? 0) eqn:E.
  - apply Z.eqb_eq in E. subst a. cbn. lia.
  - apply Z.eqb_neq in E. replace (0 <? a) with true by (symmetry; apply Z.ltb_lt; lia). lia.
Qed.
Lemma dec_enc a b x : 0 <= a -> - a <= x <= b -> dec a b (enc a b x) = x.
Proof.
  intros Ha Hx. unfold enc, dec. destruct (a =? 0) eqn:E.
  - apply Z.eqb_eq in E. subst a. cbn. lia.
  - apply Z.eqb_neq in E. replace (0 <? a) with true by (symmetry; apply Z.ltb_lt; lia). lia.
Qed.
Lemma enc_range a b x : 0 <= a -> - a <= x <= b -> 0 <= enc a b x <= a + b.
Proof.
  intros Ha Hx. unfold enc. destruct (0 <? a) eqn:E; [lia|]. apply Z.ltb_ge in E. lia.
Qed.

Lemma in_range_forall w a b : is_in_range w a b = true <-> Forall (fun e => - a <= e <= b) w.
Proof.
  unfold is_in_range. rewrite forallb_forall, Forall_forall. split; intros H e He; specialize (H e He).
  - apply andb_prop in H as [H1 H2]. apply Z.leb_le in H1, H2. lia.
  - apply andb_true_intro. split; apply Z.leb_le; lia.
Qed.

Lemma bit_pack_raw_eq w a b ob :
  fold_left (bp_step a b (bitlen (a + b))) w (0, 0, []) = (0, 0, rev ob) -> bit_pack_raw w a b = ob.
Proof. intros E. unfold bit_pack_raw. rewrite E. apply rev_involutive. Qed.
Lemma bit_unpack_raw_eq v a b ds :
  fold_left (bu_step a b (bitlen (a + b))) v (0, 0, []) = (0, 0, rev (map (dec a b) ds)) -> bit_unpack_raw v a b = map (dec a b) ds.
Proof. intros E. unfold bit_unpack_raw. rewrite E. apply rev_involutive. Qed.

(* encoding an in-range vector and decoding it gives the vector back (both succeed) *)
Theorem bit_pack_unpack a b w : valid_ab a b -> length w = 256%nat -> is_in_range w a b = true ->
  exists v, bit_pack w a b (32 * bitlen (a + b)) = Ok v /\ bit_unpack v a b = Ok w
            /\ bytes_ok v /\ Z.of_nat (length v) = 32 * bitlen (a + b).
Proof.
  intros Hab Hl Hr. destruct (bitlen_ab a b Hab) as [Hc Hlt]. destruct Hab as [Ha Hb].
  set (c := bitlen (a + b)) in *.
  assert (Hw : Forall (fun x => 0 <= enc a b x < 2 ^ c) w).
  { apply in_range_forall in Hr. eapply Forall_impl; [|exact Hr]. cbn beta. intros x Hx.
    pose proof (enc_range a b x ltac:(lia) Hx). lia. }
  destruct (bit_pack_raw_value a b c Hc w Hl Hw) as (ob & Ep & Hbo & Hlo & Hvo).
  exists ob. unfold bit_pack, bit_unpack. fold c.
  replace ((0 <=? a) && (a <? 1048576)) with true by (symmetry; apply andb_true_intro; split; [apply Z.leb_le|apply Z.ltb_lt]; lia).
  replace ((1 <=? b) && (b <? 1048576)) with true by (symmetry; apply andb_true_intro; split; [apply Z.leb_le|apply Z.ltb_lt]; lia).
  rewrite Hr. cbn [guard bind].
  replace (zlen w * c =? 32 * c * 8) with true by (symmetry; apply Z.eqb_eq; unfold zlen; rewrite Hl; change (Z.of_nat 256) with 256; lia).
  cbn [guard bind]. rewrite (bit_pack_raw_eq w a b ob Ep).
  split; [reflexivity|].
  replace (zlen ob =? 32 * c) with true by (symmetry; apply Z.eqb_eq; exact Hlo). cbn [guard bind].
  destruct (bit_unpack_raw_digits a b c Hc ob Hbo ltac:(lia)) as (ds & Eu & Hd & Hld & Hvd).
  rewrite (bit_unpack_raw_eq ob a b ds Eu).
  assert (Hds : ds = map (enc a b) w).
  { apply (dval_inj c); [lia|exact Hd| | |congruence].
    - apply Forall_forall. intros d Hin. apply in_map_iff in Hin as (x & <- & Hx). rewrite Forall_forall in Hw. apply Hw; exact Hx.
    - rewrite map_length. lia. }
  subst ds. rewrite map_map.
  assert (Hid : map (fun x => dec a b (enc a b x)) w = w).
  { apply in_range_forall in Hr. clear - Hr Ha. induction Hr as [|x w Hx Hr IH]; [reflexivity|]. cbn [map]. rewrite IH. f_equal. apply dec_enc; lia. }
  rewrite Hid, Hr. cbn [ensure bind]. repeat split; assumption.
Qed.

(* every accepted byte string re-encodes to itself: decoding is injective (canonical encodings) *)
Theorem bit_unpack_pack a b v w : valid_ab a b -> bytes_ok v -> bit_unpack v a b = Ok w ->
  bit_pack w a b (32 * bitlen (a + b)) = Ok v.
Proof.
  intros Hab Hbv Hu. destruct (bitlen_ab a b Hab) as [Hc Hlt]. destruct Hab as [Ha Hb].
  set (c := bitlen (a + b)) in *. unfold bit_unpack in Hu. fold c in Hu.
  destruct ((0 <=? a) && (a <? 1048576)); cbn [guard bind] in Hu; try discriminate.
  destruct ((1 <=? b) && (b <? 1048576)); cbn [guard bind] in Hu; try discriminate.
  destruct (zlen v =? 32 * c) eqn:El; cbn [guard bind] in Hu; try discriminate.
  apply Z.eqb_eq in El. unfold zlen in El.
  destruct (is_in_range (bit_unpack_raw v a b) a b) eqn:Er; cbn [ensure bind] in Hu; try discriminate.
  inversion Hu; subst w. clear Hu.
  destruct (bit_unpack_raw_digits a b c Hc v Hbv ltac:(lia)) as (ds & Eu & Hd & Hld & Hvd).
  rewrite (bit_unpack_raw_eq v a b ds Eu) in *.
  assert (Hw : Forall (fun x => 0 <= enc a b x < 2 ^ c) (map (dec a b) ds)).
  { apply Forall_forall. intros x Hin. apply in_map_iff in Hin as (d & <- & Hdin). unfold digits_ok in Hd. rewrite Forall_forall in Hd. specialize (Hd d Hdin).
    rewrite enc_dec by lia. exact Hd. }
  destruct (bit_pack_raw_value a b c Hc (map (dec a b) ds) ltac:(rewrite map_length; exact Hld) Hw) as (ob & Ep & Hbo & Hlo & Hvo).
  unfold bit_pack. fold c.
  replace ((0 <=? a) && (a <? 1048576)) with true by (symmetry; apply andb_true_intro; split; [apply Z.leb_le|apply Z.ltb_lt]; lia).
  replace ((1 <=? b) && (b <? 1048576)) with true by (symmetry; apply andb_true_intro; split; [apply Z.leb_le|apply Z.ltb_lt]; lia).
  rewrite Er. cbn [guard bind].
  replace (zlen (map (dec a b) ds) * c =? 32 * c * 8) with true by (symmetry; apply Z.eqb_eq; unfold zlen; rewrite map_length, Hld; change (Z.of_nat 256) with 256; lia).
  cbn [guard bind]. rewrite (bit_pack_raw_eq _ a b ob Ep). f_equal.
  apply le_int_inj; try assumption; [lia|].
  rewrite Hvo, map_map.
  assert (Hid : map (fun d => enc a b (dec a b d)) ds = ds).
  { clear - Hd Ha. induction Hd as [|d ds Hd0 Hd IH]; [reflexivity|]. cbn [map]. rewrite IH. f_equal. apply enc_dec; lia. }
  rewrite Hid. exact Hvd.
Qed.

(* acceptance criterion (C10): a byte string of the right length is accepted iff every base-2^c digit
   is at most a+b; otherwise the answer is the error (never a panic) *)
Theorem bit_unpack_accepts_iff a b v : valid_ab a b -> bytes_ok v -> Z.of_nat (length v) = 32 * bitlen (a + b) ->
  exists ds, digits_ok (bitlen (a + b)) ds /\ length ds = 256%nat /\ dval (bitlen (a + b)) ds = le_int v /\
             (Forall (fun d => d <= a + b) ds -> bit_unpack v a b = Ok (map (dec a b) ds)) /\
             (Exists (fun d => a + b < d) ds -> bit_unpack v a b = Err Malformed).
Proof.
  intros Hab Hbv Hlen. destruct (bitlen_ab a b Hab) as [Hc Hlt]. destruct Hab as [Ha Hb].
  set (c := bitlen (a + b)) in *.
  destruct (bit_unpack_raw_digits a b c Hc v Hbv ltac:(lia)) as (ds & Eu & Hd & Hld & Hvd).
  exists ds. repeat split; try assumption.
  - intros Hall. unfold bit_unpack. fold c.
    replace ((0 <=? a) && (a <? 1048576)) with true by (symmetry; apply andb_true_intro; split; [apply Z.leb_le|apply Z.ltb_lt]; lia).
    replace ((1 <=? b) && (b <? 1048576)) with true by (symmetry; apply andb_true_intro; split; [apply Z.leb_le|apply Z.ltb_lt]; lia).
    replace (zlen v =? 32 * c) with true by (symmetry; apply Z.eqb_eq; exact Hlen). cbn [guard bind].
    rewrite (bit_unpack_raw_eq v a b ds Eu).
    replace (is_in_range (map (dec a b) ds) a b) with true; [reflexivity|].
    symmetry. apply in_range_forall. apply Forall_forall. intros x Hin. apply in_map_iff in Hin as (d & <- & Hdin).
    unfold digits_ok in Hd. rewrite Forall_forall in Hd, Hall. specialize (Hd d Hdin). specialize (Hall d Hdin).
    unfold dec. destruct (a =? 0) eqn:E; [apply Z.eqb_eq in E|]; lia.
  - intros Hex. unfold bit_unpack. fold c.
    replace ((0 <=? a) && (a <? 1048576)) with true by (symmetry; apply andb_true_intro; split; [apply Z.leb_le|apply Z.ltb_lt]; lia).
    replace ((1 <=? b) && (b <? 1048576)) with true by (symmetry; apply andb_true_intro; split; [apply Z.leb_le|apply Z.ltb_lt]; lia).
    replace (zlen v =? 32 * c) with true by (symmetry; apply Z.eqb_eq; exact Hlen). cbn [guard bind].
    rewrite (bit_unpack_raw_eq v a b ds Eu).
    replace (is_in_range (map (dec a b) ds) a b) with false; [reflexivity|].
    symmetry. apply not_true_is_false. intros Hr. apply in_range_forall in Hr.
    apply Exists_exists in Hex as (d & Hdin & Hbig). rewrite Forall_forall in Hr.
    specialize (Hr (dec a b d) (in_map _ _ _ Hdin)). unfold dec in Hr.
    destruct (a =? 0) eqn:E; [apply Z.eqb_eq in E|]; lia.
Qed.

(* when a+b+1 is a power of two every byte string of the right length is accepted (t0, t1, z, w1, mask) *)
Corollary bit_unpack_total a b v : valid_ab a b -> a + b + 1 = 2 ^ bitlen (a + b) -> bytes_ok v ->
  Z.of_nat (length v) = 32 * bitlen (a + b) -> exists w, bit_unpack v a b = Ok w /\ length w = 256%nat /\ is_in_range w a b = true.
Proof.
  intros Hab Hfull Hbv Hlen. destruct (bit_unpack_accepts_iff a b v Hab Hbv Hlen) as (ds & Hd & Hl & _ & Hacc & _).
  exists (map (dec a b) ds). rewrite map_length. split; [|split; [exact Hl|]].
  - apply Hacc. eapply Forall_impl; [|exact Hd]. cbn beta. intros d Hdr. lia.
  - assert (E : bit_unpack v a b = Ok (map (dec a b) ds)).
    { apply Hacc. eapply Forall_impl; [|exact Hd]. cbn beta. intros d Hdr. lia. }
    pose proof (C := E). unfold bit_unpack in C.
    repeat (match type of C with context [guard ?g _] => destruct g; cbn [guard bind] in C; try discriminate end).
    destruct (is_in_range (bit_unpack_raw v a b) a b) eqn:Er; cbn [ensure bind] in C; try discriminate.
    injection C as Hw. rewrite Hw in Er. exact Er.
Qed.
