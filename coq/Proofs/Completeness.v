(* C01: honest signatures always verify - for the model of the crate, obtained from the correctness of the
   FIPS 204 transcription (SpecCorrect) through the refinement theorems for key generation (C04), signing (C03)
   and verification (C02), and the round-trip / derivation theorems (C09, C11) for the key provenances. *)
Require Import List ZArith Lia Bool. Import ListNotations.
Require Import F204.Spec.SpecConv F204.Spec.SpecSample F204.Spec.SpecMLDSA.
Require Import F204.Base.Util F204.Base.Mach F204.Gen.Params F204.Gen.Guards F204.Gen.Oids F204.Hash.HashIface
  F204.Impl.Encodings F204.Impl.Hashing F204.Impl.MlDsa F204.Impl.Api
  F204.Proofs.BitPackProofs F204.Proofs.SkDecodeProofs F204.Proofs.SampleRefine F204.Proofs.KeyRoundTrip F204.Proofs.PackRefine F204.Proofs.KeygenRefine
  F204.Proofs.DeriveRefine F204.Proofs.VerifyRefine F204.Proofs.SignRefine F204.Proofs.SpecCorrect.
Open Scope Z_scope.

Section C.
Variable H : Hashes.
Hypothesis HL : HashLaws H.
Variable P : Params.
Hypothesis HP : In P all_params.
Variable fuel : nat.
Hypothesis Hfuel : (Z.of_nat fuel + 1) * lz P <= 65535.

(* everything known about a generated key pair *)
Lemma generated_key_facts xi pk sk : keygen_from_seed H P xi = Ok (pk, sk) ->
  exists rho K tr s1 s2 t0 t1,
    KeyGen_parts H P xi = Some (rho, K, tr, s1, s2, t0, t1) /\
    bytes_ok (pkEncode rho t1) /\ zlen (pkEncode rho t1) = p_pk_len P /\ pk_try_from_bytes H P (pkEncode rho t1) = Ok pk /\
    bytes_ok (skEncode (p_eta P) rho K tr s1 s2 t0) /\ zlen (skEncode (p_eta P) rho K tr s1 s2 t0) = p_sk_len P /\
    sk_try_from_bytes P (skEncode (p_eta P) rho K tr s1 s2 t0) = Ok sk /\
    skDecode P (skEncode (p_eta P) rho K tr s1 s2 t0) = (rho, K, tr, s1, s2, t0).
Proof.
  intros E. unfold keygen_from_seed in E.
  destruct (KeyGen_internal H P xi) as [[pkb0 skb0]|] eqn:EK; [|rewrite (keygen_fuel H HL P HP xi EK) in E; discriminate].
  destruct (keygen_bytes H HL P HP xi pkb0 skb0 EK) as (pk' & sk' & rho & K & tr & s1 & s2 & t0 & t1 & EP & Ek & _ & _ & _ & _ & Epk & Esk).
  rewrite E in Ek. injection Ek as <- <-.
  rewrite KeyGen_internal_parts, EP in EK. injection EK as <- <-.
  destruct (generated_roundtrip H HL P HP xi pk sk E) as (pkb & skb & Bp & Lp & Bs & Ls & E1 & E2 & E3 & E4).
  rewrite Epk in E1. injection E1 as <-. rewrite Esk in E3. injection E3 as <-.
  exists rho, K, tr, s1, s2, t0, t1. repeat split; try assumption.
  (* the decoded components are the generated ones: decode the crate's encoding of them *)
  destruct (KeyGen_parts_shape H HL P HP xi _ _ _ _ _ _ _ EP) as (Lr & LK & Lt & R1 & R2 & R3 & R4).
  assert (Bytes : bytes_ok rho /\ bytes_ok K /\ bytes_ok tr).
  { unfold KeyGen_parts in EP. cbv zeta in EP. set (hh := h_shake256 H _ 128) in *.
    destruct (ExpandA H P (zslice 0 32 hh)); [|discriminate]. destruct (ExpandS H P (zslice 32 96 hh)) as [[a b]|]; [|discriminate].
    injection EP as <- <- <- _ _ _ _. repeat split; try (apply zslice_bytes_ok); apply (shake256_ok H HL). }
  destruct Bytes as (Br & BK & Bt).
  destruct (sk_decode_encode P rho K tr s1 s2 t0 HP Lr LK Lt Br BK Bt R1 R2 R3) as (skb1 & Ee & Bs1 & _ & Ed1).
  rewrite (sk_encode_spec P rho K tr s1 s2 t0 HP R1 R2 R3) in Ee. injection Ee as <-.
  apply (sk_decode_spec P HP _ _ _ _ _ _ _ Bs1 Ed1).
Qed.

(* pure ML-DSA *)
Theorem sign_then_verify xi pk sk rnd g M ctx sig g' : keygen_from_seed H P xi = Ok (pk, sk) -> zlen rnd = 32 ->
  try_sign_with_rng H fuel P sk (Fill rnd :: g) M ctx = (Ok sig, g') -> verify H P pk M sig ctx = Ok true.
Proof.
  intros EK Lr ES. destruct (generated_key_facts xi pk sk EK) as (rho & K & tr & s1 & s2 & t0 & t1 & EP & Bp & Lp & Epk & Bs & Ls & Esk & Ed).
  rewrite (try_sign_refines H HL P HP fuel Hfuel _ sk Bs Ls Esk rnd g M ctx Lr) in ES. injection ES as ES _.
  unfold Sign in ES. destruct (255 <? zlen ctx) eqn:Ec; [discriminate|].
  destruct (Sign_internal H fuel P _ (M_pure M ctx) rnd) as [s|] eqn:ESI; [|discriminate]. cbn [res_sign] in ES. injection ES as ->.
  rewrite (Sign_internal_core H P), Ed in ESI.
  destruct (Spec_sign_verify H HL P HP xi fuel _ rnd _ _ _ _ _ _ _ sig EP ESI) as (EV & Bsig & Lsig).
  rewrite (verify_refines H HL P HP _ sig pk M ctx Bp Lp Bsig Lsig Epk). unfold Verify. rewrite Ec, EV. reflexivity.
Qed.

(* HashML-DSA with each of the three pre-hash functions *)
Theorem hash_sign_then_verify xi pk sk rnd g M ctx ph sig g' : keygen_from_seed H P xi = Ok (pk, sk) -> zlen rnd = 32 ->
  try_hash_sign_with_rng H fuel P sk (Fill rnd :: g) M ctx ph = (Ok sig, g') -> hash_verify H P pk M sig ctx ph = Ok true.
Proof.
  intros EK Lr ES. destruct (generated_key_facts xi pk sk EK) as (rho & K & tr & s1 & s2 & t0 & t1 & EP & Bp & Lp & Epk & Bs & Ls & Esk & Ed).
  rewrite (try_hash_sign_refines H HL P HP fuel Hfuel _ sk Bs Ls Esk rnd g M ctx ph Lr) in ES. injection ES as ES _.
  unfold HashSign in ES. destruct (255 <? zlen ctx) eqn:Ec; [discriminate|].
  destruct (Sign_internal H fuel P _ (M_hash H (ph_to_spec ph) M ctx) rnd) as [s|] eqn:ESI; [|discriminate]. cbn [res_sign] in ES. injection ES as ->.
  rewrite (Sign_internal_core H P), Ed in ESI.
  destruct (Spec_sign_verify H HL P HP xi fuel _ rnd _ _ _ _ _ _ _ sig EP ESI) as (EV & Bsig & Lsig).
  rewrite (hash_verify_refines H HL P HP _ sig pk M ctx ph Bp Lp Bsig Lsig Epk). unfold HashVerify. rewrite Ec, EV. reflexivity.
Qed.

(* the internal interface used by the ACVP vectors *)
Theorem internal_sign_then_verify xi pk sk rnd M ctx sig : keygen_from_seed H P xi = Ok (pk, sk) -> zlen ctx <= 255 ->
  internal_sign H fuel P sk M ctx rnd = Ok sig -> internal_verify H P pk M sig ctx = Ok true.
Proof.
  intros EK Hc ES. destruct (generated_key_facts xi pk sk EK) as (rho & K & tr & s1 & s2 & t0 & t1 & EP & Bp & Lp & Epk & Bs & Ls & Esk & Ed).
  rewrite (internal_sign_refines H HL P HP fuel Hfuel _ sk Bs Ls Esk rnd M ctx Hc) in ES.
  destruct (Sign_internal H fuel P _ M rnd) as [s|] eqn:ESI; [|discriminate]. cbn [res_fuel] in ES. injection ES as ->.
  rewrite (Sign_internal_core H P), Ed in ESI.
  destruct (Spec_sign_verify H HL P HP xi fuel _ rnd _ _ _ _ _ _ _ sig EP ESI) as (EV & Bsig & Lsig).
  rewrite (internal_verify_refines H HL P HP _ sig pk M ctx Bp Lp Bsig Lsig Epk Hc). rewrite EV. reflexivity.
Qed.
End C.
