(* Constant-time test mode (CTEST = true): the rejection decisions on public data are neutralised,
   so every loop-exit decision of the samplers and of the signing loop is independent of the data. *)
Require Import F204.Base.Util F204.Base.Mach F204.Base.Bits F204.Gen.Params F204.Hash.HashIface
  F204.Impl.Helpers F204.Impl.Conversion F204.Impl.Hashing F204.Impl.MlDsa F204.Proofs.KernelLemmas.
Open Scope Z_scope.

Definition bytes_ok (s : bytes) : Prop := Forall (fun b => 0 <= b < 256) s.

(* RejNTTPoly under CTEST: exactly three bytes per coefficient, never a rejection *)
Lemma rej_ntt_ctest_exact : forall need s acc, bytes_ok s -> length s = (3 * need)%nat ->
  exists l, rej_ntt_loop true s need acc = Ok (rev acc ++ l) /\ length l = need.
Proof.
  induction need as [|need IH]; intros s acc Hb Hl.
  - destruct s; [|cbn in Hl; lia]. exists []. cbn. rewrite app_nil_r. split; reflexivity.
  - destruct s as [|b0 [|b1 [|b2 r]]]; cbn in Hl; try lia.
    inversion Hb as [|? ? H0 Hb1]; subst. inversion Hb1 as [|? ? H1 Hb2]; subst. inversion Hb2 as [|? ? H2 Hb3]; subst.
    destruct (coeff_from_three_bytes_ctest b0 b1 b2 H0 H1 H2) as (z & E & _).
    cbn [rej_ntt_loop]. rewrite E.
    destruct (IH r (z :: acc) Hb3) as (l & El & Ll); [lia|].
    exists (z :: l). rewrite El. cbn [rev]. rewrite <- app_assoc. cbn. split; [reflexivity|lia].
Qed.
(* ... and with fewer bytes the (model-only) fuel outcome, whatever the bytes are *)
Lemma rej_ntt_ctest_short : forall need s acc, bytes_ok s -> (length s < 3 * need)%nat ->
  rej_ntt_loop true s need acc = OutOfFuel.
Proof.
  induction need as [|need IH]; intros s acc Hb Hl; [lia|].
  destruct s as [|b0 [|b1 [|b2 r]]]; cbn [rej_ntt_loop]; try reflexivity.
  inversion Hb as [|? ? H0 Hb1]; subst. inversion Hb1 as [|? ? H1 Hb2]; subst. inversion Hb2 as [|? ? H2 Hb3]; subst.
  destruct (coeff_from_three_bytes_ctest b0 b1 b2 H0 H1 H2) as (z & E & _). rewrite E.
  apply IH; [exact Hb3|cbn in Hl; lia].
Qed.

(* SampleInBall under CTEST: no byte of the stream is consumed inside the loop (j = i) *)
Lemma sib_step_ctest_no_read tau h8 c s i c' s' :
  sib_step true tau h8 (c, s) i = Ok (c', s') -> s' = s.
Proof.
  unfold sib_step. cbn [bind].
  repeat match goal with |- context [bind ?m _] => destruct m; cbn [bind]; try discriminate end.
  intros E. inversion E. reflexivity.
Qed.

(* the signing loop under CTEST never takes a `continue`: exactly one attempt *)
Lemma sign_attempt_ctest_never_rejects H P sk A mu rho kappa :
  sign_attempt H true P sk A mu rho kappa <> Ok None.
Proof.
  unfold sign_attempt. cbn [negb andb].
  repeat match goal with |- context [bind ?m _] => destruct m; cbn [bind]; try discriminate end.
Qed.
