(* pk_decode and sig_decode of encodings.rs equal FIPS 204 pkDecode / sigDecode (Alg 23, 27) on every byte
   string of the right length, and never panic. *)
Require Import F204.Base.Util F204.Base.Mach F204.Base.ListLemmas F204.Gen.Params
  F204.Impl.Helpers F204.Impl.Conversion F204.Impl.Encodings F204.Spec.SpecConv
  F204.Proofs.BitPackProofs F204.Proofs.SkDecodeProofs F204.Proofs.SpecBits F204.Proofs.HintProofs.
Open Scope Z_scope.
Arguments Z.mul : simpl never.
Arguments Z.add : simpl never.
Arguments Z.sub : simpl never.
Arguments Z.pow : simpl never.

Lemma skipn_skipn' {A} (x y : nat) (l : list A) : skipn x (skipn y l) = skipn (x + y) l.
Proof.
  revert l. induction y as [|y IH]; intros l; [rewrite Nat.add_0_r; reflexivity|].
  destruct l as [|a l]; [rewrite !skipn_nil; reflexivity|]. replace (x + S y)%nat with (S (x + y)) by lia. cbn [skipn]. apply IH.
Qed.
(* FIPS-style chunking against the crate's index arithmetic *)
Lemma chunks_firstn_skipn {A} (sz : nat) : forall n (l : list A),
  chunks sz n l = map (fun i => firstn sz (skipn (i * sz) l)) (seq 0 n).
Proof.
  induction n as [|n IH]; intros l; [reflexivity|]. cbn [chunks seq map]. f_equal.
  rewrite IH. rewrite <- seq_shift, map_map. apply map_ext. intros i. rewrite skipn_skipn'. f_equal. f_equal. lia.
Qed.

Lemma zslice_as_firstn_skipn {A} (l : list A) (s : Z) (sz i : nat) : 0 <= s ->
  zslice (s + Z.of_nat i * Z.of_nat sz) (s + (Z.of_nat i + 1) * Z.of_nat sz) l = firstn sz (skipn (i * sz) (zdrop s l)).
Proof.
  intros Hs. unfold zslice, ztake, zdrop. rewrite skipn_skipn'.
  replace (Z.to_nat (s + (Z.of_nat i + 1) * Z.of_nat sz - (s + Z.of_nat i * Z.of_nat sz))) with sz by lia.
  replace (Z.to_nat (s + Z.of_nat i * Z.of_nat sz)) with (i * sz + Z.to_nat s)%nat by lia. reflexivity.
Qed.

Lemma chunks_zslice {A} (l : list A) (s : Z) (sz n : nat) : 0 <= s ->
  chunks sz n (zdrop s l) = map (fun i => zslice (s + Z.of_nat i * Z.of_nat sz) (s + (Z.of_nat i + 1) * Z.of_nat sz) l) (seq 0 n).
Proof.
  intros Hs. rewrite chunks_firstn_skipn. apply map_ext. intros i. symmetry. apply zslice_as_firstn_skipn. exact Hs.
Qed.

Lemma firstn_skipn_bytes_ok l a b : HintProofs.bytes_ok l -> HintProofs.bytes_ok (zslice a b l).
Proof. intros H. unfold zslice, ztake, zdrop. apply Forall_firstn, Forall_skipn. exact H. Qed.

(* ---------- Algorithm 23 ---------- *)
Theorem pk_decode_spec P pk : In P all_params -> BitPackProofs.bytes_ok pk -> zlen pk = p_pk_len P ->
  pk_decode P pk = Ok (pkDecode (p_k P) pk).
Proof.
  intros HP Hb Hlen.
  assert (Hk : p_pk_len P = 32 + 32 * kz P * BLQD /\ 0 <= kz P <= 8) by (destruct HP as [<-|[<-|[<-|[]]]]; (split; [reflexivity|unfold kz; cbn; lia])).
  destruct Hk as [Hpk Hkr]. unfold pk_decode, pkDecode. rewrite Hlen, Hpk, Z.eqb_refl. cbn [guard bind].
  change BLQD with 10 in *. change T1MAX with 1023. change bl_t1 with 10. change t1_max with 1023.
  change (Z.to_nat (32 * 10)) with 320%nat.
  rewrite (chunks_zslice pk 32 320 (p_k P)) by lia.
  set (f := fun i : nat => zslice (32 + Z.of_nat i * Z.of_nat 320) (32 + (Z.of_nat i + 1) * Z.of_nat 320) pk).
  assert (Hchunk : forall i, In i (seq 0 (p_k P)) -> simple_bit_unpack (f i) 1023 = Ok (SimpleBitUnpack (f i) 1023) /\ is_in_range (SimpleBitUnpack (f i) 1023) 0 1023 = true).
  { intros i Hi. apply in_seq in Hi. unfold kz in *.
    assert (Hl : Z.of_nat (length (f i)) = 32 * Helpers.bitlen (0 + 1023)).
    { unfold f. rewrite zslice_length; [change (Helpers.bitlen (0 + 1023)) with 10|..]; lia. }
    assert (Hbf : BitPackProofs.bytes_ok (f i)) by (unfold f; apply zslice_bytes_ok; exact Hb).
    assert (Hab : valid_ab 0 1023) by (unfold valid_ab; lia).
    destruct (bit_unpack_total 0 1023 (f i) Hab ltac:(reflexivity) Hbf Hl) as (w & Ew & Hlw & Hrw).
    unfold simple_bit_unpack. cbn [guard bind Z.leb Z.ltb Z.compare andb Pos.compare Pos.compare_cont].
    replace (zlen (f i) =? 32 * Helpers.bitlen 1023) with true by (symmetry; apply Z.eqb_eq; exact Hl). cbn [guard bind].
    rewrite Ew. rewrite (simple_bit_unpack_is_Spec 1023 (f i) w Hab Hbf Ew) in *. split; [reflexivity|exact Hrw]. }
  assert (Hm : mapM (fun i : nat => simple_bit_unpack (zslice (32 + 32 * Z.of_nat i * 10) (32 + 32 * (Z.of_nat i + 1) * 10) pk) 1023) (seq 0 (p_k P))
               = Ok (map (fun i => SimpleBitUnpack (f i) 1023) (seq 0 (p_k P)))).
  { apply mapM_ok. intros i Hi. destruct (Hchunk i Hi) as [E _].
    unfold f in E. replace (32 + 32 * Z.of_nat i * 10) with (32 + Z.of_nat i * Z.of_nat 320) by lia.
    replace (32 + 32 * (Z.of_nat i + 1) * 10) with (32 + (Z.of_nat i + 1) * Z.of_nat 320) by lia. exact E. }
  rewrite Hm. cbn [bind].
  replace (forallb (fun t => is_in_range t 0 1023) (map (fun i => SimpleBitUnpack (f i) 1023) (seq 0 (p_k P)))) with true.
  - cbn [guard bind]. unfold ztake, zslice, zdrop. cbn [Z.to_nat Z.sub]. rewrite map_map. reflexivity.
  - symmetry. apply forallb_forall. intros t Ht. apply in_map_iff in Ht as (i & <- & Hi). apply (Hchunk i Hi).
Qed.

(* ---------- Algorithm 27 ---------- *)
Definition sig_decode_result (r : bytes * list (list Z) * option (list (list Z))) : res (bytes * list (list Z) * list (list Z)) :=
  match r with (c, z, Some h) => Ok (c, z, h) | (_, _, None) => Err Malformed end.

Lemma sig_params P : In P all_params ->
  (p_gamma1 P = 131072 \/ p_gamma1 P = 524288) /\ p_sig_len P = sig_len_formula P /\ 0 <= lz P <= 7 /\ 0 <= kz P <= 8
  /\ 0 <= p_omega P /\ 1 <= p_omega P + kz P < 256 /\ 0 <= p_lambda_div4 P.
Proof. intros [<-|[<-|[<-|[]]]]; unfold lz, kz; cbn; repeat split; try lia; auto. Qed.

Theorem sig_decode_spec P sigma : In P all_params -> BitPackProofs.bytes_ok sigma -> zlen sigma = p_sig_len P ->
  sig_decode P sigma = sig_decode_result (sigDecode P sigma).
Proof.
  intros HP Hb Hlen. destruct (sig_params P HP) as (Hg & Hform & Hl & Hk & Hom & Homk & Hld).
  unfold sig_decode, sigDecode. rewrite Hform, Z.eqb_refl. cbn [guard bind].
  set (g1 := p_gamma1 P) in *. set (ld4 := p_lambda_div4 P) in *.
  set (c := Helpers.bitlen (g1 - 1) + 1).
  assert (Hc : c = 18 \/ c = 20) by (unfold c; destruct Hg as [E|E]; rewrite E; [left|right]; reflexivity).
  assert (Hcb : Helpers.bitlen (g1 - 1 + g1) = c) by (unfold c; destruct Hg as [E|E]; rewrite E; reflexivity).
  assert (Hspecstep : (32 * (1 + SpecConv.bitlen (g1 - 1)))%nat = Z.to_nat (32 * c)).
  { unfold c. destruct Hg as [E|E]; rewrite E; reflexivity. }
  rewrite Hspecstep. set (step := Z.to_nat (32 * c)).
  assert (Hstepz : Z.of_nat step = 32 * c) by (unfold step; destruct Hc as [E|E]; rewrite E; reflexivity).
  assert (Hsl : zlen sigma = ld4 + lz P * (32 * c) + p_omega P + kz P).
  { rewrite Hlen, Hform. unfold sig_len_formula. fold g1 ld4. unfold c. rewrite Z.abs_eq by lia. lia. }
  rewrite (chunks_zslice sigma ld4 step (p_l P)) by lia.
  set (f := fun i : nat => zslice (ld4 + Z.of_nat i * Z.of_nat step) (ld4 + (Z.of_nat i + 1) * Z.of_nat step) sigma).
  assert (Hab : valid_ab (g1 - 1) g1) by (unfold valid_ab; destruct Hg as [E|E]; rewrite E; lia).
  assert (Hchunk : forall i, In i (seq 0 (p_l P)) -> bit_unpack (f i) (g1 - 1) g1 = Ok (BitUnpack (f i) (g1 - 1) g1)).
  { intros i Hi. apply in_seq in Hi. unfold lz in *.
    assert (Hlf : Z.of_nat (length (f i)) = 32 * Helpers.bitlen (g1 - 1 + g1)).
    { unfold f. rewrite zslice_length; [rewrite Hcb; lia| destruct Hc as [E|E]; rewrite E in *; lia | destruct Hc as [E|E]; rewrite E in *; nia]. }
    assert (Hbf : BitPackProofs.bytes_ok (f i)) by (unfold f; apply zslice_bytes_ok; exact Hb).
    destruct (bit_unpack_total (g1 - 1) g1 (f i) Hab) as (w & Ew & _ & _); try assumption.
    { destruct Hg as [E|E]; rewrite E; reflexivity. }
    rewrite Ew. f_equal. apply (bit_unpack_is_BitUnpack (g1 - 1) g1 (f i) w); try assumption. destruct Hg as [E|E]; rewrite E; lia. }
  assert (Hm : mapM (fun i : nat => bit_unpack (zslice (ld4 + Z.of_nat i * (32 * c)) (ld4 + (Z.of_nat i + 1) * (32 * c)) sigma) (g1 - 1) g1) (seq 0 (p_l P))
               = Ok (map (fun i => BitUnpack (f i) (g1 - 1) g1) (seq 0 (p_l P)))).
  { apply mapM_ok. intros i Hi. rewrite <- Hstepz. exact (Hchunk i Hi). }
  rewrite Hm. cbn [bind]. rewrite map_map.
  (* hint section *)
  assert (Hy : zdrop (ld4 + lz P * (32 * c)) sigma = skipn (step * p_l P) (zdrop ld4 sigma)).
  { unfold zdrop. rewrite skipn_skipn'. f_equal. unfold lz. lia. }
  rewrite Hy. set (y := skipn (step * p_l P) (zdrop ld4 sigma)).
  assert (Hyl : zlen y = p_omega P + Z.of_nat (p_k P)).
  { unfold y, zdrop, zlen in *. rewrite !skipn_length. unfold lz, kz in *. lia. }
  assert (Hyb : HintProofs.bytes_ok y) by (unfold y, zdrop; apply Forall_skipn, Forall_skipn; exact Hb).
  rewrite (hint_bit_unpack_spec (p_k P) (p_omega P) y Hom Homk Hyl Hyb).
  unfold ztake, zslice, zdrop. cbn [Z.to_nat Z.sub]. replace (ld4 - 0) with ld4 by lia.
  destruct (HintBitUnpack (p_omega P) (p_k P) y); reflexivity.
Qed.
