(* C11: the public key derived from a private key is the struct built from Power2Round(A s1 + s2):
   for a generated key pair it IS the generated public key (same struct, hence same bytes and same
   verification decisions), also after the private key made a serialisation round trip. *)
Require Import List ZArith Lia Bool. Import ListNotations.
Require Import F204.Spec.SpecConv F204.Spec.SpecRound F204.Spec.SpecNtt F204.Spec.SpecSample F204.Spec.SpecMLDSA.
Require Import F204.Base.Util F204.Base.Mach F204.Base.Bits F204.Base.ListLemmas F204.Gen.Params F204.Hash.HashIface
  F204.Impl.Helpers F204.Impl.Ntt F204.Impl.HighLow F204.Impl.Conversion F204.Impl.Encodings F204.Impl.Hashing F204.Impl.MlDsa F204.Impl.Api
  F204.Proofs.KernelLemmas F204.Proofs.NttRefine F204.Proofs.NttRing F204.Proofs.NttPipeline F204.Proofs.BitPackProofs
  F204.Proofs.SkDecodeProofs F204.Proofs.SampleRefine F204.Proofs.SibRefine F204.Proofs.VerifyParts F204.Proofs.VerifyRefine F204.Proofs.RelMap
  F204.Proofs.KeyRoundTrip F204.Proofs.PackRefine F204.Proofs.KeygenRefine.
Open Scope Z_scope.
Ltac Zify.zify_post_hook ::= Z.div_mod_to_equations.
Arguments Z.mul : simpl never. Arguments Z.add : simpl never. Arguments Z.sub : simpl never.

Section D.
Variable H : Hashes.
Hypothesis HL : HashLaws H.
Variable P : Params.
Hypothesis HP : In P all_params.

(* the public-key components FIPS 204 derives from (rho, s1, s2) *)
Definition t_of (A : list (list (list Z))) (s1 s2 : list (list Z)) : list (list Z) :=
  vadd (vinvNTT (MatrixVectorNTT A (vNTT s1))) (map (map modq) s2).
Definition t1_of A s1 s2 := map (map (fun r => fst (Power2Round r))) (t_of A s1 s2).

Theorem derive_refines sk rho K tr s1 s2 t0 : zlen rho = 32 -> sk_repr P sk rho K tr s1 s2 t0 ->
  get_public_key H P sk = match ExpandA H P rho with
                          | None => OutOfFuel
                          | Some A => pk_of rho tr (t1_of A s1 s2)
                          end.
Proof.
  intros Lr (Er & Ek & Et & M1 & M2 & M3 & R1 & R2 & R3).
  pose proof (eta_small P HP) as He. destruct (kl_small P HP) as [Hk Hl].
  unfold get_public_key, private_to_public_key. rewrite Er, Et.
  rewrite (expand_a_spec H HL P rho HP Lr). destruct (ExpandA H P rho) as [A|] eqn:EA; cbn [res_fuel bind]; [|reflexivity].
  destruct (ExpandA_shape H HL P _ _ EA) as [LA RA].
  (* s1_hat: congruent to NTT s1, bounded by q *)
  destruct (unmont_rel _ _ M1) as (u1 & Eu1 & Ru1). rewrite Eu1. cbn [bind].
  pose proof (poly256_rows _ _ (range_poly256 s1 (p_eta P) (p_eta P) NTT_IN ltac:(unfold NTT_IN; lia) ltac:(unfold NTT_IN; lia) (proj1 R1))) as Ls1.
  destruct (crel_poly256 Q 67058538 u1 _ ltac:(unfold Q; lia) Ru1 (vNTT_rows s1 Ls1)) as [Pu1 Cu1].
  (* s2 recovered exactly *)
  pose proof (unmont_inv_recenter_ok _ s2 M2 (range_poly256 s2 (p_eta P) (p_eta P) Q_HALF ltac:(unfold Q_HALF, Q; cbn; lia) ltac:(unfold Q_HALF, Q; cbn; lia) (proj1 R2))) as Es2.
  unfold unmont_inv_recenter in Es2.
  destruct (unmont (sk_s_2_hat_mont sk)) as [u2| | |]; cbn [bind] in Es2 |- *; try discriminate.
  destruct (inv_ntt u2) as [v2| | |]; cbn [bind] in Es2 |- *; try discriminate.
  rewrite Es2. cbn [bind].
  (* A s1 *)
  assert (Hlu : length u1 = p_l P).
  { apply Forall2_length in Ru1. unfold vNTT in Ru1. rewrite map_length in Ru1. destruct R1 as [_ L1]. lia. }
  destruct (mat_vec_mul_ok A u1) as (w & Ew & Bw & Cw & Lw).
  { rewrite Hlu. exact RA. }
  { eapply Forall_impl; [|exact Pu1]. intros p Hp. exact Hp. }
  { lia. }
  rewrite Ew. cbn [bind]. rewrite inv_ntt_vec_ok.
  2:{ clear - Bw Lw. induction Bw as [|p w Hb Bw IH]; inversion Lw; subst; constructor; [|apply IH; assumption].
      split; [|assumption]. eapply bounded_mono; [|exact Hb]. unfold MM_OUT, PR32_BOUND. lia. }
  cbn [bind].
  assert (Ev : vinvNTT w = vinvNTT (MatrixVectorNTT A (vNTT s1))).
  { apply vinvNTT_cong. eapply Forall2_trans; [|exact Cw|apply MatrixVectorNTT_cong; exact Cu1].
    intros a b c Hab Hbc. eapply Forall2_congQ_trans; eassumption. }
  rewrite Ev.
  destruct (MatrixVectorNTT_rows (p_l P) A (vNTT s1) ltac:(exact RA) (vNTT_rows _ Ls1)) as [Lm Lml].
  destruct (vinvNTT_shape _ Lm) as [Sv Lv].
  rewrite <- (bind_assoc (add_vector_ntt _ _)).
  rewrite (add_reduce_vec _ s2 (p_eta P) He Sv ltac:(apply R2)) by (rewrite Lv, Lml, LA; destruct R2 as [_ ->]; reflexivity).
  cbn [bind]. fold (t_of A s1 s2).
  rewrite power2round_spec.
  2:{ unfold t_of, vadd. apply (map2_Forall padd (fun _ => True) (fun _ => True)); [intros; apply padd_range|apply Forall_forall; auto|apply Forall_forall; auto]. }
  cbn [bind]. reflexivity.
Qed.

Lemma t1_of_shape rho A s1 s2 : ExpandA H P rho = Some A ->
  rvec (p_eta P) (p_eta P) (p_l P) s1 -> rvec (p_eta P) (p_eta P) (p_k P) s2 -> rvec 0 1023 (p_k P) (t1_of A s1 s2).
Proof.
  intros EA R1 R2. destruct (ExpandA_shape H HL P _ _ EA) as [LA RA].
  assert (L1 : Forall (fun p => length p = 256%nat) s1) by (eapply Forall_impl; [|apply R1]; intros p Hp; apply Hp).
  destruct (MatrixVectorNTT_rows (p_l P) A (vNTT s1) ltac:(exact RA) (vNTT_rows _ L1)) as [Lm Lml].
  destruct (vinvNTT_shape _ Lm) as [Sv Lv].
  assert (Ht : Forall (fun p => length p = 256%nat /\ Forall (fun x => 0 <= x < Q) p) (t_of A s1 s2) /\ length (t_of A s1 s2) = p_k P).
  { unfold t_of, vadd. split.
    - apply (map2_Forall padd (fun p => length p = 256%nat /\ Forall (fun x => 0 <= x < Q) p) (fun p => length p = 256%nat)).
      + intros a b [La _] Lb. split; [apply padd_length; assumption|apply padd_range].
      + exact Sv.
      + rewrite Forall_map. destruct R2 as [R2 _]. eapply Forall_impl; [|exact R2]. intros p [Lp _]. rewrite map_length. exact Lp.
    - rewrite map2_length, Lv, Lml, map_length, LA. destruct R2 as [_ ->]. lia. }
  unfold t1_of. split; [|rewrite map_length; apply Ht].
  destruct Ht as [Ht _]. rewrite Forall_map. eapply Forall_impl; [|exact Ht]. intros p [Lp Rp]. split; [rewrite map_length; exact Lp|].
  rewrite Forall_map. eapply Forall_impl; [|exact Rp]. intros r Hr. change (- 0) with 0. apply (Power2Round_ranges r Hr).
Qed.

(* derivation never panics on a represented key *)
Theorem derive_no_panic sk rho K tr s1 s2 t0 : zlen rho = 32 -> sk_repr P sk rho K tr s1 s2 t0 ->
  is_panic (get_public_key H P sk) = false.
Proof.
  intros Lr Hrep. rewrite (derive_refines sk rho K tr s1 s2 t0 Lr Hrep).
  destruct (ExpandA H P rho) as [A|] eqn:EA; [|reflexivity].
  destruct Hrep as (_ & _ & _ & _ & _ & _ & R1 & R2 & _).
  destruct (build_pk_repr P rho tr _ (t1_of_shape rho A s1 s2 EA R1 R2)) as (a & Ea & _).
  unfold pk_of. rewrite Ea. reflexivity.
Qed.

(* generated key pairs *)
Theorem derive_generated xi pk sk : key_gen_internal H false P xi = Ok (pk, sk) -> get_public_key H P sk = Ok pk.
Proof.
  intros E. rewrite (keygen_refines H HL P HP xi) in E.
  destruct (KeyGen_parts H P xi) as [[[[[[[rho K] tr] s1] s2] t0] t1]|] eqn:EP; [|discriminate].
  destruct (KeyGen_parts_shape H HL P HP xi _ _ _ _ _ _ _ EP) as (Lr & _ & _ & R1 & R2 & R3 & R4).
  destruct (pk_of rho tr t1) as [pk'| | |] eqn:Epk; cbn [bind] in E; try discriminate.
  destruct (sk_of rho K tr s1 s2 t0) as [sk'| | |] eqn:Esk; cbn [bind] in E; try discriminate.
  injection E as <- <-.
  rewrite (derive_refines sk' rho K tr s1 s2 t0 Lr (sk_of_repr P _ _ _ _ _ _ sk' HP R1 R2 R3 Esk)).
  unfold KeyGen_parts in EP. cbv zeta in EP.
  set (h := h_shake256 H _ 128) in *.
  destruct (ExpandA H P (zslice 0 32 h)) as [A|] eqn:EA; [|discriminate].
  destruct (ExpandS H P (zslice 32 96 h)) as [[s1' s2']|] eqn:ES; [|discriminate].
  injection EP as <- <- <- <- <- <- <-. rewrite EA. exact Epk.
Qed.
End D.

(* ---------- generated keys survive a serialisation round trip as the same structs ---------- *)
Section G.
Variable H : Hashes.
Hypothesis HL : HashLaws H.
Variable P : Params.
Hypothesis HP : In P all_params.

Theorem generated_roundtrip xi pk sk : key_gen_internal H false P xi = Ok (pk, sk) ->
  exists pkb skb, bytes_ok pkb /\ zlen pkb = p_pk_len P /\ bytes_ok skb /\ zlen skb = p_sk_len P /\
    pk_into_bytes P pk = Ok pkb /\ pk_try_from_bytes H P pkb = Ok pk /\
    sk_into_bytes P sk = Ok skb /\ sk_try_from_bytes P skb = Ok sk.
Proof.
  intros E. rewrite (keygen_refines H HL P HP xi) in E.
  destruct (KeyGen_parts H P xi) as [[[[[[[rho K] tr] s1] s2] t0] t1]|] eqn:EP; [|discriminate].
  destruct (KeyGen_parts_shape H HL P HP xi _ _ _ _ _ _ _ EP) as (Lr & LK & Lt & R1 & R2 & R3 & R4).
  destruct (pk_of rho tr t1) as [pk'| | |] eqn:Epk; cbn [bind] in E; try discriminate.
  destruct (sk_of rho K tr s1 s2 t0) as [sk'| | |] eqn:Esk; cbn [bind] in E; try discriminate.
  injection E as <- <-.
  (* the byte components are hash outputs *)
  unfold KeyGen_parts in EP. cbv zeta in EP. set (h := h_shake256 H _ 128) in *.
  destruct (ExpandA H P (zslice 0 32 h)) as [A|] eqn:EA; [|discriminate].
  destruct (ExpandS H P (zslice 32 96 h)) as [[s1' s2']|] eqn:ES; [|discriminate].
  injection EP as Erho EK Etr E1 E2 E3 E4.
  assert (Bh : bytes_ok h) by (apply (shake256_ok H HL)).
  assert (Br : bytes_ok rho) by (rewrite <- Erho; apply zslice_bytes_ok; exact Bh).
  assert (BK : bytes_ok K) by (rewrite <- EK; apply zslice_bytes_ok; exact Bh).
  assert (Bt : bytes_ok tr) by (rewrite <- Etr; apply (shake256_ok H HL)).
  destruct (pk_struct_roundtrip H P rho t1 pk' HP Lr Br R4) as (pkb & Ei & Bp & Lp & Et).
  { intros pkb Ee. rewrite (pk_encode_spec P rho t1 HP R4) in Ee. injection Ee as <-.
    rewrite <- Epk. f_equal. rewrite <- Etr, <- Erho, <- E4. reflexivity. }
  destruct (sk_struct_roundtrip P rho K tr s1 s2 t0 sk' HP Lr LK Lt Br BK Bt R1 R2 R3 Esk) as (skb & Ei2 & Bs & Ls & Et2).
  exists pkb, skb. repeat split; assumption.
Qed.
End G.
