(* Injectivity of the formatted-message encoding M' (C06): domain byte, one length byte, context,
   then M or OID || PH(M). *)
Require Import F204.Base.Util F204.Base.Mach F204.Gen.Params F204.Gen.Guards F204.Gen.Oids.
Open Scope Z_scope.

Definition fmt (d : Z) (ctx body : bytes) : bytes := [d] ++ [len_byte (zlen ctx)] ++ ctx ++ body.

Lemma app_eq_len {A} (a b c d : list A) : length a = length c -> a ++ b = c ++ d -> a = c /\ b = d.
Proof.
  revert c. induction a as [|x a IH]; intros [|y c] Hl E; cbn in *; try discriminate.
  - split; [reflexivity|exact E].
  - inversion E; subst. destruct (IH c) as [-> ->]; [lia|assumption|]. split; reflexivity.
Qed.

Lemma fmt_injective d d' ctx ctx' body body' :
  zlen ctx <= 255 -> zlen ctx' <= 255 ->
  fmt d ctx body = fmt d' ctx' body' -> d = d' /\ ctx = ctx' /\ body = body'.
Proof.
  intros H1 H2 E. unfold fmt in E. cbn [app] in E. inversion E as [[Ed El Er]].
  unfold len_byte, zlen in *.
  rewrite !Z.mod_small in El by lia.
  apply app_eq_len in Er; [|lia]. destruct Er as [-> ->]. repeat split.
Qed.

(* the two domain bytes are different, so pure and pre-hash inputs never coincide *)
Lemma domains_distinct : dom_pure <> dom_hash. Proof. discriminate. Qed.

(* OIDs: all 11 bytes long and pairwise different, so OID || digest splits uniquely *)
Lemma oid_len p : length (ph_oid p) = 11%nat. Proof. destruct p; reflexivity. Qed.
Lemma oid_injective p p' : ph_oid p = ph_oid p' -> p = p'.
Proof. destruct p, p'; cbn; intros E; try reflexivity; discriminate. Qed.
Lemma hash_body_injective p p' phm phm' : ph_oid p ++ phm = ph_oid p' ++ phm' -> p = p' /\ phm = phm'.
Proof.
  intros E. apply app_eq_len in E; [|now rewrite !oid_len].
  destruct E as [E1 E2]. split; [now apply oid_injective|assumption].
Qed.
