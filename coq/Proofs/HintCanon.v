(* Hint sections are canonical (FIPS 204 Algorithms 20/21, specification level):
     HintBitUnpack y = Some h  ->  HintBitPack h = y           (an accepted section re-encodes to itself)
     HintBitUnpack (HintBitPack h) = Some h                      (for 0/1 vectors of weight <= omega)  *)
Require Import List ZArith Lia Bool. Import ListNotations.
Require Import F204.Spec.SpecConv.
Require Import F204.Base.Util F204.Base.Mach F204.Base.ListLemmas F204.Gen.Params F204.Impl.Helpers
  F204.Proofs.BitPackProofs F204.Proofs.HintProofs F204.Proofs.VerifyParts F204.Proofs.KeyRoundTrip F204.Proofs.HintPack.
Open Scope Z_scope.
Ltac Zify.zify_post_hook ::= Z.div_mod_to_equations.
Arguments Z.mul : simpl never. Arguments Z.add : simpl never. Arguments Z.sub : simpl never.

(* ---------- membership and the two views of a hint polynomial ---------- *)
Definition memZ (x : Z) (l : list Z) : bool := existsb (Z.eqb x) l.

Lemma nth_upd_same (l : list Z) i v d : (i < length l)%nat -> nth i (upd l i v) d = v.
Proof. revert i. induction l as [|x l IH]; intros i Hi; [cbn in Hi; lia|]. destruct i; [reflexivity|]. cbn. apply IH. cbn in Hi. lia. Qed.
Lemma nth_upd_other (l : list Z) i j v d : j <> i -> nth j (upd l i v) d = nth j l d.
Proof. revert i j. induction l as [|x l IH]; intros i j Hij; [destruct i; reflexivity|]. destruct i, j; cbn; try reflexivity; try lia. apply IH. lia. Qed.

Lemma nth_set_bits (pos : list Z) : forall (p : list Z) (j : nat),
  Forall (fun x => 0 <= x < Z.of_nat (length p)) pos ->
  nth j (fold_left (fun p j => zupd p j 1) pos p) 0 = if memZ (Z.of_nat j) pos then 1 else nth j p 0.
Proof.
  induction pos as [|x pos IH]; intros p j Hp; [reflexivity|]. inversion Hp as [|? ? Hx Hp']; subst.
  cbn [fold_left memZ existsb]. rewrite IH by (rewrite zupd_length; exact Hp'). fold (memZ (Z.of_nat j) pos).
  destruct (memZ (Z.of_nat j) pos); [rewrite orb_true_r; reflexivity|]. rewrite orb_false_r. unfold zupd.
  destruct (Z.of_nat j =? x) eqn:E.
  - apply Z.eqb_eq in E. subst x. rewrite Nat2Z.id. apply nth_upd_same. lia.
  - apply Z.eqb_neq in E. apply nth_upd_other. lia.
Qed.
Lemma nth_set_ones pos j : Forall (fun x => 0 <= x < 256) pos -> nth j (set_ones pos) 0 = if memZ (Z.of_nat j) pos then 1 else 0.
Proof.
  intros Hp. unfold set_ones. rewrite nth_set_bits by (unfold zeros; rewrite repeat_length; exact Hp).
  destruct (memZ _ pos); [reflexivity|]. unfold zeros. destruct (Nat.lt_ge_cases j 256) as [Hj|Hj]; [apply nth_repeat|apply nth_overflow; rewrite repeat_length; lia].
Qed.

Lemma hint_positions_filter (p : list Z) :
  hint_positions p = map Z.of_nat (filter (fun j => negb (nth j p 0 =? 0)) (seq 0 (length p))).
Proof.
  unfold hint_positions.
  assert (G : forall s, map (fun x : nat * Z => Z.of_nat (fst x)) (filter (fun x => negb (snd x =? 0)) (combine (seq s (length p)) p))
                       = map Z.of_nat (filter (fun j => negb (nth (j - s) p 0 =? 0)) (seq s (length p)))).
  { induction p as [|x p IH]; intros s; [reflexivity|]. cbn [length seq combine filter snd]. rewrite Nat.sub_diag. change (nth 0 (x :: p) 0) with x.
    assert (Hext : filter (fun j => negb (nth (j - s) (x :: p) 0 =? 0)) (seq (S s) (length p)) = filter (fun j => negb (nth (j - S s) p 0 =? 0)) (seq (S s) (length p))).
    { apply filter_ext_in. intros j Hj. apply in_seq in Hj. replace (j - s)%nat with (S (j - S s)) by lia. reflexivity. }
    destruct (x =? 0); cbn [negb map fst]; rewrite IH, Hext; reflexivity. }
  rewrite (G 0%nat). f_equal. apply filter_ext. intros j. rewrite Nat.sub_0_r. reflexivity.
Qed.

Fixpoint all_gt (x : Z) (l : list Z) : Prop := match l with [] => True | y :: r => x < y /\ all_gt x r end.
Lemma strictly_increasing_gt x l : strictly_increasing (x :: l) = true -> all_gt x l /\ strictly_increasing l = true.
Proof.
  revert x. induction l as [|y l IH]; intros x H; [split; [exact I|reflexivity]|].
  rewrite strictly_increasing_cons in H. apply andb_prop in H as [H1 H2]. unfold inc_head in H1. apply Z.ltb_lt in H1.
  destruct (IH y H2) as [G _]. split; [|exact H2]. split; [exact H1|].
  clear - G H1. induction l as [|z l IHl]; [exact I|]. destruct G as [Gz Gl]. split; [lia|apply IHl; exact Gl].
Qed.
Lemma memZ_all_gt x l : all_gt x l -> forall y, y <= x -> memZ y l = false.
Proof. induction l as [|z l IH]; intros G y Hy; [reflexivity|]. destruct G as [Gz Gl]. cbn [memZ existsb]. replace (y =? z) with false by (symmetry; apply Z.eqb_neq; lia). apply IH; assumption. Qed.

Lemma all_gt_Forall x l : all_gt x l -> Forall (fun y => x < y) l.
Proof. induction l as [|y l IH]; intros G; [constructor|]. destruct G as [Gy Gl]. constructor; [exact Gy|apply IH; exact Gl]. Qed.

(* filtering the enumeration s, s+1, ... by membership in a strictly increasing list returns the list *)
Lemma sorted_filter : forall n s pos, strictly_increasing pos = true -> Forall (fun x => Z.of_nat s <= x < Z.of_nat (s + n)) pos ->
  map Z.of_nat (filter (fun j => memZ (Z.of_nat j) pos) (seq s n)) = pos.
Proof.
  induction n as [|n IH]; intros s pos Hs Hr.
  - destruct pos as [|x pos]; [reflexivity|]. inversion Hr; subst. lia.
  - cbn [seq filter]. destruct pos as [|x pos].
    + cbn [memZ existsb]. apply (IH (S s) []); [reflexivity|constructor].
    + inversion Hr as [|? ? Hx Hr']; subst. destruct (strictly_increasing_gt x pos Hs) as [G Hs'].
      cbn [memZ existsb]. destruct (Z.of_nat s =? x) eqn:E.
      * apply Z.eqb_eq in E. cbn [orb map]. f_equal; [exact E|].
        rewrite (filter_ext_in _ (fun j => memZ (Z.of_nat j) pos)).
        -- apply IH; [exact Hs'|]. pose proof (all_gt_Forall x pos G) as GF. rewrite Forall_forall in *. intros y Hy. specialize (GF y Hy). specialize (Hr' y Hy). lia.
        -- intros j Hj. apply in_seq in Hj. cbn [memZ existsb]. replace (Z.of_nat j =? x) with false by (symmetry; apply Z.eqb_neq; lia). reflexivity.
      * apply Z.eqb_neq in E. fold (memZ (Z.of_nat s) pos). rewrite (memZ_all_gt x pos G (Z.of_nat s)) by lia. cbn [orb].
        apply (IH (S s) (x :: pos) Hs). constructor; [lia|].
        pose proof (all_gt_Forall x pos G) as GF. rewrite Forall_forall in *. intros y Hy. specialize (GF y Hy). specialize (Hr' y Hy). lia.
Qed.

(* A: the positions of set_ones pos are pos *)
Lemma positions_set_ones pos : strictly_increasing pos = true -> Forall (fun x => 0 <= x < 256) pos ->
  hint_positions (set_ones pos) = pos.
Proof.
  intros Hs Hr. rewrite hint_positions_filter. destruct (set_ones_hint pos) as [Hl _]. rewrite Hl.
  rewrite (filter_ext_in _ (fun j => memZ (Z.of_nat j) pos)).
  - apply sorted_filter; [exact Hs|]. eapply Forall_impl; [|exact Hr]. cbn beta. intros; lia.
  - intros j _. rewrite (nth_set_ones pos j Hr). destruct (memZ (Z.of_nat j) pos); reflexivity.
Qed.

(* the filtered enumeration is strictly increasing and in range *)
Lemma filter_seq_sorted (f : nat -> bool) : forall n s,
  strictly_increasing (map Z.of_nat (filter f (seq s n))) = true
  /\ Forall (fun x => Z.of_nat s <= x < Z.of_nat (s + n)) (map Z.of_nat (filter f (seq s n))).
Proof.
  induction n as [|n IH]; intros s; [split; [reflexivity|constructor]|].
  destruct (IH (S s)) as [I1 I2]. cbn [seq filter]. destruct (f s); cbn [map].
  - split.
    + rewrite strictly_increasing_cons, I1, andb_true_r. unfold inc_head.
      destruct (map Z.of_nat (filter f (seq (S s) n))) as [|y r] eqn:E; [reflexivity|]. inversion I2; subst. apply Z.ltb_lt. lia.
    + constructor; [lia|]. eapply Forall_impl; [|exact I2]. cbn beta. intros; lia.
  - split; [exact I1|]. eapply Forall_impl; [|exact I2]. cbn beta. intros; lia.
Qed.
Lemma hint_positions_sorted p : length p = 256%nat ->
  strictly_increasing (hint_positions p) = true /\ Forall (fun x => 0 <= x < 256) (hint_positions p).
Proof.
  intros Hl. rewrite hint_positions_filter, Hl. destruct (filter_seq_sorted (fun j => negb (nth j p 0 =? 0)) 256 0) as [S1 S2].
  split; [exact S1|]. eapply Forall_impl; [|exact S2]. cbn beta. intros; lia.
Qed.
Lemma memZ_map_filter (f : nat -> bool) (j : nat) n : (j < n)%nat -> memZ (Z.of_nat j) (map Z.of_nat (filter f (seq 0 n))) = f j.
Proof.
  intros Hj. unfold memZ. destruct (f j) eqn:E.
  - apply existsb_exists. exists (Z.of_nat j). split; [|apply Z.eqb_refl]. apply in_map. apply filter_In. split; [apply in_seq; lia|exact E].
  - apply not_true_iff_false. intros Hex. apply existsb_exists in Hex as (x & Hin & Hx). apply Z.eqb_eq in Hx. subst x.
    apply in_map_iff in Hin as (i & Hi & Hin). apply Nat2Z.inj in Hi. subst i. apply filter_In in Hin as [_ Hf]. congruence.
Qed.
(* B: a 0/1 polynomial is set_ones of its positions *)
Lemma set_ones_positions p : length p = 256%nat -> Forall (fun e => - 0 <= e <= 1) p -> set_ones (hint_positions p) = p.
Proof.
  intros Hl Hr. destruct (hint_positions_sorted p Hl) as [_ Hrange]. destruct (set_ones_hint (hint_positions p)) as [Hls _].
  apply (nth_ext _ _ 0 0); [congruence|]. intros j Hj. rewrite Hls in Hj.
  rewrite (nth_set_ones _ j Hrange). rewrite hint_positions_filter, Hl, (memZ_map_filter _ j 256 Hj).
  assert (Hx : - 0 <= nth j p 0 <= 1) by (rewrite Forall_forall in Hr; apply Hr, nth_In; lia).
  destruct (nth j p 0 =? 0) eqn:E; [apply Z.eqb_eq in E|apply Z.eqb_neq in E]; cbn [negb]; lia.
Qed.

(* ---------- unpack then pack ---------- *)
Lemma zslice_len_exact {A} (l : list A) a b : 0 <= a <= b -> b <= zlen l -> zlen (zslice a b l) = b - a.
Proof. intros H1 H2. unfold zlen at 1. apply SkDecodeProofs.zslice_length; assumption. Qed.

Lemma unpack_loop_pack omega y : bytes_ok y -> omega <= zlen y ->
  forall counts index acc h idxf, 0 <= index <= omega ->
  HintBitUnpack_loop omega y counts index acc = Some (h, idxf) ->
  index <= idxf <= omega /\
  exists hs, h = rev acc ++ hs /\ length hs = length counts /\
    forall I C, zlen I = index -> HintBitPack_loop hs I C = (I ++ zslice index idxf y, C ++ counts).
Proof.
  intros Hb Hom. induction counts as [|c counts IH]; intros index acc h idxf Hi E; cbn [HintBitUnpack_loop] in E.
  - injection E as <- <-. split; [lia|]. exists []. split; [rewrite app_nil_r; reflexivity|]. split; [reflexivity|].
    intros I C _. cbn [HintBitPack_loop]. rewrite zslice_nil, !app_nil_r. reflexivity.
  - destruct ((c <? index) || (omega <? c)) eqn:Ec; [discriminate|]. apply orb_false_elim in Ec as [E1 E2]. apply Z.ltb_ge in E1, E2.
    destruct (strictly_increasing (zslice index c y)) eqn:Es; [|discriminate].
    destruct (IH c (set_ones (zslice index c y) :: acc) h idxf ltac:(lia) E) as (Hr & hs & Eh & Lh & Hpack).
    split; [lia|]. exists (set_ones (zslice index c y) :: hs). split; [rewrite Eh; cbn [rev]; rewrite <- app_assoc; reflexivity|].
    split; [cbn [length]; lia|]. intros I C HI. cbn [HintBitPack_loop].
    rewrite positions_set_ones; [|exact Es|apply SkDecodeProofs.zslice_bytes_ok; exact Hb].
    assert (HI' : zlen (I ++ zslice index c y) = c).
    { unfold zlen at 1. rewrite app_length. fold (zlen I) . pose proof (zslice_len_exact y index c ltac:(lia) ltac:(lia)) as Hz. unfold zlen in *. lia. }
    rewrite HI'. rewrite (Hpack (I ++ zslice index c y) (C ++ [c]) HI'). rewrite <- !app_assoc. cbn [app].
    rewrite zslice_app by lia. reflexivity.
Qed.

Lemma all_zero_zeros (l : list Z) : forallb (fun b => b =? 0) l = true -> l = zeros (length l).
Proof. induction l as [|x l IH]; intros H; [reflexivity|]. cbn [forallb] in H. apply andb_prop in H as [Hx Hl]. apply Z.eqb_eq in Hx. subst x. cbn [length zeros repeat]. f_equal. apply IH. exact Hl. Qed.

(* an accepted hint section re-encodes to itself *)
Theorem HintBitPack_Unpack omega (k : nat) y h : 0 <= omega -> bytes_ok y -> zlen y = omega + Z.of_nat k ->
  HintBitUnpack omega k y = Some h -> HintBitPack omega h = y.
Proof.
  intros Hom Hb Hl E. unfold HintBitUnpack in E.
  destruct (HintBitUnpack_loop omega y (zslice omega (omega + Z.of_nat k) y) 0 []) as [[h' idxf]|] eqn:EL; [|discriminate].
  destruct (forallb (fun b => b =? 0) (zslice idxf omega y)) eqn:Ez; [|discriminate]. injection E as <-.
  destruct (unpack_loop_pack omega y Hb ltac:(lia) _ 0 [] h' idxf ltac:(lia) EL) as (Hr & hs & Eh & _ & Hpack).
  cbn [rev app] in Eh. subst h'. unfold HintBitPack. rewrite (Hpack [] [] eq_refl). cbn [app].
  pose proof (all_zero_zeros _ Ez) as Hz.
  assert (Lz : length (zslice idxf omega y) = (Z.to_nat omega - length (zslice 0 idxf y))%nat).
  { pose proof (zslice_len_exact y idxf omega ltac:(lia) ltac:(lia)). pose proof (zslice_len_exact y 0 idxf ltac:(lia) ltac:(lia)). unfold zlen in *. lia. }
  rewrite <- Lz, <- Hz. rewrite !zslice_app by lia. rewrite <- Hl. apply zslice_all.
Qed.

(* ---------- pack then unpack ---------- *)
Lemma pack_loop_unpack omega y : forall (hs : list (list Z)) I C acc idxf cf,
  Forall (fun p => length p = 256%nat /\ Forall (fun e => - 0 <= e <= 1) p) hs ->
  HintBitPack_loop hs I C = (idxf, cf) -> (exists R, y = idxf ++ R) -> zlen idxf <= omega ->
  exists J cs, idxf = I ++ J /\ cf = C ++ cs /\ length cs = length hs
    /\ zlen J = sumZ (map sumZ hs)
    /\ HintBitUnpack_loop omega y cs (zlen I) acc = Some (rev acc ++ hs, zlen idxf).
Proof.
  induction hs as [|p hs IH]; intros I C acc idxf cf Hh E Hy Hw.
  - cbn [HintBitPack_loop] in E. injection E as <- <-. exists [], []. rewrite !app_nil_r. repeat split; reflexivity.
  - inversion Hh as [|? ? [Lp Rp] Hh']; subst. cbn [HintBitPack_loop] in E.
    destruct (IH (I ++ hint_positions p) (C ++ [zlen (I ++ hint_positions p)]) (p :: acc) idxf cf Hh' E Hy Hw) as (J & cs & EI & EC & Lc & LJ & EL).
    exists (hint_positions p ++ J), (zlen (I ++ hint_positions p) :: cs).
    split; [rewrite EI, <- app_assoc; reflexivity|]. split; [rewrite EC, <- app_assoc; reflexivity|]. split; [cbn [length]; lia|].
    split.
    { assert (Hz : zlen (hint_positions p ++ J) = zlen (hint_positions p) + zlen J) by (unfold zlen; rewrite app_length; lia).
      rewrite Hz, LJ, (positions_weight p Rp). cbn [map]. unfold sumZ at 3. cbn [fold_right]. reflexivity. }
    cbn [HintBitUnpack_loop].
    assert (Hc : zlen (I ++ hint_positions p) = zlen I + zlen (hint_positions p)) by (unfold zlen; rewrite app_length; lia).
    assert (Hle : zlen (I ++ hint_positions p) <= zlen idxf).
    { rewrite EI. unfold zlen. rewrite !app_length. lia. }
    replace ((zlen (I ++ hint_positions p) <? zlen I) || (omega <? zlen (I ++ hint_positions p))) with false.
    2:{ symmetry. apply orb_false_intro; [apply Z.ltb_ge; unfold zlen in *; lia|apply Z.ltb_ge; lia]. }
    assert (Hpos : zslice (zlen I) (zlen (I ++ hint_positions p)) y = hint_positions p).
    { destruct Hy as (R & ->). rewrite EI, <- !app_assoc. rewrite zslice_pre by lia. rewrite Hc.
      replace (zlen I - zlen I) with 0 by lia. replace (zlen I + zlen (hint_positions p) - zlen I) with (zlen (hint_positions p)) by lia.
      rewrite zslice_app_l by (unfold zlen; lia). apply zslice_all. }
    rewrite Hpos. destruct (hint_positions_sorted p Lp) as [Hs _]. rewrite Hs. rewrite (set_ones_positions p Lp Rp).
    rewrite EL. cbn [rev]. rewrite <- app_assoc. reflexivity.
Qed.

Lemma pack_loop_bytes : forall (hs : list (list Z)) I C idxf cf,
  Forall (fun p => length p = 256%nat /\ Forall (fun e => - 0 <= e <= 1) p) hs ->
  Forall (fun x => 0 <= x < 256) I -> Forall (fun c => 0 <= c <= zlen I) C ->
  HintBitPack_loop hs I C = (idxf, cf) ->
  Forall (fun x => 0 <= x < 256) idxf /\ Forall (fun c => 0 <= c <= zlen idxf) cf /\ zlen I <= zlen idxf.
Proof.
  induction hs as [|p hs IH]; intros I C idxf cf Hh HI HC E; cbn [HintBitPack_loop] in E.
  - injection E as <- <-. repeat split; try assumption. lia.
  - inversion Hh as [|? ? [Lp Rp] Hh']; subst. destruct (hint_positions_sorted p Lp) as [_ Hr].
    assert (Hz : zlen I <= zlen (I ++ hint_positions p)) by (unfold zlen; rewrite app_length; lia).
    assert (HI' : Forall (fun x => 0 <= x < 256) (I ++ hint_positions p)) by (apply Forall_app; split; assumption).
    assert (HC' : Forall (fun c => 0 <= c <= zlen (I ++ hint_positions p)) (C ++ [zlen (I ++ hint_positions p)])).
    { apply Forall_app; split; [eapply Forall_impl; [|exact HC]; cbn beta; intros; lia|constructor; [unfold zlen; lia|constructor]]. }
    destruct (IH _ _ idxf cf Hh' HI' HC' E) as (R1 & R2 & R3).
    repeat split; try assumption. lia.
Qed.

Theorem HintBitUnpack_Pack omega (k : nat) (h : list (list Z)) : 0 <= omega -> omega + Z.of_nat k < 256 -> rvec 0 1 k h -> sumZ (map sumZ h) <= omega ->
  HintBitUnpack omega k (HintBitPack omega h) = Some h
  /\ zlen (HintBitPack omega h) = omega + Z.of_nat k /\ bytes_ok (HintBitPack omega h).
Proof.
  intros Hom Hk [Rh Lh] Hw. unfold HintBitPack. destruct (HintBitPack_loop h [] []) as [idxf cf] eqn:E.
  set (y := idxf ++ zeros (Z.to_nat omega - length idxf) ++ cf).
  assert (Hshape : zlen idxf = sumZ (map sumZ h) /\ length cf = k).
  { destruct (pack_loop_unpack (zlen idxf) (idxf ++ []) h [] [] [] idxf cf Rh E ltac:(exists []; reflexivity) ltac:(lia)) as (J & cs & EI & EC & Lc & LJ & _).
    cbn [app] in EI, EC. subst J cs. split; [exact LJ|congruence]. }
  destruct Hshape as [Li Lc].
  destruct (pack_loop_unpack omega y h [] [] [] idxf cf Rh E ltac:(exists (zeros (Z.to_nat omega - length idxf) ++ cf); reflexivity) ltac:(lia)) as (J & cs & EI & EC & _ & _ & EL).
  cbn [app] in EI, EC. subst J cs. cbn [rev app] in EL. change (zlen (@nil Z)) with 0 in EL.
  assert (Lpre : zlen (idxf ++ zeros (Z.to_nat omega - length idxf)) = omega).
  { unfold zlen in *. rewrite app_length. unfold zeros. rewrite repeat_length. lia. }
  assert (Ly : zlen y = omega + Z.of_nat k).
  { unfold y, zlen in *. rewrite !app_length in *. unfold zeros in *. rewrite repeat_length in *. lia. }
  split; [|split; [exact Ly|]].
  - unfold HintBitUnpack.
    assert (Ecounts : zslice omega (omega + Z.of_nat k) y = cf).
    { unfold y. rewrite app_assoc. rewrite zslice_pre by lia. rewrite Lpre. replace (omega - omega) with 0 by lia.
      replace (omega + Z.of_nat k - omega) with (zlen cf) by (unfold zlen; lia). apply zslice_all. }
    rewrite Ecounts, EL.
    assert (Ezero : zslice (zlen idxf) omega y = zeros (Z.to_nat omega - length idxf)).
    { unfold y. rewrite zslice_pre by lia. replace (zlen idxf - zlen idxf) with 0 by lia.
      rewrite zslice_app_l by (unfold zlen, zeros in *; try rewrite repeat_length; lia).
      replace (omega - zlen idxf) with (zlen (zeros (Z.to_nat omega - length idxf))) by (unfold zlen, zeros in *; rewrite repeat_length; lia).
      apply zslice_all. }
    rewrite Ezero. replace (forallb (fun b => b =? 0) (zeros (Z.to_nat omega - length idxf))) with true; [reflexivity|].
    symmetry. apply forallb_forall. intros b Hb. apply repeat_spec in Hb. subst b. reflexivity.
  - destruct (pack_loop_bytes h [] [] idxf cf Rh ltac:(constructor) ltac:(constructor) E) as (B1 & B2 & _).
    unfold y. apply Forall_app. split; [exact B1|]. apply Forall_app. split.
    + apply Forall_forall. intros b Hb. apply repeat_spec in Hb. subst b. lia.
    + eapply Forall_impl; [|exact B2]. cbn beta. intros c Hc. lia.
Qed.

(* what an accepted hint section decodes to: k polynomials with 0/1 coefficients, total weight at most omega *)
Lemma hint_poly_range p : hint_poly p -> length p = 256%nat /\ Forall (fun e => - 0 <= e <= 1) p.
Proof. intros [Hl Hf]. split; [exact Hl|]. eapply Forall_impl; [|exact Hf]. cbn beta. intros x [->| ->]; lia. Qed.
Theorem HintBitUnpack_shape omega (k : nat) y h : 0 <= omega -> bytes_ok y -> zlen y = omega + Z.of_nat k ->
  HintBitUnpack omega k y = Some h -> rvec 0 1 k h /\ sumZ (map sumZ h) <= omega.
Proof.
  intros Hom Hb Hl E. destruct (HintBitUnpack_polys omega k y h E) as [Hp Lh].
  assert (Rh : Forall (fun p => length p = 256%nat /\ Forall (fun e => - 0 <= e <= 1) p) h).
  { eapply Forall_impl; [|exact Hp]. intros p Hpp. apply hint_poly_range. exact Hpp. }
  split; [split; [exact Rh|]|].
  - rewrite Lh. pose proof (zslice_len_exact y omega (omega + Z.of_nat k) ltac:(lia) ltac:(lia)) as Hz. unfold zlen in Hz. lia.
  - unfold HintBitUnpack in E.
    destruct (HintBitUnpack_loop omega y (zslice omega (omega + Z.of_nat k) y) 0 []) as [[h' idxf]|] eqn:EL; [|discriminate].
    destruct (forallb _ _); [|discriminate]. injection E as <-.
    destruct (unpack_loop_pack omega y Hb ltac:(lia) _ 0 [] h' idxf ltac:(lia) EL) as (Hr & hs & Eh & _ & Hpack).
    cbn [rev app] in Eh. subst h'. specialize (Hpack [] [] eq_refl). cbn [app] in Hpack.
    destruct (pack_loop_unpack (zlen (zslice 0 idxf y)) (zslice 0 idxf y ++ []) hs [] [] [] _ _ Rh Hpack ltac:(exists []; reflexivity) ltac:(lia)) as (J & cs & EI & _ & _ & LJ & _).
    cbn [app] in EI. subst J. rewrite <- LJ. rewrite (zslice_len_exact y 0 idxf) by lia. lia.
Qed.
