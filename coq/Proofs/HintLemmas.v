(* The two scalar lemmas behind ML-DSA's correctness (FIPS 204 section 7.4 / Dilithium Lemmas 1-2), for
   the transcription of Algorithms 36-40:
     usehint_makehint : |z| < gamma2 (centred)          ->  UseHint (MakeHint z r) r = HighBits (r + z)
     highbits_stable  : |LowBits r| < gamma2 - beta, |s| <= beta  ->  HighBits (r + s) = HighBits r   *)
Require Import ZArith Lia Bool.
Require Import F204.Base.Util F204.Gen.Params F204.Spec.SpecConv F204.Spec.SpecRound F204.Proofs.KernelLemmas.
Open Scope Z_scope.
Ltac Zify.zify_post_hook ::= Z.div_mod_to_equations.

(* bucket description of Decompose for a residue rp in [0, q) *)
Definition dec_spec (g rp r1 r0 : Z) : Prop :=
  0 <= r1 < (q - 1) / (2 * g) /\
  ((rp = r1 * (2 * g) + r0 /\ - g < r0 <= g) \/ (r1 = 0 /\ rp = q + r0 /\ - g <= r0 <= -1)).

Lemma Decompose_dec_spec g r : valid_gamma2 g -> dec_spec g (r mod q) (fst (Decompose g r)) (snd (Decompose g r)).
Proof.
  intros Hg. unfold dec_spec, Decompose, mod_pm, q, Q.
  assert (Hrp : 0 <= r mod 8380417 < 8380417) by (apply Z.mod_pos_bound; lia).
  set (rp := r mod 8380417) in *. clearbody rp.
  destruct Hg as [-> | ->]; unfold G44, G65.
  - change ((8380417 - 1) / (2 * 95232)) with 44. change (2 * 95232) with 190464. change (190464 / 2) with 95232.
    destruct (rp mod 190464 <=? 95232) eqn:E1; [apply Z.leb_le in E1|apply Z.leb_gt in E1].
    + destruct (rp - rp mod 190464 =? 8380417 - 1) eqn:E2; [apply Z.eqb_eq in E2|apply Z.eqb_neq in E2]; cbn [fst snd]; lia.
    + destruct (rp - (rp mod 190464 - 190464) =? 8380417 - 1) eqn:E2; [apply Z.eqb_eq in E2|apply Z.eqb_neq in E2]; cbn [fst snd]; lia.
  - change ((8380417 - 1) / (2 * 261888)) with 16. change (2 * 261888) with 523776. change (523776 / 2) with 261888.
    destruct (rp mod 523776 <=? 261888) eqn:E1; [apply Z.leb_le in E1|apply Z.leb_gt in E1].
    + destruct (rp - rp mod 523776 =? 8380417 - 1) eqn:E2; [apply Z.eqb_eq in E2|apply Z.eqb_neq in E2]; cbn [fst snd]; lia.
    + destruct (rp - (rp mod 523776 - 523776) =? 8380417 - 1) eqn:E2; [apply Z.eqb_eq in E2|apply Z.eqb_neq in E2]; cbn [fst snd]; lia.
Qed.

(* the buckets partition [0, q): the description determines the pair *)
Lemma dec_spec_unique g rp r1 r0 r1' r0' : valid_gamma2 g -> 0 <= rp < q ->
  dec_spec g rp r1 r0 -> dec_spec g rp r1' r0' -> r1 = r1' /\ r0 = r0'.
Proof.
  intros Hg Hrp. unfold dec_spec, q, Q in *.
  destruct Hg as [-> | ->]; unfold G44, G65.
  - change ((8380417 - 1) / (2 * 95232)) with 44. intros (H1 & H2) (H3 & H4). lia.
  - change ((8380417 - 1) / (2 * 261888)) with 16. intros (H1 & H2) (H3 & H4). lia.
Qed.

Theorem usehint_makehint g zc r : valid_gamma2 g -> Z.abs zc < g ->
  UseHint g (Z.b2z (MakeHint g zc r)) r = HighBits g (r + zc).
Proof.
  intros Hg Hz. pose proof (Decompose_dec_spec g r Hg) as S1. pose proof (Decompose_dec_spec g (r + zc) Hg) as S2.
  unfold UseHint, MakeHint, HighBits in *.
  destruct (Decompose g r) as [r1 r0]. destruct (Decompose g (r + zc)) as [v1 v0]. cbn [fst snd] in *.
  assert (Hrp : 0 <= r mod q < q) by (apply Z.mod_pos_bound; reflexivity).
  assert (Hvp : 0 <= (r + zc) mod q < q) by (apply Z.mod_pos_bound; reflexivity).
  assert (Hrel : (r + zc) mod q = r mod q + zc \/ (r + zc) mod q = r mod q + zc - q \/ (r + zc) mod q = r mod q + zc + q).
  { unfold q, Q in *. destruct Hg as [-> | ->]; unfold G44, G65 in Hz; lia. }
  set (rp := r mod q) in *. set (vp := (r + zc) mod q) in *. clearbody rp vp.
  unfold dec_spec, q, Q in *.
  destruct (r1 =? v1) eqn:E; [apply Z.eqb_eq in E|apply Z.eqb_neq in E]; cbn [negb Z.b2z].
  - change (0 =? 1) with false. cbn [andb]. exact E.
  - change (1 =? 1) with true. cbn [andb].
    destruct Hg as [-> | ->]; unfold G44, G65 in *.
    + change ((8380417 - 1) / (2 * 95232)) with 44 in *.
      destruct (0 <? r0) eqn:E0; [apply Z.ltb_lt in E0|apply Z.ltb_ge in E0].
      * lia.
      * replace (r0 <=? 0) with true by (symmetry; apply Z.leb_le; lia). lia.
    + change ((8380417 - 1) / (2 * 261888)) with 16 in *.
      destruct (0 <? r0) eqn:E0; [apply Z.ltb_lt in E0|apply Z.ltb_ge in E0].
      * lia.
      * replace (r0 <=? 0) with true by (symmetry; apply Z.leb_le; lia). lia.
Qed.

Theorem highbits_stable g beta r s : valid_gamma2 g -> 0 <= beta < g -> Z.abs (LowBits g r) < g - beta -> Z.abs s <= beta ->
  HighBits g (r + s) = HighBits g r.
Proof.
  intros Hg Hb Hl Hs. pose proof (Decompose_dec_spec g r Hg) as S1. pose proof (Decompose_dec_spec g (r + s) Hg) as S2.
  unfold LowBits, HighBits in *.
  destruct (Decompose g r) as [r1 r0]. destruct (Decompose g (r + s)) as [v1 v0]. cbn [fst snd] in *.
  assert (Hrp : 0 <= r mod q < q) by (apply Z.mod_pos_bound; reflexivity).
  assert (Hvp : 0 <= (r + s) mod q < q) by (apply Z.mod_pos_bound; reflexivity).
  assert (Hrel : (r + s) mod q = r mod q + s \/ (r + s) mod q = r mod q + s - q \/ (r + s) mod q = r mod q + s + q).
  { unfold q, Q in *. destruct Hg as [-> | ->]; unfold G44, G65 in Hb; lia. }
  set (rp := r mod q) in *. set (vp := (r + s) mod q) in *. clearbody rp vp.
  unfold dec_spec, q, Q in *.
  destruct Hg as [-> | ->]; unfold G44, G65 in *.
  - change ((8380417 - 1) / (2 * 95232)) with 44 in *. lia.
  - change ((8380417 - 1) / (2 * 261888)) with 16 in *. lia.
Qed.
