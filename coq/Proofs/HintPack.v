(* hint_bit_pack (Algorithm 20) of the crate equals FIPS 204 HintBitPack on every hint vector with 0/1
   coefficients and total weight at most omega (what signing produces): no index panics, and the bytes
   are  indices ++ zero padding ++ running counts. *)
Require Import List ZArith Lia Bool. Import ListNotations.
Require Import F204.Spec.SpecConv.
Require Import F204.Base.Util F204.Base.Mach F204.Base.ListLemmas F204.Gen.Params F204.Impl.Helpers F204.Impl.Conversion
  F204.Proofs.BitPackProofs F204.Proofs.KeyRoundTrip.
Open Scope Z_scope.
Ltac Zify.zify_post_hook ::= Z.div_mod_to_equations.
Arguments Z.mul : simpl never. Arguments Z.add : simpl never. Arguments Z.sub : simpl never.

(* writing into the zero region that follows a prefix *)
Lemma upd_app_zero (A : list Z) (n : nat) (R : list Z) v : (0 < n)%nat ->
  upd (A ++ zeros n ++ R) (length A) v = (A ++ [v]) ++ zeros (n - 1) ++ R.
Proof.
  intros Hn. induction A as [|a A IH]; cbn [app length upd].
  - destruct n as [|n]; [lia|]. cbn [zeros repeat app upd]. replace (S n - 1)%nat with n by lia. reflexivity.
  - rewrite IH. reflexivity.
Qed.

Definition positions (l : list (Z * Z)) : list Z := map fst (filter (fun jh => negb (snd jh =? 0)) l).

Lemma coef_fold (l : list (Z * Z)) : forall (A : list Z) (n : nat) (R : list Z),
  Forall (fun jh => 0 <= fst jh < 256) l -> (length (positions l) <= n)%nat ->
  foldM (hbp_coef false) l (A ++ zeros n ++ R, zlen A)
    = Ok ((A ++ positions l) ++ zeros (n - length (positions l)) ++ R, zlen A + zlen (positions l)).
Proof.
  induction l as [|[j hj] l IH]; intros A n R Hr Hn.
  - cbn [foldM positions filter map length]. rewrite app_nil_r, Nat.sub_0_r. unfold zlen. cbn [length]. f_equal. f_equal. lia.
  - inversion Hr as [|? ? Hj Hr']; subst. cbn [fst] in Hj. cbn [foldM hbp_coef andb orb].
    unfold positions in *. cbn [filter snd] in *. destruct (hj =? 0) eqn:E; cbn [negb] in *.
    + cbn [bind]. apply IH; assumption.
    + cbn [map fst length] in *. unfold set_byte.
      assert (Hin : (0 <=? zlen A) && (zlen A <? zlen (A ++ zeros n ++ R)) = true).
      { apply andb_true_intro. unfold zlen. rewrite !app_length. unfold zeros. rewrite repeat_length. split; [apply Z.leb_le|apply Z.ltb_lt]; clear - Hn; lia. }
      rewrite Hin. cbn [bind]. unfold zupd, zlen. rewrite Nat2Z.id. rewrite upd_app_zero by lia.
      rewrite (Z.mod_small j 256) by lia.
      replace (Z.of_nat (length A) + 1) with (zlen (A ++ [j])) by (unfold zlen; rewrite app_length; cbn [length]; lia).
      rewrite (IH (A ++ [j]) (n - 1)%nat R Hr' ltac:(lia)). f_equal. f_equal.
      * rewrite <- !app_assoc. cbn [app]. do 3 f_equal. f_equal. f_equal. clear; lia.
      * unfold zlen. rewrite app_length. cbn [length]. lia.
Qed.

Lemma combine_map_l {A B C} (f : A -> B) (l1 : list A) (l2 : list C) : combine (map f l1) l2 = map (fun p => (f (fst p), snd p)) (combine l1 l2).
Proof. revert l2. induction l1 as [|a l1 IH]; intros l2; [reflexivity|]. destruct l2; [reflexivity|]. cbn. rewrite IH. reflexivity. Qed.

Lemma positions_spec (p : list Z) : length p = 256%nat ->
  positions (combine (map Z.of_nat (seq 0 256)) p) = hint_positions p
  /\ Forall (fun jh => 0 <= fst jh < 256) (combine (map Z.of_nat (seq 0 256)) p).
Proof.
  intros Hl. split.
  - unfold positions, hint_positions. rewrite Hl, combine_map_l.
    generalize (combine (seq 0 256) p). intros l. induction l as [|[i x] l IH]; [reflexivity|].
    cbn [map filter fst snd]. destruct (x =? 0); cbn [negb map fst]; rewrite IH; reflexivity.
  - apply Forall_forall. intros [j x] Hin. apply in_combine_l in Hin. apply in_map_iff in Hin as (i & <- & Hi). apply in_seq in Hi. cbn [fst]. lia.
Qed.

Lemma positions_weight (p : list Z) : Forall (fun e => - 0 <= e <= 1) p -> zlen (hint_positions p) = sumZ p.
Proof.
  intros Hp. unfold hint_positions, zlen. rewrite map_length.
  generalize 0%nat. induction Hp as [|x p Hx Hp IH]; intros s; [reflexivity|].
  cbn [length seq combine filter snd sumZ fold_right]. fold (sumZ p). destruct (x =? 0) eqn:E; cbn [negb length].
  - apply Z.eqb_eq in E. rewrite IH. lia.
  - apply Z.eqb_neq in E. rewrite Nat2Z.inj_succ, IH. lia.
Qed.

Lemma count_ones_sum p : Forall (fun e => - 0 <= e <= 1) p -> count_ones p = sumZ p.
Proof.
  intros Hr. unfold count_ones, sumZ. induction Hr as [|x p Hx Hr IH]; [reflexivity|]. cbn [filter fold_right].
  destruct (x =? 1) eqn:E; cbn [fold_right]; rewrite IH; [apply Z.eqb_eq in E|apply Z.eqb_neq in E]; lia.
Qed.
Lemma sumZ_nonneg p : Forall (fun e => - 0 <= e <= 1) p -> 0 <= sumZ p.
Proof. intros Hr. unfold sumZ. induction Hr as [|x p Hx Hr IH]; cbn [fold_right]; lia. Qed.
Lemma weight_nonneg (h : list (list Z)) : Forall (fun p => length p = 256%nat /\ Forall (fun e => - 0 <= e <= 1) p) h -> 0 <= sumZ (map sumZ h).
Proof.
  intros Hh. induction Hh as [|p h [_ Hp] Hh IH]; [cbn; lia|]. cbn [map]. unfold sumZ at 1. cbn [fold_right]. fold (sumZ (map sumZ h)).
  pose proof (sumZ_nonneg p Hp). lia.
Qed.

(* the whole function *)
Theorem hint_bit_pack_spec (omega : Z) (k : nat) (h : list (list Z)) : 0 <= omega -> 1 <= omega + Z.of_nat k < 256 ->
  rvec 0 1 k h -> sumZ (map sumZ h) <= omega ->
  hint_bit_pack false omega h (omega + Z.of_nat k) = Ok (HintBitPack omega h).
Proof.
  intros Hom Hk [Rh Lh] Hw. unfold hint_bit_pack, HintBitPack.
  replace (0 <=? omega) with true by (symmetry; apply Z.leb_le; lia).
  unfold zlen. rewrite Lh.
  replace ((1 <=? omega + Z.of_nat k) && (omega + Z.of_nat k <? 256)) with true
    by (symmetry; apply andb_true_intro; split; [apply Z.leb_le|apply Z.ltb_lt]; lia).
  rewrite Z.eqb_refl. rewrite (in_range_vec h 0 1 Rh). cbn [guard bind].
  assert (Hnn : Forall (fun p => 0 <= sumZ p) h).
  { eapply Forall_impl; [|exact Rh]. intros p [_ Hp]. clear - Hp. induction Hp as [|x p Hx Hp IH]; cbn; [lia|]. fold (sumZ p). lia. }
  replace (forallb (fun r => count_ones r <=? omega) h) with true.
  2:{ symmetry. apply forallb_forall. intros p Hp. apply Z.leb_le.
      assert (Hc : count_ones p = sumZ p) by (rewrite Forall_forall in Rh; apply count_ones_sum, (Rh p Hp)).
      rewrite Hc. clear - Hp Hnn Hw. induction h as [|p' h IH]; [destruct Hp|]. inversion Hnn; subst. cbn [map sumZ fold_right] in Hw. fold (sumZ (map sumZ h)) in Hw.
      assert (0 <= sumZ (map sumZ h)) by (clear - H2; induction H2; cbn; [lia|]; fold (sumZ (map sumZ l)); lia).
      destruct Hp as [<-|Hp]; [lia|]. apply IH; [lia|assumption|exact Hp]. }
  cbn [guard bind].
  (* invariant of the outer fold *)
  assert (Hinv : forall (hs : list (list Z)) (idx counts : list Z) (m : nat),
     Forall (fun p => length p = 256%nat /\ Forall (fun e => - 0 <= e <= 1) p) hs ->
     zlen idx + sumZ (map sumZ hs) <= omega -> length hs = m ->
     foldM (hbp_poly false omega) hs (idx ++ zeros (Z.to_nat omega - length idx) ++ counts ++ zeros m, zlen idx, zlen counts)
       = (let '(idx', counts') := HintBitPack_loop hs idx counts in
          Ok (idx' ++ zeros (Z.to_nat omega - length idx') ++ counts', zlen idx', zlen counts'))).
  { induction hs as [|p hs IH]; intros idx counts m Hhs Hwt Hm.
    - cbn [foldM HintBitPack_loop]. subst m. cbn [length zeros repeat]. rewrite app_nil_r. reflexivity.
    - inversion Hhs as [|? ? [Lp Rp] Hhs']; subst. cbn [length] in *. cbn [foldM HintBitPack_loop hbp_poly].
      destruct (positions_spec p Lp) as [Epos Hrange].
      cbn [map sumZ fold_right] in Hwt. fold (sumZ (map sumZ hs)) in Hwt.
      pose proof (positions_weight p Rp) as Hpw.
      assert (Hrest : 0 <= sumZ (map sumZ hs)).
      { clear - Hhs'. induction Hhs' as [|p' hs [_ Hp] Hhs IH]; cbn; [lia|]. fold (sumZ (map sumZ hs)).
        assert (0 <= sumZ p') by (clear - Hp; induction Hp as [|x p Hx Hp IH]; cbn; [lia|]; fold (sumZ p); lia). lia. }
      rewrite (coef_fold _ idx (Z.to_nat omega - length idx)%nat (counts ++ zeros (S (length hs))) Hrange)
        by (rewrite Epos; unfold zlen in *; lia).
      cbn [bind]. rewrite Epos. set (idx' := idx ++ hint_positions p).
      assert (Hl' : zlen idx' = zlen idx + zlen (hint_positions p)) by (unfold idx', zlen; rewrite app_length; lia).
      rewrite <- Hl'.
      (* the count byte *)
      unfold set_byte.
      assert (Hlen1 : zlen (idx' ++ zeros (Z.to_nat omega - length idx - length (hint_positions p)) ++ counts ++ zeros (S (length hs)))
                      = omega + zlen counts + Z.of_nat (S (length hs))).
      { unfold zlen in *. rewrite !app_length. unfold zeros. rewrite !repeat_length. unfold idx' in *. rewrite app_length in *. lia. }
      replace ((0 <=? omega + zlen counts) && (omega + zlen counts <? zlen (idx' ++ zeros (Z.to_nat omega - length idx - length (hint_positions p)) ++ counts ++ zeros (S (length hs))))) with true
        by (symmetry; apply andb_true_intro; rewrite Hlen1; unfold zlen; split; [apply Z.leb_le|apply Z.ltb_lt]; lia).
      cbn [bind].
      assert (Eupd : zupd (idx' ++ zeros (Z.to_nat omega - length idx - length (hint_positions p)) ++ counts ++ zeros (S (length hs))) (omega + zlen counts) (zlen idx' mod 256)
                   = idx' ++ zeros (Z.to_nat omega - length idx') ++ (counts ++ [zlen idx']) ++ zeros (length hs)).
      { rewrite (Z.mod_small (zlen idx') 256) by (unfold zlen in *; lia).
        replace (Z.to_nat omega - length idx - length (hint_positions p))%nat with (Z.to_nat omega - length idx')%nat by (unfold idx'; rewrite app_length; lia).
        unfold zupd.
        replace (Z.to_nat (omega + zlen counts)) with (length (idx' ++ zeros (Z.to_nat omega - length idx') ++ counts)).
        2:{ unfold zlen in *. rewrite !app_length. unfold zeros. rewrite repeat_length. lia. }
        replace (idx' ++ zeros (Z.to_nat omega - length idx') ++ counts ++ zeros (S (length hs)))
          with ((idx' ++ zeros (Z.to_nat omega - length idx') ++ counts) ++ zeros (S (length hs)) ++ []) by (rewrite app_nil_r, <- !app_assoc; reflexivity).
        rewrite upd_app_zero by lia. rewrite app_nil_r, <- !app_assoc. replace (S (length hs) - 1)%nat with (length hs) by lia. reflexivity. }
      rewrite Eupd.
      replace (zlen counts + 1) with (zlen (counts ++ [zlen idx'])) by (unfold zlen; rewrite app_length; cbn [length]; lia).
      apply (IH idx' (counts ++ [zlen idx']) (length hs) Hhs'); [lia|reflexivity]. }
  specialize (Hinv h [] [] k Rh ltac:(unfold zlen; cbn [length]; lia) Lh).
  cbn [app length zlen] in Hinv. rewrite Nat.sub_0_r in Hinv. unfold zlen in Hinv. cbn [length] in Hinv.
  replace (Z.to_nat (omega + Z.of_nat k)) with (Z.to_nat omega + k)%nat by lia.
  unfold zeros in *. rewrite repeat_app. change (Z.of_nat 0) with 0 in Hinv. rewrite Hinv.
  destruct (HintBitPack_loop h [] []) as [idx' counts']. reflexivity.
Qed.
