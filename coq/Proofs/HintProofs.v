(* hint_bit_unpack of the crate (conversion.rs, Alg 21 with index arithmetic on a byte slice) equals the
   FIPS 204 HintBitUnpack of Spec/SpecConv.v on every byte string of length omega + k, and never
   panics: the strict decoding that makes signature encodings canonical (C08) and that
   verification relies on (C02). *)
Require Import F204.Base.Util F204.Base.Mach F204.Base.ListLemmas F204.Gen.Params
  F204.Impl.Helpers F204.Impl.Conversion F204.Spec.SpecConv.
Open Scope Z_scope.
Arguments Z.mul : simpl never.
Arguments Z.add : simpl never.
Arguments Z.sub : simpl never.

Definition bytes_ok (y : list Z) : Prop := Forall (fun b => 0 <= b < 256) y.

Lemma get_byte_ok y i : 0 <= i < zlen y -> get_byte y i = Ok (znth y i).
Proof.
  intros H. unfold get_byte. replace ((0 <=? i) && (i <? zlen y)) with true; [reflexivity|].
  symmetry. apply andb_true_intro. split; [apply Z.leb_le|apply Z.ltb_lt]; lia.
Qed.

Lemma znth_range y i : bytes_ok y -> 0 <= i < zlen y -> 0 <= znth y i < 256.
Proof.
  intros Hb Hi. unfold znth. unfold bytes_ok in Hb. rewrite Forall_forall in Hb. apply Hb. apply nth_In. unfold zlen in Hi. lia.
Qed.

Lemma skipn_cons_nth (l : list Z) n : (n < length l)%nat -> skipn n l = nth n l 0 :: skipn (S n) l.
Proof.
  revert n. induction l as [|x l IH]; intros n Hn; [cbn in Hn; lia|].
  destruct n as [|n]; [reflexivity|]. cbn [skipn nth]. apply IH. cbn in Hn. lia.
Qed.

Lemma zslice_cons y a b : 0 <= a < b -> b <= zlen y -> zslice a b y = znth y a :: zslice (a + 1) b y.
Proof.
  intros Ha Hb. unfold zslice, ztake, zdrop, znth, zlen in *.
  rewrite (skipn_cons_nth y (Z.to_nat a)) by lia.
  replace (Z.to_nat (b - a)) with (S (Z.to_nat (b - (a + 1)))) by lia. cbn [firstn].
  replace (Z.to_nat (a + 1)) with (S (Z.to_nat a)) by lia. reflexivity.
Qed.
Lemma zslice_nil (y : list Z) a : zslice a a y = [].
Proof. unfold zslice, ztake. replace (a - a) with 0 by lia. reflexivity. Qed.

(* strictly increasing, with an optional element in front *)
Definition inc_head (a : Z) (l : list Z) : bool := match l with b :: _ => a <? b | [] => true end.
Definition inc_from (prev : option Z) (l : list Z) : bool :=
  match prev with Some a => inc_head a l | None => true end && strictly_increasing l.
Lemma strictly_increasing_cons a l : strictly_increasing (a :: l) = inc_head a l && strictly_increasing l.
Proof. destruct l; reflexivity. Qed.

Definition set_bits (pos : list Z) (p : list Z) : list Z := fold_left (fun q j => zupd q j 1) pos p.

Lemma zupd_length p j v : length (zupd p j v) = length p.
Proof.
  unfold zupd. generalize (Z.to_nat j). intros n. revert n. induction p as [|x p IH]; intros n; [destruct n; reflexivity|].
  destruct n; cbn; [reflexivity|]. rewrite IH. reflexivity.
Qed.

Lemma hbu_while_spec : forall n fuel y lim first index p,
  (n < fuel)%nat -> Z.of_nat n = lim - index -> 0 <= first <= index -> lim <= zlen y -> lim <= 255 ->
  bytes_ok y -> zlen p = 256 ->
  hbu_while fuel y lim first index p =
    if inc_from (if first <? index then Some (znth y (index - 1)) else None) (zslice index lim y)
    then Ok (set_bits (zslice index lim y) p, lim) else Err Malformed.
Proof.
  induction n as [|n IH]; intros fuel y lim first index p Hf Hn Hfi Hl H255 Hb Hp.
  - assert (index = lim) by lia. subst index. destruct fuel as [|f]; [lia|]. cbn [hbu_while].
    rewrite Z.ltb_irrefl. rewrite zslice_nil. unfold inc_from. cbn [strictly_increasing set_bits fold_left].
    destruct (first <? lim); reflexivity.
  - destruct fuel as [|f]; [lia|]. cbn [hbu_while].
    assert (Hlt : index < lim) by lia. replace (index <? lim) with true by (symmetry; apply Z.ltb_lt; exact Hlt).
    rewrite (zslice_cons y index lim) by lia. set (b := znth y index). set (rest := zslice (index + 1) lim y).
    assert (Hbr : 0 <= b < 256) by (apply znth_range; [exact Hb|lia]).
    assert (Hnext : hbu_while f y lim first (index + 1) (zupd p b 1) =
              if inc_from (Some b) rest then Ok (set_bits rest (zupd p b 1), lim) else Err Malformed).
    { rewrite (IH f y lim first (index + 1) (zupd p b 1)); try lia; try assumption.
      - replace (first <? index + 1) with true by (symmetry; apply Z.ltb_lt; lia).
        replace (index + 1 - 1) with index by lia. reflexivity.
      - unfold zlen in *. rewrite zupd_length. exact Hp. }
    unfold inc_from at 1. rewrite strictly_increasing_cons. fold (inc_from (Some b) rest).
    destruct (first <? index) eqn:Efi.
    + apply Z.ltb_lt in Efi. rewrite (get_byte_ok y (index - 1)) by lia. cbn [bind].
      rewrite (get_byte_ok y index) by lia. cbn [bind]. fold b. cbn [inc_head].
      destruct (znth y (index - 1) <? b) eqn:Eab; cbn [andb].
      * cbn [bind]. fold b.
        replace (b <? zlen p) with true by (symmetry; apply Z.ltb_lt; lia).
        replace (index + 1 <? 256) with true by (symmetry; apply Z.ltb_lt; lia). cbn [guard bind].
        rewrite Hnext. unfold inc_from. cbn [set_bits fold_left]. reflexivity.
      * reflexivity.
    + cbn [bind andb]. rewrite (get_byte_ok y index) by lia. cbn [bind]. fold b.
      replace (b <? zlen p) with true by (symmetry; apply Z.ltb_lt; lia).
      replace (index + 1 <? 256) with true by (symmetry; apply Z.ltb_lt; lia). cbn [guard bind].
      rewrite Hnext. unfold inc_from. cbn [set_bits fold_left]. reflexivity.
Qed.

(* set_ones of the specification = set_bits on the zero polynomial *)
Lemma set_ones_bits pos : set_ones pos = set_bits pos (zeros 256).
Proof. reflexivity. Qed.

(* ---------- number of ones of a reconstructed polynomial ---------- *)
Lemma count_ones_zeros n : count_ones (zeros n) = 0.
Proof. unfold count_ones, zeros. induction n as [|n IH]; [reflexivity|]. cbn [repeat filter]. change (0 =? 1) with false. cbv iota. exact IH. Qed.
Lemma count_ones_upd : forall q n, count_ones (upd q n 1) <= count_ones q + 1.
Proof.
  unfold count_ones. induction q as [|x q IH]; intros n; [destruct n; cbn; lia|].
  destruct n as [|n]; cbn [upd filter].
  - change (1 =? 1) with true. cbv iota. cbn [sumZ fold_right]. destruct (x =? 1) eqn:E; cbn [sumZ fold_right]; [apply Z.eqb_eq in E; subst; fold (sumZ (filter (fun e => e =? 1) q)); lia|fold (sumZ (filter (fun e => e =? 1) q)); lia].
  - destruct (x =? 1) eqn:E; cbn [sumZ fold_right]; specialize (IH n); unfold sumZ in *; lia.
Qed.
Lemma count_ones_set_bits pos : forall q, count_ones (set_bits pos q) <= count_ones q + zlen pos.
Proof.
  induction pos as [|j pos IH]; intros q; unfold zlen; cbn [set_bits fold_left length]; [lia|].
  specialize (IH (zupd q j 1)). unfold set_bits, zlen in IH. pose proof (count_ones_upd q (Z.to_nat j)). unfold zupd in *. lia.
Qed.

Lemma zslice_len_le (y : list Z) a b : 0 <= a <= b -> zlen (zslice a b y) <= b - a.
Proof. intros H. unfold zslice, ztake, zdrop, zlen. rewrite firstn_length, skipn_length. lia. Qed.

(* ---------- the per-polynomial loop against the FIPS 204 loop ---------- *)
Definition res_of_opt {A} (o : option A) : res A := match o with Some a => Ok a | None => Err Malformed end.

Lemma hbu_fold_spec omega y : 0 <= omega <= 255 -> omega <= zlen y -> bytes_ok y ->
  forall (is : list Z) acc index,
  Forall (fun i => 0 <= i /\ omega + i < zlen y) is -> 0 <= index <= omega ->
  Forall (fun p => count_ones p <= omega) acc ->
  match foldM (hbu_poly omega y) is (acc, index) with
  | Ok (h, idx) => HintBitUnpack_loop omega y (map (fun i => znth y (omega + i)) is) index (rev acc) = Some (h, idx)
                   /\ 0 <= idx <= omega /\ Forall (fun p => count_ones p <= omega) h
  | Err Malformed => HintBitUnpack_loop omega y (map (fun i => znth y (omega + i)) is) index (rev acc) = None
  | _ => False
  end.
Proof.
  intros Hom Hlen Hb. induction is as [|i is IH]; intros acc index His Hidx Hacc.
  - cbn [foldM map HintBitUnpack_loop]. rewrite rev_involutive. repeat split; try assumption; lia.
  - inversion His as [|? ? [Hi0 Hi1] His']; subst. cbn [foldM map HintBitUnpack_loop]. unfold hbu_poly at 1.
    rewrite (get_byte_ok y (omega + i)) by lia. cbn [bind]. set (c := znth y (omega + i)).
    rewrite (Z.mod_small omega 256) by lia.
    destruct ((c <? index) || (omega <? c)) eqn:Echk; [cbn [bind]; reflexivity|].
    apply orb_false_elim in Echk as [E1 E2]. apply Z.ltb_ge in E1, E2.
    rewrite (hbu_while_spec (Z.to_nat (c - index)) 257 y c index index (zeros 256)); try lia; try assumption.
    2:{ unfold zlen, zeros. rewrite repeat_length. reflexivity. }
    rewrite Z.ltb_irrefl. unfold inc_from. cbn [andb].
    destruct (strictly_increasing (zslice index c y)) eqn:Einc; [|cbn [bind]; reflexivity].
    cbn [bind]. rewrite <- set_ones_bits.
    specialize (IH (acc ++ [set_ones (zslice index c y)]) c His' ltac:(lia)).
    rewrite rev_app_distr in IH. cbn [rev app] in IH. apply IH.
    apply Forall_app. split; [exact Hacc|]. constructor; [|constructor].
    rewrite set_ones_bits. pose proof (count_ones_set_bits (zslice index c y) (zeros 256)) as Hc.
    rewrite count_ones_zeros in Hc. pose proof (zslice_len_le y index c ltac:(lia)). lia.
Qed.

Lemma zslice_map_nth (y : list Z) : forall n a, 0 <= a -> a + Z.of_nat n <= zlen y ->
  zslice a (a + Z.of_nat n) y = map (fun d => znth y (a + Z.of_nat d)) (seq 0 n).
Proof.
  induction n as [|n IH]; intros a Ha Hl.
  - replace (a + Z.of_nat 0) with a by lia. apply zslice_nil.
  - rewrite zslice_cons by lia. cbn [seq map]. replace (a + Z.of_nat 0) with a by lia. f_equal.
    replace (a + Z.of_nat (S n)) with ((a + 1) + Z.of_nat n) by lia. rewrite IH by lia.
    rewrite <- seq_shift, map_map. apply map_ext. intros d. f_equal. lia.
Qed.

(* ---------- the whole function ---------- *)
Theorem hint_bit_unpack_spec (k : nat) omega y :
  0 <= omega -> 1 <= omega + Z.of_nat k < 256 -> zlen y = omega + Z.of_nat k -> bytes_ok y ->
  hint_bit_unpack k omega y = res_of_opt (HintBitUnpack omega k y).
Proof.
  intros Hom Hk Hlen Hb. unfold hint_bit_unpack, HintBitUnpack.
  replace (0 <=? omega) with true by (symmetry; apply Z.leb_le; lia).
  replace ((1 <=? omega + Z.of_nat k) && (omega + Z.of_nat k <? 256)) with true
    by (symmetry; apply andb_true_intro; split; [apply Z.leb_le|apply Z.ltb_lt]; lia).
  rewrite Hlen, Z.eqb_refl. cbn [guard bind].
  rewrite (zslice_map_nth y k omega) by lia.
  pose proof (hbu_fold_spec omega y ltac:(lia) ltac:(lia) Hb (map Z.of_nat (seq 0 k)) [] 0) as Hf.
  rewrite map_map in Hf. cbn [rev] in Hf.
  assert (His : Forall (fun i => 0 <= i /\ omega + i < zlen y) (map Z.of_nat (seq 0 k))).
  { apply Forall_forall. intros i Hi. apply in_map_iff in Hi as (d & <- & Hd). apply in_seq in Hd. lia. }
  specialize (Hf His ltac:(lia) (Forall_nil _)).
  destruct (foldM (hbu_poly omega y) (map Z.of_nat (seq 0 k)) ([], 0)) as [[h idx]|e|s|]; try contradiction.
  - destruct Hf as (Hs & Hidx & Hcnt). rewrite Hs. cbn [bind].
    rewrite (Z.mod_small omega 256) by lia.
    assert (Hrest : mapM (get_byte y) (map (fun d => idx + Z.of_nat d) (seq 0 (Z.to_nat (omega - idx)))) = Ok (zslice idx omega y)).
    { replace omega with (idx + Z.of_nat (Z.to_nat (omega - idx))) at 2 by lia.
      rewrite (zslice_map_nth y (Z.to_nat (omega - idx)) idx) by lia.
      rewrite <- (map_map (fun d => idx + Z.of_nat d) (znth y)).
      apply mapM_ok. intros i Hi. apply in_map_iff in Hi as (d & <- & Hd). apply in_seq in Hd. apply get_byte_ok. lia. }
    rewrite Hrest. cbn [bind].
    destruct (forallb (fun b => b =? 0) (zslice idx omega y)) eqn:Ez; cbn [ensure bind res_of_opt]; [|reflexivity].
    replace (forallb (fun r => count_ones r <=? omega) h) with true; [reflexivity|].
    symmetry. apply forallb_forall. intros p Hp. rewrite Forall_forall in Hcnt. apply Z.leb_le. apply Hcnt. exact Hp.
  - destruct e; try contradiction. rewrite Hf. reflexivity.
Qed.
