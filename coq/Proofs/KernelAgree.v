(* T4 tie: every kernel that tools/gen_kernels.py regenerates from /repo/src on each run (Gen/Kernels.v) is equal,
   for every input, to the hand-written model definition the theorems are about.  A change to a kernel's arithmetic in
   the Rust source changes Gen/Kernels.v and breaks the corresponding lemma here. *)
Require Import List ZArith Lia Bool String. Import ListNotations.
Require Import F204.Base.Util F204.Base.Mach F204.Gen.Params F204.Gen.Kernels
  F204.Impl.Helpers F204.Impl.HighLow F204.Impl.Ntt F204.Impl.Conversion
  F204.Hash.HashIface F204.Impl.Encodings F204.Impl.Hashing F204.Impl.MlDsa.
Open Scope Z_scope.

Lemma bind_assoc' {A B C} (m : res A) (f : A -> res B) (g : B -> res C) :
  bind (bind m f) g = bind m (fun x => bind (f x) g).
Proof. destruct m; reflexivity. Qed.
Lemma bind_ret {A} (m : res A) : bind m (fun x => Ok x) = m.
Proof. destruct m; reflexivity. Qed.


(* When a kernel has been rewritten in the Rust source into something that is not convertible with the model's text but
   performs the same checked operations on provably equal operands (commuted products, re-associated constants, ...),
   [keq] walks the two monadic programs in lock step and proves operand equalities with ring / lia. *)
Create HintDb keqdb.
Ltac kleaf := first [ reflexivity | (f_equal; first [ring | lia]) | (f_equal; f_equal; first [ring | lia]) | solve [repeat (f_equal; try first [ring | lia])] ].
Ltac kstep :=
  match goal with
  | |- ?x = ?x => reflexivity
  | |- bind ?m ?f = bind ?m' ?g =>
      first [ constr_eq m m'
            | let E := fresh "E" in
              assert (E : m = m') by (unfold add32, sub32, mul32, neg32, abs32, add64, sub64, mul64, abs64; kleaf);
              rewrite E; clear E ];
      destruct m'; cbn beta iota delta [bind]; [ | reflexivity | reflexivity | reflexivity ]
  | |- (if ?c then _ else _) = (if ?c' then _ else _) =>
      first [ constr_eq c c' | let E := fresh "E" in assert (E : c = c') by kleaf; rewrite E; clear E ];
      destruct c'
  | |- Ok _ = Ok _ => first [ reflexivity | (f_equal; first [ring | lia]) | (f_equal; f_equal; first [ring | lia]) ]
  | |- context [match ?p with (_, _) => _ end] => is_var p; destruct p
  | |- chk32 _ _ = chk32 _ _ => kleaf
  | |- chk64 _ _ = chk64 _ _ => kleaf
  end.
(* fragment kernels: unfold the fragment, turn calls of regenerated whole-function kernels into the model's functions *)
Ltac kfrag := first [ reflexivity | (intros; autounfold with kfragdb; repeat (try autorewrite with keqdb; first [reflexivity | kstep])) ].
Ltac keq k h := intros; cbv beta zeta delta [k h]; repeat (try autorewrite with keqdb; kstep).

(* ---- whole functions ---- *)
Lemma k_partial_reduce64_eq a : k_partial_reduce64 a = partial_reduce64 a.
Proof. first [reflexivity | keq k_partial_reduce64 partial_reduce64]. Qed.
#[local] Hint Rewrite k_partial_reduce64_eq : keqdb.
Lemma k_partial_reduce32_eq a : k_partial_reduce32 a = partial_reduce32 a.
Proof. first [reflexivity | keq k_partial_reduce32 partial_reduce32]. Qed.
#[local] Hint Rewrite k_partial_reduce32_eq : keqdb.
Lemma k_full_reduce32_eq a : k_full_reduce32 a = full_reduce32 a.
Proof. first [reflexivity | keq k_full_reduce32 full_reduce32]. Qed.
#[local] Hint Rewrite k_full_reduce32_eq : keqdb.
Lemma k_center_mod_eq m : k_center_mod m = center_mod m.
Proof. first [reflexivity | keq k_center_mod center_mod]. Qed.
#[local] Hint Rewrite k_center_mod_eq : keqdb.
Lemma k_mont_reduce_eq a : k_mont_reduce a = mont_reduce a.
Proof. first [reflexivity | keq k_mont_reduce mont_reduce]. Qed.
#[local] Hint Rewrite k_mont_reduce_eq : keqdb.
Lemma k_decompose_eq g r : k_decompose g r = decompose g r.
Proof. first [reflexivity | keq k_decompose decompose]. Qed.
#[local] Hint Rewrite k_decompose_eq : keqdb.
Lemma k_high_bits_eq g r : k_high_bits g r = high_bits g r.
Proof. first [reflexivity | keq k_high_bits high_bits]. Qed.
#[local] Hint Rewrite k_high_bits_eq : keqdb.
Lemma k_low_bits_eq g r : k_low_bits g r = low_bits g r.
Proof. first [reflexivity | keq k_low_bits low_bits]. Qed.
#[local] Hint Rewrite k_low_bits_eq : keqdb.
Lemma k_make_hint_eq g z r : k_make_hint g z r = make_hint g z r.
Proof. first [reflexivity | keq k_make_hint make_hint]. Qed.
#[local] Hint Rewrite k_make_hint_eq : keqdb.
Lemma k_use_hint_eq g h r : k_use_hint g h r = use_hint g h r.
Proof. first [reflexivity | keq k_use_hint use_hint]. Qed.
#[local] Hint Rewrite k_use_hint_eq : keqdb.
Lemma k_coeff_from_half_byte_eq ct eta b : k_coeff_from_half_byte ct eta b = coeff_from_half_byte ct eta b.
Proof. first [reflexivity | keq k_coeff_from_half_byte coeff_from_half_byte]. Qed.
#[local] Hint Rewrite k_coeff_from_half_byte_eq : keqdb.

(* the byte arguments of coeff_from_three_bytes are u8 values; the model's unwrapped shifts agree with the
   wrapping `<<` of the code on them *)
Lemma k_coeff_from_three_bytes_eq ct b0 b1 b2 : 0 <= b1 < 256 ->
  k_coeff_from_three_bytes ct b0 b1 b2 = coeff_from_three_bytes ct b0 b1 b2.
Proof.
  intros H1. unfold k_coeff_from_three_bytes, coeff_from_three_bytes, shl32.
  assert (R2 : 0 <= Z.land b2 127 < 128) by (change 127 with (Z.ones 7); rewrite Z.land_ones by lia; apply Z.mod_pos_bound; lia).
  assert (R3 : 0 <= Z.land (Z.land b2 127) 63 < 64) by (change 63 with (Z.ones 6); rewrite Z.land_ones by lia; apply Z.mod_pos_bound; lia).
  rewrite (wrap32_id (Z.shiftl b1 8)) by (rewrite Z.shiftl_mul_pow2 by lia; unfold i32_min, i32_max; lia).
  destruct ct; cbv zeta.
  - rewrite wrap32_id by (rewrite Z.shiftl_mul_pow2 by lia; unfold i32_min, i32_max; lia). reflexivity.
  - rewrite wrap32_id by (rewrite Z.shiftl_mul_pow2 by lia; unfold i32_min, i32_max; lia). reflexivity.
Qed.

(* ---- kernels cut out of closures and loop bodies ---- *)
Lemma k_in_range_elem_eq e lo hi : i32_min < lo <= i32_max ->
  k_in_range_elem e lo hi = Ok ((- lo <=? e) && (e <=? hi)).
Proof.
  intros H. unfold k_in_range_elem, neg32, chk32, in_i32.
  replace ((i32_min <=? - lo) && (- lo <=? i32_max)) with true; [reflexivity|].
  symmetry. apply andb_true_iff. unfold i32_min, i32_max in *. split; apply Z.leb_le; lia.
Qed.
Lemma is_in_range_kernel w lo hi : i32_min < lo <= i32_max ->
  mapM (fun e => k_in_range_elem e lo hi) w = Ok (map (fun e => (- lo <=? e) && (e <=? hi)) w)
  /\ is_in_range w lo hi = forallb (fun b => b) (map (fun e => (- lo <=? e) && (e <=? hi)) w).
Proof.
  intros H. split.
  - induction w as [|x w IH]; [reflexivity|]. cbn [mapM map]. rewrite (k_in_range_elem_eq x lo hi H). cbn [bind]. rewrite IH. reflexivity.
  - unfold is_in_range. induction w as [|x w IH]; [reflexivity|]. cbn [forallb map]. rewrite IH. reflexivity.
Qed.
Lemma k_to_mont_coef_eq x : k_to_mont_coef x = to_mont_coef x.
Proof. kfrag. Qed.
Lemma k_add_coef_eq a b : k_add_coef a b = add32 a b.
Proof. kfrag. Qed.
Lemma k_acc_coef_eq acc a u : k_acc_coef acc a u = acc_coef acc a u.
Proof.
  unfold k_acc_coef, acc_coef, mul_mont_coef. cbv zeta. rewrite bind_assoc'.
  destruct (mul64 a u) as [p| | |]; cbn [bind]; try reflexivity. rewrite k_mont_reduce_eq.
  destruct (mont_reduce p) as [m| | |]; cbn [bind]; try reflexivity. apply bind_ret.
Qed.
Lemma k_abs_center_eq e : k_abs_center e = abs_center e.
Proof. kfrag. Qed.
Lemma k_p2r_hi_eq r : k_p2r_hi r = p2r_hi r.
Proof. kfrag. Qed.
Lemma k_p2r_lo_eq r r1 : k_p2r_lo r r1 = p2r_lo r r1.
Proof. kfrag. Qed.
Lemma k_p2r_check_eq r r1 r0 : k_p2r_check r r1 r0 = p2r_check r r1 r0.
Proof. kfrag. Qed.
(* forward butterfly: (hi', lo') = (lo - t, lo + t), t = mont_reduce (zeta * hi) *)
Lemma k_ntt_butterfly_eq zeta hi lo :
  k_ntt_butterfly zeta hi lo = (t <- fwd_t zeta hi ;; h <- sub32 lo t ;; l <- add32 lo t ;; Ok (h, l)).
Proof. unfold k_ntt_butterfly, fwd_t. cbv zeta. rewrite bind_assoc'. reflexivity. Qed.
Lemma k_inv_input_eq x : k_inv_input x = partial_reduce32 x.
Proof. kfrag. Qed.
Lemma k_inv_zeta_eq z : k_inv_zeta z = neg32 z.
Proof. kfrag. Qed.
(* inverse butterfly: (lo', hi') = (lo + hi, mont_reduce (zeta * (lo - hi))) *)
Lemma k_inv_butterfly_eq lo hi nz :
  k_inv_butterfly lo hi nz = (l <- add32 lo hi ;; h <- inv_hi nz lo hi ;; Ok (l, h)).
Proof.
  unfold k_inv_butterfly, inv_hi. cbv zeta. destruct (add32 lo hi); cbn [bind]; try reflexivity.
  rewrite !bind_assoc'. destruct (sub32 lo hi); cbn [bind]; try reflexivity. rewrite bind_assoc'. reflexivity.
Qed.
Lemma k_F_MONT_eq : k_F_MONT = F_MONT.
Proof. kfrag. Qed.
Lemma k_inv_final_eq x : k_inv_final x = inv_final x.
Proof.
  unfold k_inv_final, inv_final. cbv zeta. change 16382 with F_MONT.
  destruct (mul64 F_MONT x) as [p| | |]; cbn [bind]; try reflexivity. rewrite k_mont_reduce_eq.
  destruct (mont_reduce p) as [m| | |]; cbn [bind]; try reflexivity. rewrite k_full_reduce32_eq. apply bind_ret.
Qed.

(* one name for the whole tie, pinned by the property files *)
Theorem kernels_agree :
  (forall a, k_partial_reduce64 a = partial_reduce64 a) /\ (forall a, k_partial_reduce32 a = partial_reduce32 a) /\
  (forall a, k_full_reduce32 a = full_reduce32 a) /\ (forall m, k_center_mod m = center_mod m) /\
  (forall a, k_mont_reduce a = mont_reduce a) /\
  (forall g r, k_decompose g r = decompose g r) /\ (forall g r, k_high_bits g r = high_bits g r) /\
  (forall g r, k_low_bits g r = low_bits g r) /\ (forall g z r, k_make_hint g z r = make_hint g z r) /\
  (forall g h r, k_use_hint g h r = use_hint g h r) /\
  (forall ct b0 b1 b2, 0 <= b1 < 256 -> k_coeff_from_three_bytes ct b0 b1 b2 = coeff_from_three_bytes ct b0 b1 b2) /\
  (forall ct eta b, k_coeff_from_half_byte ct eta b = coeff_from_half_byte ct eta b) /\
  (forall e lo hi, i32_min < lo <= i32_max -> k_in_range_elem e lo hi = Ok ((- lo <=? e) && (e <=? hi))) /\
  (forall x, k_to_mont_coef x = to_mont_coef x) /\ (forall a b, k_add_coef a b = add32 a b) /\
  (forall acc a u, k_acc_coef acc a u = acc_coef acc a u) /\ (forall e, k_abs_center e = abs_center e) /\
  (forall r, k_p2r_hi r = p2r_hi r) /\ (forall r r1, k_p2r_lo r r1 = p2r_lo r r1) /\
  (forall r r1 r0, k_p2r_check r r1 r0 = p2r_check r r1 r0) /\
  (forall zeta hi lo, k_ntt_butterfly zeta hi lo = (t <- fwd_t zeta hi ;; h <- sub32 lo t ;; l <- add32 lo t ;; Ok (h, l))) /\
  (forall x, k_inv_input x = partial_reduce32 x) /\ (forall z, k_inv_zeta z = neg32 z) /\
  (forall lo hi nz, k_inv_butterfly lo hi nz = (l <- add32 lo hi ;; h <- inv_hi nz lo hi ;; Ok (l, h))) /\
  k_F_MONT = F_MONT /\ (forall x, k_inv_final x = inv_final x).
Proof.
  exact (conj k_partial_reduce64_eq (conj k_partial_reduce32_eq (conj k_full_reduce32_eq (conj k_center_mod_eq (conj k_mont_reduce_eq (conj k_decompose_eq (conj k_high_bits_eq (conj k_low_bits_eq (conj k_make_hint_eq (conj k_use_hint_eq (conj k_coeff_from_three_bytes_eq (conj k_coeff_from_half_byte_eq (conj k_in_range_elem_eq (conj k_to_mont_coef_eq (conj k_add_coef_eq (conj k_acc_coef_eq (conj k_abs_center_eq (conj k_p2r_hi_eq (conj k_p2r_lo_eq (conj k_p2r_check_eq (conj k_ntt_butterfly_eq (conj k_inv_input_eq (conj k_inv_zeta_eq (conj k_inv_butterfly_eq (conj k_F_MONT_eq k_inv_final_eq))))))))))))))))))))))))).
Qed.
Print Assumptions kernels_agree.

(* ---- ml_dsa.rs / lib.rs: per-coefficient closures, named after the vector they define ---- *)
Lemma k_keygen_coef_eq x : k_keygen_t x = full_reduce32 x /\ k_keygen_t1_d2_hat_mont x = mont_reduce (shl64 x D).
Proof. split; kfrag. Qed.
Lemma k_expand_public_coef_eq x : k_expand_public_t1_d2_hat_mont x = mont_reduce (shl64 x D).
Proof. kfrag. Qed.
Lemma k_sk_to_pk_coef_eq x :
  k_sk_to_pk_s_1_hat x = mont_reduce x /\ k_sk_to_pk_s_2 x = mont_reduce x /\ k_sk_to_pk_s_2_2 x = recenter x /\
  k_sk_to_pk_t x = full_reduce32 x /\ k_sk_to_pk_t1_d2_hat_mont x = mont_reduce (shl64 x D).
Proof. repeat apply conj; kfrag. Qed.
Lemma k_sk_bytes_coef_eq x :
  k_sk_bytes_s_1 x = mont_reduce x /\ k_sk_bytes_s_2 x = mont_reduce x /\ k_sk_bytes_t_0 x = mont_reduce x /\
  k_sk_bytes_s_1_2 x = recenter x /\ k_sk_bytes_s_2_2 x = recenter x /\ k_sk_bytes_t_0_2 x = recenter x.
Proof. repeat apply conj; kfrag. Qed.
Lemma k_pk_bytes_coef_eq x : k_pk_bytes_t1_d2 x = mont_reduce x /\ k_pk_bytes_t1 x = Ok (shr x D).
Proof. split; kfrag. Qed.
Lemma k_sign_coef_eq gamma2 a b c :
  k_sign_w_1 gamma2 a = high_bits gamma2 a /\ k_sign_cs1_hat a b = mul_mont_coef a b /\ k_sign_cs2_hat a b = mul_mont_coef a b /\
  k_sign_ct0_hat a b = mul_mont_coef a b /\
  k_sign_z a b = (s <- add32 a b ;; partial_reduce32 s) /\
  k_sign_r0 gamma2 a b = (s <- sub32 a b ;; p <- partial_reduce32 s ;; low_bits gamma2 p) /\
  k_sign_h gamma2 c a b = (x <- sub32 Q c ;; s <- sub32 a b ;; s <- add32 s c ;; p <- partial_reduce32 s ;;
                           hb <- make_hint gamma2 x p ;; Ok (Z.b2z hb)) /\
  k_sign_zmodq a = center_mod a.
Proof. repeat apply conj; kfrag. Qed.
Lemma k_verify_coef_eq gamma2 az ch t1 :
  k_verify_wp_approx az ch t1 = (m <- mul_mont_coef ch t1 ;; sub32 az m) /\ k_verify_wp_1 gamma2 az ch = use_hint gamma2 az ch.
Proof. split; [|kfrag]. unfold k_verify_wp_approx, mul_mont_coef. rewrite bind_assoc'. reflexivity. Qed.

(* ---- ml_dsa.rs: the decisions.  gamma - beta is a checked i32 subtraction in the code and a plain one in the model:
   they agree whenever the difference is an i32, in particular for the three parameter sets ---- *)
Lemma k_sign_reject1_eq ct zn g1 b r0n g2 : in_i32 (g1 - b) = true -> in_i32 (g2 - b) = true ->
  k_sign_reject1 ct zn g1 b r0n g2 = Ok (negb ct && ((g1 - b <=? zn) || (g2 - b <=? r0n))).
Proof.
  intros H1 H2. unfold k_sign_reject1, sub32, chk32. rewrite H1, H2. cbn [bind].
  destruct ct; cbn [negb andb bind]; [reflexivity|]. destruct (g1 - b <=? zn); reflexivity.
Qed.
Lemma k_sign_reject2_eq ct n g2 hs om : k_sign_reject2 ct n g2 hs om = Ok (negb ct && ((g2 <=? n) || (om <? hs))).
Proof. kfrag. Qed.
Lemma k_verify_left_eq zn g1 b : in_i32 (g1 - b) = true -> k_verify_left zn g1 b = Ok (zn <? g1 - b).
Proof. intros H1. unfold k_verify_left, sub32, chk32. rewrite H1. reflexivity. Qed.
Lemma params_gamma_beta P : In P all_params -> in_i32 (p_gamma1 P - p_beta P) = true /\ in_i32 (p_gamma2 P - p_beta P) = true.
Proof. intros [<-|[<-|[<-|[]]]]; split; reflexivity. Qed.

(* ---- the model's signing attempt and verification core, written with the regenerated kernels in place of the
   model's own per-coefficient functions: the same function (by computation) ---- *)
Lemma sign_attempt_with_kernels H ctest P sk cap_a_hat mu rho_prime kappa :
  sign_attempt H ctest P sk cap_a_hat mu rho_prime kappa =
  (let gamma1 := p_gamma1 P in let gamma2 := p_gamma2 P in let beta := p_beta P in
   y <- expand_mask H P rho_prime kappa ;;
   y_hat <- ntt y ;;
   ay_hat <- mat_vec_mul cap_a_hat y_hat ;;
   w <- inv_ntt ay_hat ;;
   w_1 <- mapM (mapM (k_sign_w_1 gamma2)) w ;;
   w1_tilde <- w1_encode P w_1 (p_w1_len P) ;;
   let c_tilde := h_shake256 H (mu ++ w1_tilde) (Z.to_nat (p_lambda_div4 P)) in
   c <- sample_in_ball H ctest (p_tau P) c_tilde ;;
   c_hat <- ntt_poly c ;;
   cs1_hat <- mapM (fun p => map2M k_sign_cs1_hat c_hat p) (sk_s_1_hat_mont sk) ;;
   c_s_1 <- inv_ntt cs1_hat ;;
   cs2_hat <- mapM (fun p => map2M k_sign_cs2_hat c_hat p) (sk_s_2_hat_mont sk) ;;
   c_s_2 <- inv_ntt cs2_hat ;;
   z <- map2M (map2M k_sign_z) y c_s_1 ;;
   r0 <- map2M (map2M (k_sign_r0 gamma2)) w c_s_2 ;;
   z_norm <- infinity_norm z ;;
   r0_norm <- infinity_norm r0 ;;
   if negb ctest && ((gamma1 - beta <=? z_norm) || (gamma2 - beta <=? r0_norm)) then Ok None
   else
     ct0_hat <- mapM (fun p => map2M k_sign_ct0_hat c_hat p) (sk_t_0_hat_mont sk) ;;
     c_t_0 <- inv_ntt ct0_hat ;;
     h <- map3M (map3M (fun wv cs2 ct0 => k_sign_h gamma2 ct0 wv cs2)) w c_s_2 c_t_0 ;;
     rej <- (if ctest then Ok false
             else n <- infinity_norm c_t_0 ;;
                  Ok ((gamma2 <=? n) || (p_omega P <? sum_hints h))) ;;
     if rej : bool then Ok None else Ok (Some (c_tilde, z, h))).
Proof. kfrag. Qed.

Lemma verify_core_with_kernels H ctest P pk sig :
  verify_core H ctest P pk sig =
  (let gamma1 := p_gamma1 P in let gamma2 := p_gamma2 P in
   match sig_decode P sig with
   | Err _ => Ok None
   | Panic s => Panic s
   | OutOfFuel => OutOfFuel
   | Ok (c_tilde, z, h) =>
       zn <- infinity_norm z ;;
       _ <- guard (zn <=? gamma1) "Alg 8: i_norm out of range" ;;
       c <- sample_in_ball H false (p_tau P) c_tilde ;;
       cap_a_hat <- expand_a H ctest P (pk_rho pk) ;;
       z_hat <- ntt z ;;
       az_hat <- mat_vec_mul cap_a_hat z_hat ;;
       c_hat <- ntt_poly c ;;
       diff <- map2M (fun azp t1p => map3M (fun az ch t1 => m <- mul_mont_coef ch t1 ;; sub32 az m) azp c_hat t1p)
                     az_hat (pk_t1_d2_hat_mont pk) ;;
       wp_approx <- inv_ntt diff ;;
       wp_1 <- map2M (map2M (k_verify_wp_1 gamma2)) h wp_approx ;;
       tmp <- w1_encode P wp_1 (p_w1_len P) ;;
       zn2 <- infinity_norm z ;;
       Ok (Some (c_tilde, tmp, zn2 <? gamma1 - p_beta P))
   end).
Proof. kfrag. Qed.

Theorem ml_dsa_kernels_agree :
  (forall x, k_keygen_t x = full_reduce32 x /\ k_keygen_t1_d2_hat_mont x = mont_reduce (shl64 x D)) /\
  (forall x, k_expand_public_t1_d2_hat_mont x = mont_reduce (shl64 x D)) /\
  (forall x, k_sk_to_pk_s_1_hat x = mont_reduce x /\ k_sk_to_pk_s_2 x = mont_reduce x /\ k_sk_to_pk_s_2_2 x = recenter x /\
             k_sk_to_pk_t x = full_reduce32 x /\ k_sk_to_pk_t1_d2_hat_mont x = mont_reduce (shl64 x D)) /\
  (forall x, k_sk_bytes_s_1 x = mont_reduce x /\ k_sk_bytes_s_2 x = mont_reduce x /\ k_sk_bytes_t_0 x = mont_reduce x /\
             k_sk_bytes_s_1_2 x = recenter x /\ k_sk_bytes_s_2_2 x = recenter x /\ k_sk_bytes_t_0_2 x = recenter x) /\
  (forall x, k_pk_bytes_t1_d2 x = mont_reduce x /\ k_pk_bytes_t1 x = Ok (shr x D)) /\
  (forall az ch t1, k_verify_wp_approx az ch t1 = (m <- mul_mont_coef ch t1 ;; sub32 az m)) /\
  (forall P ct zn r0n, In P all_params ->
     k_sign_reject1 ct zn (p_gamma1 P) (p_beta P) r0n (p_gamma2 P) =
     Ok (negb ct && ((p_gamma1 P - p_beta P <=? zn) || (p_gamma2 P - p_beta P <=? r0n)))) /\
  (forall ct n g2 hs om, k_sign_reject2 ct n g2 hs om = Ok (negb ct && ((g2 <=? n) || (om <? hs)))) /\
  (forall P zn, In P all_params -> k_verify_left zn (p_gamma1 P) (p_beta P) = Ok (zn <? p_gamma1 P - p_beta P)).
Proof.
  refine (conj k_keygen_coef_eq (conj k_expand_public_coef_eq (conj k_sk_to_pk_coef_eq (conj k_sk_bytes_coef_eq
          (conj k_pk_bytes_coef_eq (conj _ (conj _ (conj k_sign_reject2_eq _)))))))).
  - intros az ch t1. exact (proj1 (k_verify_coef_eq 0 az ch t1)).
  - intros P ct zn r0n HP. destruct (params_gamma_beta P HP) as [H1 H2]. apply k_sign_reject1_eq; assumption.
  - intros P zn HP. apply k_verify_left_eq. exact (proj1 (params_gamma_beta P HP)).
Qed.
Print Assumptions ml_dsa_kernels_agree.
Print Assumptions sign_attempt_with_kernels.
Print Assumptions verify_core_with_kernels.

(* ---- conversion.rs: the five exit / loop conditions of hint_bit_unpack (Algorithm 21) and the bound of its trailing-zero loop ---- *)
Lemma k_hbu_conds_eq c index omega first a b :
  k_hbu_cond1 c index omega = Ok ((c <? index) || (omega mod 256 <? c)) /\
  k_hbu_cond2 index c = Ok (index <? c) /\ k_hbu_cond3 index first = Ok (first <? index) /\
  k_hbu_cond4 a b = Ok (negb (a <? b)) /\ k_hbu_cond5 a = Ok (negb (a =? 0)) /\ k_hbu_tail_bound omega = Ok (omega mod 256).
Proof.
  repeat apply conj; try reflexivity. unfold k_hbu_cond4. rewrite Z.leb_antisym. reflexivity.
Qed.
(* the model's loops, written with the regenerated conditions *)
Lemma hbu_while_with_kernels f y lim first index p :
  hbu_while (S f) y lim first index p =
  (c2 <- k_hbu_cond2 index lim ;;
   if c2 : bool then
     ok <- (c3 <- k_hbu_cond3 index first ;;
            if c3 : bool then a <- get_byte y (index - 1) ;; b <- get_byte y index ;; c4 <- k_hbu_cond4 a b ;; Ok (negb c4)
            else Ok true) ;;
     if ok : bool then
       pos <- get_byte y index ;;
       _ <- guard (pos <? zlen p) "index out of bounds" ;;
       _ <- guard (index + 1 <? 256) "u8 add overflow" ;;
       hbu_while f y lim first (index + 1) (zupd p pos 1)
     else Err Malformed
   else Ok (p, index)).
Proof.
  cbn [hbu_while]. unfold k_hbu_cond2, k_hbu_cond3, k_hbu_cond4. cbn [bind].
  destruct (index <? lim); [|reflexivity]. destruct (first <? index); [|reflexivity].
  destruct (get_byte y (index - 1)) as [a| | |]; cbn [bind]; try reflexivity.
  destruct (get_byte y index) as [b| | |]; cbn [bind]; try reflexivity.
  rewrite Z.leb_antisym, negb_involutive. reflexivity.
Qed.
Lemma hbu_poly_with_kernels omega y acc index i :
  hbu_poly omega y (acc, index) i =
  (c <- get_byte y (omega + i) ;;
   c1 <- k_hbu_cond1 c index omega ;;
   if c1 : bool then Err Malformed
   else '(p, index') <- hbu_while 257 y c index index (zeros 256) ;; Ok (acc ++ [p], index')).
Proof. kfrag. Qed.
Print Assumptions k_hbu_conds_eq.
Print Assumptions hbu_while_with_kernels.
Print Assumptions hbu_poly_with_kernels.

(* ---- ml_dsa.rs: counter bookkeeping of the signing loop, pinned as source text: kappa starts at 0u16, both exits test
   `kappa_ctr <= kappa_max` with kappa_max = u16::MAX - 2*L and then advance by L - which is what Impl.MlDsa.sign_loop does
   (guard (lz P <? 65536); if kappa <=? 65535 - 2 * lz P then .. (kappa + lz P) else Err LoopLimit) after either exit ---- *)
Lemma sign_loop_bookkeeping :
  k_sign_kappa_init = "0u16"%string /\ k_sign_kappa_max = "u16::MAX - 2 * u16::try_from(L)"%string /\
  k_sign_kappa_steps = [("kappa_ctr <= kappa_max", "u16::try_from(L)"); ("kappa_ctr <= kappa_max", "u16::try_from(L)")]%string.
Proof. repeat apply conj; kfrag. Qed.
