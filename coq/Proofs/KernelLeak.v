(* C14 at source level: the leakage model of the arithmetic kernels.
   tools/gen_kernels.py (translator T4, release pass) regenerates Gen/KernelsLeak.v from /repo/src on every run: for each
   kernel r_<name> returns the value under release-profile semantics (wrapping arithmetic, debug assertions compiled out)
   together with its leakage trace - the list of branch decisions (if, early return, short-circuit && and ||) in evaluation
   order, callees included.  (The kernels index no memory with data: place expressions are inputs.)
   Proved here, for every input (no bound): the trace of every kernel that key generation and signing apply to secret
   coefficients does not depend on those coefficients - only on public parameters (gamma2, eta, the CTEST constant).
   Also recorded: the kernels that DO branch on their data (use_hint, the hint decoder's tests, the range test, the
   re-centring step of key serialisation/derivation) with a witness pair, so that nothing is claimed for them. *)
Require Import List ZArith Lia Bool String. Import ListNotations.
Require Import F204.Base.Util F204.Base.Mach F204.Gen.Params F204.Gen.Kernels F204.Gen.KernelsLeak
  F204.Impl.Helpers F204.Impl.HighLow F204.Impl.Conversion F204.Proofs.KernelAgree F204.Proofs.KernelLemmas.
Open Scope Z_scope.

Definition leak {A} (r : A * list bool) : list bool := snd r.

(* branch conditions that mention only public data occur on both sides of the goal: split on them *)
Ltac unfold_kernels := cbv beta iota zeta delta [leak snd fst app
  r_partial_reduce64 r_partial_reduce32 r_full_reduce32 r_center_mod r_mont_reduce r_decompose r_high_bits r_low_bits r_make_hint r_use_hint r_coeff_from_three_bytes r_coeff_from_half_byte r_in_range_elem r_to_mont_coef r_add_coef r_acc_coef r_abs_center r_p2r_hi r_p2r_lo r_p2r_check r_ntt_butterfly r_inv_input r_inv_zeta r_inv_butterfly r_inv_final r_keygen_t r_keygen_t1_d2_hat_mont r_sign_w_1 r_sign_cs1_hat r_sign_cs2_hat r_sign_z r_sign_r0 r_sign_ct0_hat r_sign_h r_sign_zmodq r_sign_reject1 r_sign_reject2 r_verify_wp_approx r_verify_wp_1 r_verify_left r_expand_public_t1_d2_hat_mont r_sk_to_pk_s_1_hat r_sk_to_pk_s_2 r_sk_to_pk_s_2_2 r_sk_to_pk_t r_sk_to_pk_t1_d2_hat_mont r_sk_bytes_s_1 r_sk_bytes_s_1_2 r_sk_bytes_s_2 r_sk_bytes_s_2_2 r_sk_bytes_t_0 r_sk_bytes_t_0_2 r_pk_bytes_t1_d2 r_pk_bytes_t1 r_hbu_cond1 r_hbu_cond2 r_hbu_cond3 r_hbu_cond4 r_hbu_cond5 r_hbu_tail_bound].
Ltac ct := intros; unfold_kernels;
  repeat match goal with |- context [if ?c then _ else _] => destruct c end; reflexivity.

(* ---- modular reductions and rounding: no branch at all ---- *)
Lemma leak_partial_reduce64 a a' : leak (r_partial_reduce64 a) = leak (r_partial_reduce64 a'). Proof. ct. Qed.
Lemma leak_partial_reduce32 a a' : leak (r_partial_reduce32 a) = leak (r_partial_reduce32 a'). Proof. ct. Qed.
Lemma leak_full_reduce32 a a' : leak (r_full_reduce32 a) = leak (r_full_reduce32 a'). Proof. ct. Qed.
Lemma leak_center_mod a a' : leak (r_center_mod a) = leak (r_center_mod a'). Proof. ct. Qed.
Lemma leak_mont_reduce a a' : leak (r_mont_reduce a) = leak (r_mont_reduce a'). Proof. ct. Qed.
(* Decompose / HighBits / LowBits / MakeHint: the only branch is on the public gamma2 *)
Lemma leak_decompose g r r' : leak (r_decompose g r) = leak (r_decompose g r'). Proof. ct. Qed.
Lemma leak_high_bits g r r' : leak (r_high_bits g r) = leak (r_high_bits g r'). Proof. ct. Qed.
Lemma leak_low_bits g r r' : leak (r_low_bits g r) = leak (r_low_bits g r'). Proof. ct. Qed.
Lemma leak_make_hint g z r z' r' : leak (r_make_hint g z r) = leak (r_make_hint g z' r'). Proof. ct. Qed.
(* per-coefficient bodies of helpers.rs / high_low.rs / ntt.rs *)
Lemma leak_to_mont_coef x x' : leak (r_to_mont_coef x) = leak (r_to_mont_coef x'). Proof. ct. Qed.
Lemma leak_add_coef a b a' b' : leak (r_add_coef a b) = leak (r_add_coef a' b'). Proof. ct. Qed.
Lemma leak_acc_coef a b c a' b' c' : leak (r_acc_coef a b c) = leak (r_acc_coef a' b' c'). Proof. ct. Qed.
Lemma leak_abs_center x x' : leak (r_abs_center x) = leak (r_abs_center x'). Proof. ct. Qed.
Lemma leak_p2r_hi x x' : leak (r_p2r_hi x) = leak (r_p2r_hi x'). Proof. ct. Qed.
Lemma leak_p2r_lo a b a' b' : leak (r_p2r_lo a b) = leak (r_p2r_lo a' b'). Proof. ct. Qed.
Lemma leak_ntt_butterfly z a b z' a' b' : leak (r_ntt_butterfly z a b) = leak (r_ntt_butterfly z' a' b'). Proof. ct. Qed.
Lemma leak_inv_input x x' : leak (r_inv_input x) = leak (r_inv_input x'). Proof. ct. Qed.
Lemma leak_inv_zeta x x' : leak (r_inv_zeta x) = leak (r_inv_zeta x'). Proof. ct. Qed.
Lemma leak_inv_butterfly a b z a' b' z' : leak (r_inv_butterfly a b z) = leak (r_inv_butterfly a' b' z'). Proof. ct. Qed.
Lemma leak_inv_final x x' : leak (r_inv_final x) = leak (r_inv_final x'). Proof. ct. Qed.
(* per-coefficient closures of key_gen_internal and sign_internal (gamma2 public, everything else secret-derived) *)
Lemma leak_keygen_t x x' : leak (r_keygen_t x) = leak (r_keygen_t x'). Proof. ct. Qed.
Lemma leak_keygen_t1 x x' : leak (r_keygen_t1_d2_hat_mont x) = leak (r_keygen_t1_d2_hat_mont x'). Proof. ct. Qed.
Lemma leak_sign_w_1 g x x' : leak (r_sign_w_1 g x) = leak (r_sign_w_1 g x'). Proof. ct. Qed.
Lemma leak_sign_cs1_hat a b a' b' : leak (r_sign_cs1_hat a b) = leak (r_sign_cs1_hat a' b'). Proof. ct. Qed.
Lemma leak_sign_cs2_hat a b a' b' : leak (r_sign_cs2_hat a b) = leak (r_sign_cs2_hat a' b'). Proof. ct. Qed.
Lemma leak_sign_ct0_hat a b a' b' : leak (r_sign_ct0_hat a b) = leak (r_sign_ct0_hat a' b'). Proof. ct. Qed.
Lemma leak_sign_z a b a' b' : leak (r_sign_z a b) = leak (r_sign_z a' b'). Proof. ct. Qed.
Lemma leak_sign_r0 g a b a' b' : leak (r_sign_r0 g a b) = leak (r_sign_r0 g a' b'). Proof. ct. Qed.
Lemma leak_sign_h g a b c a' b' c' : leak (r_sign_h g a b c) = leak (r_sign_h g a' b' c'). Proof. ct. Qed.
Lemma leak_sign_zmodq x x' : leak (r_sign_zmodq x) = leak (r_sign_zmodq x'). Proof. ct. Qed.
(* the two rejection tests in constant-time test mode: one decision, on the constant *)
Lemma leak_sign_reject1_ctest zn g1 b r0n g2 zn' r0n' :
  leak (r_sign_reject1 true zn g1 b r0n g2) = leak (r_sign_reject1 true zn' g1 b r0n' g2)
  /\ fst (r_sign_reject1 true zn g1 b r0n g2) = false.
Proof. split; reflexivity. Qed.
Lemma leak_sign_reject2_ctest n g2 hs om n' hs' :
  leak (r_sign_reject2 true n g2 hs om) = leak (r_sign_reject2 true n' g2 hs' om)
  /\ fst (r_sign_reject2 true n g2 hs om) = false.
Proof. split; reflexivity. Qed.

(* ---- the samplers' coefficient functions in constant-time test mode ---- *)
(* CoeffFromHalfByte (ExpandS: secret): for both eta and all 16 half-bytes the trace is that of the half-byte 0 *)
Lemma leak_half_byte_ctest eta b : eta = 2 \/ eta = 4 -> 0 <= b < 16 ->
  leak (r_coeff_from_half_byte true eta b) = leak (r_coeff_from_half_byte true eta 0).
Proof.
  intros He Hb. rewrite <- (Z2Nat.id b) by lia. assert (Hn : (Z.to_nat b < 16)%nat) by lia. revert Hn. generalize (Z.to_nat b). intros n Hn.
  destruct He as [-> | ->]; do 16 (destruct n as [|n]; [reflexivity|]); lia.
Qed.
(* CoeffFromThreeBytes (ExpandA: public, stated for completeness): with CTEST no candidate is rejected *)
Lemma leak_three_bytes_ctest b0 b1 b2 : 0 <= b0 < 256 -> 0 <= b1 < 256 -> 0 <= b2 < 256 ->
  leak (r_coeff_from_three_bytes true b0 b1 b2) = [true; true].
Proof.
  intros H0 H1 H2. destruct (coeff_from_three_bytes_ctest b0 b1 b2 H0 H1 H2) as (z & E & R).
  rewrite <- (k_coeff_from_three_bytes_eq true b0 b1 b2 H1) in E. cbv beta iota zeta delta [k_coeff_from_three_bytes] in E.
  unfold_kernels.
  match type of E with (if ?c then _ else _) = _ => destruct c eqn:Ec; [|discriminate] end.
  reflexivity.
Qed.

(* ---- kernels that do branch on their data: nothing is claimed for them (witness pairs) ---- *)
Lemma use_hint_branches_on_data : exists g h r r', leak (r_use_hint g h r) <> leak (r_use_hint g h r').
Proof. exists 95232, 1, 0, 100000. vm_compute. discriminate. Qed.
Lemma in_range_elem_branches_on_data : exists e e' lo hi, leak (r_in_range_elem e lo hi) <> leak (r_in_range_elem e' lo hi).
Proof. exists 0, (-5), 1, 1. vm_compute. discriminate. Qed.
(* the re-centring `if x > Q/2 { x - Q } else { x }` of PrivateKey::into_bytes and of get_public_key is a branch on a
   secret coefficient (outside key generation + signing, the scope of C14; recorded as an observation in DESIGN.md) *)
Lemma recenter_branches_on_data : exists x x', leak (r_sk_bytes_s_1_2 x) <> leak (r_sk_bytes_s_1_2 x') /\ leak (r_sk_to_pk_s_2_2 x) <> leak (r_sk_to_pk_s_2_2 x').
Proof. exists 0, 8380416. split; vm_compute; discriminate. Qed.

(* ---- one statement for the property file ---- *)
Theorem kernel_traces_are_secret_independent :
  (forall a a', leak (r_partial_reduce64 a) = leak (r_partial_reduce64 a')) /\
  (forall a a', leak (r_partial_reduce32 a) = leak (r_partial_reduce32 a')) /\
  (forall a a', leak (r_full_reduce32 a) = leak (r_full_reduce32 a')) /\
  (forall a a', leak (r_center_mod a) = leak (r_center_mod a')) /\
  (forall a a', leak (r_mont_reduce a) = leak (r_mont_reduce a')) /\
  (forall g r r', leak (r_decompose g r) = leak (r_decompose g r')) /\
  (forall g r r', leak (r_high_bits g r) = leak (r_high_bits g r')) /\
  (forall g r r', leak (r_low_bits g r) = leak (r_low_bits g r')) /\
  (forall g z r z' r', leak (r_make_hint g z r) = leak (r_make_hint g z' r')) /\
  (forall x x', leak (r_to_mont_coef x) = leak (r_to_mont_coef x')) /\
  (forall a b a' b', leak (r_add_coef a b) = leak (r_add_coef a' b')) /\
  (forall a b c a' b' c', leak (r_acc_coef a b c) = leak (r_acc_coef a' b' c')) /\
  (forall x x', leak (r_abs_center x) = leak (r_abs_center x')) /\
  (forall x x', leak (r_p2r_hi x) = leak (r_p2r_hi x')) /\
  (forall a b a' b', leak (r_p2r_lo a b) = leak (r_p2r_lo a' b')) /\
  (forall z a b z' a' b', leak (r_ntt_butterfly z a b) = leak (r_ntt_butterfly z' a' b')) /\
  (forall x x', leak (r_inv_input x) = leak (r_inv_input x')) /\
  (forall x x', leak (r_inv_zeta x) = leak (r_inv_zeta x')) /\
  (forall a b z a' b' z', leak (r_inv_butterfly a b z) = leak (r_inv_butterfly a' b' z')) /\
  (forall x x', leak (r_inv_final x) = leak (r_inv_final x')) /\
  (forall x x', leak (r_keygen_t x) = leak (r_keygen_t x')) /\
  (forall x x', leak (r_keygen_t1_d2_hat_mont x) = leak (r_keygen_t1_d2_hat_mont x')) /\
  (forall g x x', leak (r_sign_w_1 g x) = leak (r_sign_w_1 g x')) /\
  (forall a b a' b', leak (r_sign_cs1_hat a b) = leak (r_sign_cs1_hat a' b')) /\
  (forall a b a' b', leak (r_sign_cs2_hat a b) = leak (r_sign_cs2_hat a' b')) /\
  (forall a b a' b', leak (r_sign_ct0_hat a b) = leak (r_sign_ct0_hat a' b')) /\
  (forall a b a' b', leak (r_sign_z a b) = leak (r_sign_z a' b')) /\
  (forall g a b a' b', leak (r_sign_r0 g a b) = leak (r_sign_r0 g a' b')) /\
  (forall g a b c a' b' c', leak (r_sign_h g a b c) = leak (r_sign_h g a' b' c')) /\
  (forall x x', leak (r_sign_zmodq x) = leak (r_sign_zmodq x')) /\
  (forall zn g1 b r0n g2 zn' r0n', leak (r_sign_reject1 true zn g1 b r0n g2) = leak (r_sign_reject1 true zn' g1 b r0n' g2)) /\
  (forall n g2 hs om n' hs', leak (r_sign_reject2 true n g2 hs om) = leak (r_sign_reject2 true n' g2 hs' om)) /\
  (forall eta b, eta = 2 \/ eta = 4 -> 0 <= b < 16 -> leak (r_coeff_from_half_byte true eta b) = leak (r_coeff_from_half_byte true eta 0)).
Proof.
  exact (conj leak_partial_reduce64 (conj leak_partial_reduce32 (conj leak_full_reduce32 (conj leak_center_mod (conj leak_mont_reduce
        (conj leak_decompose (conj leak_high_bits (conj leak_low_bits (conj leak_make_hint (conj leak_to_mont_coef (conj leak_add_coef
        (conj leak_acc_coef (conj leak_abs_center (conj leak_p2r_hi (conj leak_p2r_lo (conj leak_ntt_butterfly (conj leak_inv_input
        (conj leak_inv_zeta (conj leak_inv_butterfly (conj leak_inv_final (conj leak_keygen_t (conj leak_keygen_t1 (conj leak_sign_w_1
        (conj leak_sign_cs1_hat (conj leak_sign_cs2_hat (conj leak_sign_ct0_hat (conj leak_sign_z (conj leak_sign_r0 (conj leak_sign_h
        (conj leak_sign_zmodq (conj (fun zn g1 b r0n g2 zn' r0n' => proj1 (leak_sign_reject1_ctest zn g1 b r0n g2 zn' r0n'))
        (conj (fun n g2 hs om n' hs' => proj1 (leak_sign_reject2_ctest n g2 hs om n' hs')) leak_half_byte_ctest)))))))))))))))))))))))))))))))).
Qed.
Print Assumptions kernel_traces_are_secret_independent.

(* ---- the release-semantics value of a kernel is the checked model's value whenever the checked model returns one
   (so the leakage model describes the same computation the refinement theorems are about) ---- *)
Lemma bind_Ok_inv {A B} (m : res A) (f : A -> res B) z : bind m f = Ok z -> exists a, m = Ok a /\ f a = Ok z.
Proof. destruct m; cbn; try discriminate. intros H. eexists. split; [reflexivity|exact H]. Qed.
Lemma chk32_Ok_inv s e z : chk32 s e = Ok z -> z = e /\ wrap32 e = e.
Proof.
  unfold chk32. destruct (in_i32 e) eqn:E; [|discriminate]. intros [= <-]. split; [reflexivity|].
  apply wrap32_id. unfold in_i32 in E. apply andb_true_iff in E. destruct E as [E1 E2]. apply Z.leb_le in E1, E2. lia.
Qed.
Lemma chk64_Ok_inv s e z : chk64 s e = Ok z -> z = e /\ wrap64 e = e.
Proof.
  unfold chk64. destruct (in_i64 e) eqn:E; [|discriminate]. intros [= <-]. split; [reflexivity|].
  apply wrap64_id. unfold in_i64 in E. apply andb_true_iff in E. destruct E as [E1 E2]. apply Z.leb_le in E1, E2. lia.
Qed.

(* one inversion step on H : bind m f = Ok z *)
Ltac inv1 H :=
  apply bind_Ok_inv in H;
  let a := fresh "a" in let Ha := fresh "Ha" in
  destruct H as (a & Ha & H);
  first [ apply chk32_Ok_inv in Ha; destruct Ha as [-> Ha]
        | apply chk64_Ok_inv in Ha; destruct Ha as [-> Ha]
        | match type of a with unit => destruct a; clear Ha end      (* a guard *)
        | idtac ].
Ltac unwrap := repeat match reverse goal with Hw : wrap32 ?e = ?e |- _ => progress rewrite !Hw
                                             | Hw : wrap64 ?e = ?e |- _ => progress rewrite !Hw end.

Ltac inv_all H := repeat (match type of H with bind _ _ = Ok _ => inv1 H end).
Lemma Ok_inj {A} (a b : A) : @Ok A a = Ok b -> a = b.
Proof. intros [= E]. exact E. Qed.
Ltac rel_straight k r := let H := fresh "H" in
  intros H; cbv beta zeta delta [k] in H; inv_all H; apply Ok_inj in H; subst; cbv beta zeta delta [r]; unwrap; reflexivity.

Lemma rel_partial_reduce64 a z : k_partial_reduce64 a = Ok z -> r_partial_reduce64 a = (z, []).
Proof. rel_straight k_partial_reduce64 r_partial_reduce64. Qed.
Lemma rel_partial_reduce32 a z : k_partial_reduce32 a = Ok z -> r_partial_reduce32 a = (z, []).
Proof. rel_straight k_partial_reduce32 r_partial_reduce32. Qed.
Lemma rel_mont_reduce a z : k_mont_reduce a = Ok z -> r_mont_reduce a = (z, []).
Proof. rel_straight k_mont_reduce r_mont_reduce. Qed.
Lemma rel_full_reduce32 a z : k_full_reduce32 a = Ok z -> r_full_reduce32 a = (z, []).
Proof.
  intros H. cbv beta zeta delta [k_full_reduce32] in H. inv_all H. apply Ok_inj in H. subst.
  cbv beta zeta delta [r_full_reduce32].
  match goal with Hc : k_partial_reduce32 _ = Ok _ |- _ => rewrite (rel_partial_reduce32 _ _ Hc) end.
  cbv beta iota zeta. unwrap. reflexivity.
Qed.
Lemma rel_center_mod a z : k_center_mod a = Ok z -> r_center_mod a = (z, []).
Proof.
  intros H. cbv beta zeta delta [k_center_mod] in H. inv_all H. apply Ok_inj in H. subst.
  cbv beta zeta delta [r_center_mod].
  match goal with Hc : k_full_reduce32 _ = Ok _ |- _ => rewrite (rel_full_reduce32 _ _ Hc) end.
  cbv beta iota zeta. unwrap. reflexivity.
Qed.
Lemma rel_decompose g r z : k_decompose g r = Ok z -> r_decompose g r = (z, [Z.land g 131072 =? 0]).
Proof.
  intros H. cbv beta zeta delta [k_decompose] in H. inv1 H. inv1 H.
  cbv beta zeta delta [r_decompose].
  match goal with Hc : k_full_reduce32 _ = Ok _ |- _ => rewrite (rel_full_reduce32 _ _ Hc) end.
  cbv beta iota zeta. cbn [app].
  match goal with Hb : (if _ then _ else _) = Ok _ |- _ => rename Hb into Hbr end.
  destruct (Z.land g 131072 =? 0).
  - inv_all Hbr. apply Ok_inj in Hbr. subst. inv_all H. apply Ok_inj in H. subst. unwrap. reflexivity.
  - inv_all Hbr. apply Ok_inj in Hbr. subst. inv_all H. apply Ok_inj in H. subst. unwrap. reflexivity.
Qed.
Ltac use_rel lem := match goal with Hc : _ = Ok _ |- _ => first [rewrite (lem _ _ Hc) | rewrite (lem _ _ _ Hc)]; clear Hc end.
Lemma rel_high_bits g r z : k_high_bits g r = Ok z -> r_high_bits g r = (z, [Z.land g 131072 =? 0]).
Proof.
  intros H. cbv beta zeta delta [k_high_bits] in H. inv1 H. cbv beta zeta delta [r_high_bits]. use_rel rel_decompose.
  destruct a as [r1 r0]. apply Ok_inj in H. subst. reflexivity.
Qed.
Lemma rel_low_bits g r z : k_low_bits g r = Ok z -> r_low_bits g r = (z, [Z.land g 131072 =? 0]).
Proof.
  intros H. cbv beta zeta delta [k_low_bits] in H. inv1 H. cbv beta zeta delta [r_low_bits]. use_rel rel_decompose.
  destruct a as [r1 r0]. apply Ok_inj in H. subst. reflexivity.
Qed.
Lemma rel_make_hint g z r b : k_make_hint g z r = Ok b -> r_make_hint g z r = (b, [Z.land g 131072 =? 0; Z.land g 131072 =? 0]).
Proof.
  intros H. cbv beta zeta delta [k_make_hint] in H. inv1 H. inv1 H. inv1 H. apply Ok_inj in H. subst.
  cbv beta zeta delta [r_make_hint].
  match goal with H1 : k_high_bits g r = Ok _, H2 : k_high_bits g (r + z) = Ok _ |- _ =>
    rewrite (rel_high_bits _ _ _ H1); unwrap; rewrite (rel_high_bits _ _ _ H2) end.
  reflexivity.
Qed.
(* per-coefficient closures of sign_internal *)
Lemma rel_sign_z a b z : k_sign_z a b = Ok z -> r_sign_z a b = (z, []).
Proof.
  intros H. cbv beta zeta delta [k_sign_z] in H. inv1 H. cbv beta zeta delta [r_sign_z]. unwrap. use_rel rel_partial_reduce32. reflexivity.
Qed.
Lemma rel_sign_r0 g a b z : k_sign_r0 g a b = Ok z -> r_sign_r0 g a b = (z, [Z.land g 131072 =? 0]).
Proof.
  intros H. cbv beta zeta delta [k_sign_r0] in H. inv1 H. inv1 H. cbv beta zeta delta [r_sign_r0]. unwrap.
  match goal with H1 : k_partial_reduce32 _ = Ok _ |- _ => rewrite (rel_partial_reduce32 _ _ H1) end.
  cbv beta iota zeta. rewrite (rel_low_bits _ _ _ H). reflexivity.
Qed.
Lemma rel_mul_mont a b z : k_sign_cs1_hat a b = Ok z -> r_sign_cs1_hat a b = (z, []).
Proof.
  intros H. cbv beta zeta delta [k_sign_cs1_hat] in H. inv1 H. cbv beta zeta delta [r_sign_cs1_hat]. unwrap. rewrite (rel_mont_reduce _ _ H). reflexivity.
Qed.
Lemma rel_ntt_butterfly zeta hi lo z : k_ntt_butterfly zeta hi lo = Ok z -> r_ntt_butterfly zeta hi lo = (z, []).
Proof.
  intros H. cbv beta zeta delta [k_ntt_butterfly] in H. inv1 H. inv1 H. inv1 H. inv1 H. apply Ok_inj in H. subst.
  cbv beta zeta delta [r_ntt_butterfly]. unwrap.
  match goal with H1 : k_mont_reduce _ = Ok _ |- _ => rewrite (rel_mont_reduce _ _ H1) end. cbv beta iota zeta. unwrap. reflexivity.
Qed.
Lemma rel_inv_butterfly lo hi nz z : k_inv_butterfly lo hi nz = Ok z -> r_inv_butterfly lo hi nz = (z, []).
Proof.
  intros H. cbv beta zeta delta [k_inv_butterfly] in H. inv1 H. inv1 H. inv1 H. inv1 H. apply Ok_inj in H. subst.
  cbv beta zeta delta [r_inv_butterfly]. unwrap.
  match goal with H1 : k_mont_reduce _ = Ok _ |- _ => rewrite (rel_mont_reduce _ _ H1) end. reflexivity.
Qed.

Theorem release_values_agree :
  (forall a z, k_partial_reduce64 a = Ok z -> fst (r_partial_reduce64 a) = z) /\
  (forall a z, k_partial_reduce32 a = Ok z -> fst (r_partial_reduce32 a) = z) /\
  (forall a z, k_full_reduce32 a = Ok z -> fst (r_full_reduce32 a) = z) /\
  (forall a z, k_center_mod a = Ok z -> fst (r_center_mod a) = z) /\
  (forall a z, k_mont_reduce a = Ok z -> fst (r_mont_reduce a) = z) /\
  (forall g r z, k_decompose g r = Ok z -> fst (r_decompose g r) = z) /\
  (forall g z r b, k_make_hint g z r = Ok b -> fst (r_make_hint g z r) = b) /\
  (forall a b z, k_sign_z a b = Ok z -> fst (r_sign_z a b) = z) /\
  (forall g a b z, k_sign_r0 g a b = Ok z -> fst (r_sign_r0 g a b) = z) /\
  (forall zeta hi lo z, k_ntt_butterfly zeta hi lo = Ok z -> fst (r_ntt_butterfly zeta hi lo) = z) /\
  (forall lo hi nz z, k_inv_butterfly lo hi nz = Ok z -> fst (r_inv_butterfly lo hi nz) = z).
Proof.
  repeat apply conj; intros.
  - rewrite (rel_partial_reduce64 _ _ H). reflexivity. - rewrite (rel_partial_reduce32 _ _ H). reflexivity.
  - rewrite (rel_full_reduce32 _ _ H). reflexivity. - rewrite (rel_center_mod _ _ H). reflexivity.
  - rewrite (rel_mont_reduce _ _ H). reflexivity. - rewrite (rel_decompose _ _ _ H). reflexivity.
  - rewrite (rel_make_hint _ _ _ _ H). reflexivity. - rewrite (rel_sign_z _ _ _ H). reflexivity.
  - rewrite (rel_sign_r0 _ _ _ _ H). reflexivity. - rewrite (rel_ntt_butterfly _ _ _ _ H). reflexivity.
  - rewrite (rel_inv_butterfly _ _ _ _ H). reflexivity.
Qed.
Print Assumptions release_values_agree.
