(* Exactness and range of every scalar kernel of helpers.rs / high_low.rs / conversion.rs:
   the implementation model (checked machine arithmetic, debug_assert! as guard) returns Ok and
   equals the FIPS 204 definition (Spec) on the whole stated domain. *)
Require Import F204.Base.Util F204.Base.Mach F204.Base.Bits F204.Gen.Params
  F204.Impl.Helpers F204.Impl.HighLow F204.Impl.Conversion
  F204.Spec.SpecConv F204.Spec.SpecRound F204.Spec.SpecNtt.
(* the kernels these lemmas are about are the ones regenerated from /repo/src on every run (translator T4) *)
Require F204.Proofs.KernelAgree.
Open Scope Z_scope.
Ltac Zify.zify_post_hook ::= Z.div_mod_to_equations.

Ltac ok32 := rewrite chk32_ok by (unfold i32_min, i32_max; lia).
Ltac ok64 := rewrite chk64_ok by (unfold i64_min, i64_max; lia).
Ltac gtrue := match goal with |- context [guard ?c _] => replace c with true by (symmetry; lia) end; cbn [guard bind].

Lemma guard_true s : guard true s = Ok tt. Proof. reflexivity. Qed.

(* ---------- partial_reduce32 / full_reduce32 / center_mod ---------- *)
Definition PR32_OUT : Z := 4194304 + 255 * 8191.   (* 2^22 + 255*(2^13 - 1) < Q *)

Lemma partial_reduce32_spec a : Z.abs a < PR32_BOUND ->
  exists r, partial_reduce32 a = Ok r /\ r mod Q = a mod Q /\ Z.abs r <= PR32_OUT.
Proof.
  unfold PR32_BOUND, PR32_OUT. intros Ha.
  unfold partial_reduce32, abs32, add32, mul32, sub32, PR32_BOUND, Q.
  ok32. cbn [bind]. replace (Z.abs a <? 2143289344) with true by (symmetry; lia). cbn [guard bind].
  ok32. cbn [bind]. rewrite shr_div by lia. change (2 ^ 23) with 8388608.
  ok32. cbn [bind]. ok32. cbn [bind].
  set (r := a - (a + 4194304) / 8388608 * 8380417).
  assert (Hr : Z.abs r <= 4194304 + 255 * 8191) by (unfold r; lia).
  ok32. cbn [bind]. replace (Z.abs r <? 8380417) with true by (symmetry; lia). cbn [guard bind].
  exists r. split; [reflexivity|]. split; [|exact Hr].
  unfold r. rewrite <- Zminus_mod_idemp_r. rewrite Z_mod_mult. f_equal. lia.
Qed.

Lemma full_reduce32_spec a : Z.abs a < PR32_BOUND -> full_reduce32 a = Ok (a mod Q).
Proof.
  intros Ha. destruct (partial_reduce32_spec a Ha) as (r & E & Hm & Hb).
  unfold PR32_BOUND, PR32_OUT in *.
  unfold full_reduce32, abs32, add32, PR32_BOUND.
  ok32. cbn [bind]. replace (Z.abs a <? 2143289344) with true by (symmetry; lia). cbn [guard bind].
  rewrite E. cbn [bind]. rewrite sign_mask by lia. unfold Q in *.
  destruct (r <? 0) eqn:En.
  - apply Z.ltb_lt in En. ok32. cbn [bind].
    replace (r + 8380417 <? 8380417) with true by (symmetry; lia). cbn [guard bind]. f_equal.
    rewrite <- Hm. rewrite <- (Z.mod_small (r + 8380417) 8380417) by lia.
    rewrite <- Z.add_mod_idemp_r by lia. rewrite Z.mod_same by lia. f_equal. lia.
  - apply Z.ltb_ge in En. ok32. cbn [bind].
    replace (r + 0 <? 8380417) with true by (symmetry; lia). cbn [guard bind]. f_equal.
    rewrite <- Hm. rewrite Z.mod_small by lia. lia.
Qed.

Lemma center_mod_spec a : Z.abs a < PR32_BOUND -> center_mod a = Ok (mod_pm a q).
Proof.
  intros Ha. unfold center_mod, abs32, PR32_BOUND in *.
  ok32. cbn [bind]. replace (Z.abs a <? 2143289344) with true by (symmetry; lia). cbn [guard bind].
  rewrite full_reduce32_spec by (unfold PR32_BOUND; lia). cbn [bind].
  unfold sub32, Q_HALF, q, Q in *.
  assert (Hr : 0 <= a mod 8380417 < 8380417) by (apply Z.mod_pos_bound; lia).
  set (t := a mod 8380417) in *. change (8380417 / 2) with 4190208.
  ok32. cbn [bind]. rewrite sign_mask by lia.
  unfold mod_pm. fold t. change (8380417 / 2) with 4190208.
  destruct (4190208 - t <? 0) eqn:E1; destruct (t <=? 4190208) eqn:E2; try lia.
  - ok32. cbn [bind].
    match goal with |- context [guard (?x =? ?y) _] => replace (x =? y) with true end; [reflexivity|].
    symmetry. apply Z.eqb_eq.
    replace (t - 8380417) with (t + (-1) * 8380417) by lia. rewrite Z_mod_plus_full. rewrite Z.mod_small; lia.
  - ok32. cbn [bind]. rewrite Z.sub_0_r.
    match goal with |- context [guard (?x =? ?y) _] => replace (x =? y) with true end; [reflexivity|].
    symmetry. apply Z.eqb_eq. rewrite Z.mod_small; lia.
Qed.

(* ---------- mont_reduce ---------- *)
Lemma mont_reduce_spec a : MONT_LO <= a <= MONT_HI ->
  exists r, mont_reduce a = Ok r /\ r * 4294967296 mod Q = a mod Q /\ - Q < r < Q
            /\ Z.abs r * 4294967296 <= Z.abs a + 2147483648 * Q.
Proof.
  unfold MONT_LO, MONT_HI. intros Ha. unfold mont_reduce, MONT_LO, MONT_HI, sub64.
  replace (-17996808479301632 <=? a) with true by (symmetry; lia).
  replace (a <=? 17996808470921215) with true by (symmetry; lia). cbn [guard bind].
  rewrite !wrap32_eq. unfold QINV, Q.
  set (w := (a + 2147483648) mod 4294967296 - 2147483648).
  set (t := (w * 58728449 + 2147483648) mod 4294967296 - 2147483648).
  assert (Ht : -2147483648 <= t < 2147483648) by (unfold t; lia).
  rewrite wrap64_id by (unfold i64_min, i64_max; lia).
  ok64. cbn [bind]. rewrite shr_div by lia. change (2 ^ 32) with 4294967296.
  assert (Hd : (a - t * 8380417) mod 4294967296 = 0).
  { unfold t, w. lia. }
  set (dd := a - t * 8380417) in *.
  assert (Hex : dd = dd / 4294967296 * 4294967296) by lia.
  set (r := dd / 4294967296) in *.
  assert (Hr : -8380417 < r < 8380417) by (unfold dd in Hex; lia).
  gtrue. gtrue.
  rewrite wrap32_id by (unfold i32_min, i32_max; lia).
  exists r. split; [reflexivity|]. split; [|split; [lia|]].
  - rewrite <- Hex. unfold dd. replace (a - t * 8380417) with (a + (- t) * 8380417) by lia.
    apply Z_mod_plus_full.
  - unfold dd in Hex. lia.
Qed.

(* ---------- partial_reduce64 on the only shape its caller supplies: x << 32 ---------- *)
Lemma to_mont_coef_spec x : Z.abs x < 67058539 ->
  exists r, to_mont_coef x = Ok r /\ r mod Q = (x * 4294967296) mod Q /\ Z.abs r < 2 * Q.
Proof.
  intros Hx. unfold to_mont_coef, shl64. rewrite Z.shiftl_mul_pow2 by lia. change (2 ^ 32) with 4294967296.
  rewrite wrap64_id by (unfold i64_min, i64_max; lia).
  unfold partial_reduce64, abs64, mul64, sub64, PR64_BOUND, PR64_M, TWO_Q, Q.
  ok64. cbn [bind]. replace (Z.abs (x * 4294967296) <? 288014231922540544) with true by (symmetry; lia).
  cbn [guard bind]. rewrite shr_div by lia. change (2 ^ 23) with 8388608.
  set (a := x * 4294967296).
  assert (Ha : Z.abs a <= 67058538 * 4294967296) by (unfold a; lia).
  ok64. cbn [bind]. ok64. cbn [bind].
  set (a1 := a - a / 8388608 * 8380417).
  assert (Ha1 : Z.abs a1 <= Z.abs a / 1023 + 8396800) by (unfold a1; lia).
  rewrite shr_div by lia. change (2 ^ 23) with 8388608.
  ok64. cbn [bind]. ok64. cbn [bind].
  set (a2 := a1 - a1 / 8388608 * 8380417).
  assert (Ha2 : Z.abs a2 <= Z.abs a1 / 1023 + 8396800) by (unfold a2; lia).
  ok64. cbn [bind]. rewrite shr_div by lia. change (2 ^ 48) with 281474976710656.
  ok64. cbn [bind]. ok64. cbn [bind].
  set (r := a2 - a2 * 33587228 / 281474976710656 * 8380417).
  assert (Hr : Z.abs r < 2 * 8380417) by (unfold r; lia).
  ok64. cbn [bind]. gtrue.
  rewrite wrap32_id by (unfold i32_min, i32_max; lia).
  exists r. split; [reflexivity|]. split; [|exact Hr].
  unfold r, a2, a1.
  repeat (rewrite <- Zminus_mod_idemp_r; rewrite Z_mod_mult; rewrite Z.sub_0_r).
  reflexivity.
Qed.

(* ---------- decompose / high_bits / low_bits ---------- *)
Definition okb44 u := (u * 11275 + 8388608) / 16777216 =? (u + 743) / 1488.
Lemma sweep44 : allupto okb44 (Z.to_nat 65474) 0 = true. Proof. vm_compute. reflexivity. Qed.
Lemma mulshift44 u : 0 <= u <= 65473 -> (u * 11275 + 8388608) / 16777216 = (u + 743) / 1488.
Proof. intros. apply Z.eqb_eq. apply (allupto_spec okb44 _ 0 sweep44). rewrite Z2Nat.id; lia. Qed.
Definition okb65 u := (u * 1025 + 2097152) / 4194304 =? (u + 2045) / 4092.
Lemma sweep65 : allupto okb65 (Z.to_nat 65474) 0 = true. Proof. vm_compute. reflexivity. Qed.
Lemma mulshift65 u : 0 <= u <= 65473 -> (u * 1025 + 2097152) / 4194304 = (u + 2045) / 4092.
Proof. intros. apply Z.eqb_eq. apply (allupto_spec okb65 _ 0 sweep65). rewrite Z2Nat.id; lia. Qed.

Lemma land15 v : 0 <= v <= 16 -> Z.land v 15 = if v =? 16 then 0 else v.
Proof.
  intros. change 15 with (Z.ones 4). rewrite Z.land_ones by lia. change (2 ^ 4) with 16.
  destruct (v =? 16) eqn:E; lia.
Qed.

Definition G44 : Z := 95232.
Definition G65 : Z := 261888.
Lemma gamma2_values : p_gamma2 P44 = G44 /\ p_gamma2 P65 = G65 /\ p_gamma2 P87 = G65.
Proof. repeat split; reflexivity. Qed.

Lemma decompose44_spec r : Z.abs r < PR32_BOUND -> decompose G44 r = Ok (Decompose G44 r).
Proof.
  intros Hr. unfold decompose, G44. rewrite (full_reduce32_spec r Hr). cbn [bind].
  change (is44 95232) with true. cbv iota.
  unfold Decompose, q. assert (Hrp : 0 <= r mod Q < Q) by (apply Z.mod_pos_bound; reflexivity).
  set (rp := r mod Q) in *. clearbody rp. clear Hr.
  unfold add32, mul32, sub32, QM1_HALF, Q in *.
  ok32. cbn [bind]. rewrite shr_div by lia. change (2 ^ 7) with 128.
  set (u := (rp + 127) / 128). assert (Hu : 0 <= u <= 65473) by (unfold u; lia).
  ok32. cbn [bind]. ok32. cbn [bind]. rewrite shr_div by lia. change (2 ^ 24) with 16777216.
  rewrite (mulshift44 u Hu).
  set (v := (u + 743) / 1488). assert (Hv : 0 <= v <= 44) by (unfold v; lia).
  ok32. cbn [bind].
  rewrite sign_mask by lia.
  assert (Hx : Z.lxor v (if 43 - v <? 0 then v else 0) = if v =? 44 then 0 else v).
  { destruct (v =? 44) eqn:E.
    - apply Z.eqb_eq in E. rewrite E. reflexivity.
    - replace (43 - v <? 0) with false by (symmetry; lia). apply Z.lxor_0_r. }
  rewrite Hx. set (x := if v =? 44 then 0 else v).
  assert (Hxr : 0 <= x <= 43) by (unfold x; destruct (v =? 44) eqn:E; lia).
  ok32. cbn [bind]. ok32. cbn [bind]. ok32. cbn [bind].
  set (r0 := rp - x * 2 * 95232).
  assert (Hr0 : -95232 <= r0 <= 8380416)
    by (unfold r0, x, v, u; destruct (((rp + 127) / 128 + 743) / 1488 =? 44) eqn:E; lia).
  change ((8380417 - 1) / 2) with 4190208.
  ok32. cbn [bind]. rewrite sign_mask by lia.
  rewrite chk32_ok by (unfold i32_min, i32_max; destruct (4190208 - r0 <? 0); lia). cbn [bind].
  rewrite chk32_ok by (unfold i32_min, i32_max; destruct (4190208 - r0 <? 0); lia). cbn [bind].
  (* the reconstruction self-check *)
  assert (Hchk : (rp =? (x * 2 * 95232 + (r0 - (if 4190208 - r0 <? 0 then 8380417 else 0))) mod 8380417) = true).
  { apply Z.eqb_eq. unfold r0. destruct (4190208 - (rp - x * 2 * 95232) <? 0) eqn:E.
    - replace (x * 2 * 95232 + (rp - x * 2 * 95232 - 8380417)) with (rp + (-1) * 8380417) by lia.
      rewrite Z_mod_plus_full. rewrite Z.mod_small; lia.
    - replace (x * 2 * 95232 + (rp - x * 2 * 95232 - 0)) with rp by lia. rewrite Z.mod_small; lia. }
  rewrite Hchk. cbn [guard bind]. f_equal.
  unfold mod_pm. change (2 * 95232) with 190464. change (190464 / 2) with 95232.
  change (8380417 - 1) with 8380416.
  unfold r0, x, v, u. clear.
  destruct (((rp + 127) / 128 + 743) / 1488 =? 44) eqn:E44;
    destruct (4190208 - _ <? 0) eqn:Ebig; destruct (rp mod 190464 <=? 95232) eqn:Ehalf;
    match goal with |- context [?a =? 8380416] => destruct (a =? 8380416) eqn:Ecorner end;
    try (f_equal; lia); try lia.
Qed.

Lemma decompose65_spec r : Z.abs r < PR32_BOUND -> decompose G65 r = Ok (Decompose G65 r).
Proof.
  intros Hr. unfold decompose, G65. rewrite (full_reduce32_spec r Hr). cbn [bind].
  change (is44 261888) with false. cbv iota.
  unfold Decompose, q. assert (Hrp : 0 <= r mod Q < Q) by (apply Z.mod_pos_bound; reflexivity).
  set (rp := r mod Q) in *. clearbody rp. clear Hr.
  unfold add32, mul32, sub32, QM1_HALF, Q in *.
  ok32. cbn [bind]. rewrite shr_div by lia. change (2 ^ 7) with 128.
  set (u := (rp + 127) / 128). assert (Hu : 0 <= u <= 65473) by (unfold u; lia).
  ok32. cbn [bind]. ok32. cbn [bind]. rewrite shr_div by lia. change (2 ^ 22) with 4194304.
  rewrite (mulshift65 u Hu).
  set (v := (u + 2045) / 4092). assert (Hv : 0 <= v <= 16) by (unfold v; lia).
  rewrite land15 by lia.
  set (x := if v =? 16 then 0 else v).
  assert (Hxr : 0 <= x <= 15) by (unfold x; destruct (v =? 16) eqn:E; lia).
  ok32. cbn [bind]. ok32. cbn [bind]. ok32. cbn [bind].
  set (r0 := rp - x * 2 * 261888).
  assert (Hr0 : -261888 <= r0 <= 8380416)
    by (unfold r0, x, v, u; destruct (((rp + 127) / 128 + 2045) / 4092 =? 16) eqn:E; lia).
  change ((8380417 - 1) / 2) with 4190208.
  ok32. cbn [bind]. rewrite sign_mask by lia.
  rewrite chk32_ok by (unfold i32_min, i32_max; destruct (4190208 - r0 <? 0); lia). cbn [bind].
  rewrite chk32_ok by (unfold i32_min, i32_max; destruct (4190208 - r0 <? 0); lia). cbn [bind].
  assert (Hchk : (rp =? (x * 2 * 261888 + (r0 - (if 4190208 - r0 <? 0 then 8380417 else 0))) mod 8380417) = true).
  { apply Z.eqb_eq. unfold r0. destruct (4190208 - (rp - x * 2 * 261888) <? 0) eqn:E.
    - replace (x * 2 * 261888 + (rp - x * 2 * 261888 - 8380417)) with (rp + (-1) * 8380417) by lia.
      rewrite Z_mod_plus_full. rewrite Z.mod_small; lia.
    - replace (x * 2 * 261888 + (rp - x * 2 * 261888 - 0)) with rp by lia. rewrite Z.mod_small; lia. }
  rewrite Hchk. cbn [guard bind]. f_equal.
  unfold mod_pm. change (2 * 261888) with 523776. change (523776 / 2) with 261888.
  change (8380417 - 1) with 8380416.
  unfold r0, x, v, u. clear.
  destruct (((rp + 127) / 128 + 2045) / 4092 =? 16) eqn:E16;
    destruct (4190208 - _ <? 0) eqn:Ebig; destruct (rp mod 523776 <=? 261888) eqn:Ehalf;
    match goal with |- context [?a =? 8380416] => destruct (a =? 8380416) eqn:Ecorner end;
    try (f_equal; lia); try lia.
Qed.

(* the two gamma2 values the crate uses *)
Definition valid_gamma2 (g : Z) : Prop := g = G44 \/ g = G65.
Lemma decompose_spec g r : valid_gamma2 g -> Z.abs r < PR32_BOUND -> decompose g r = Ok (Decompose g r).
Proof. intros [-> | ->]; [apply decompose44_spec | apply decompose65_spec]. Qed.

Lemma high_bits_spec g r : valid_gamma2 g -> Z.abs r < PR32_BOUND -> high_bits g r = Ok (HighBits g r).
Proof.
  intros Hg Hr. unfold high_bits, HighBits. rewrite decompose_spec by assumption.
  cbn [bind]. destruct (Decompose g r). reflexivity.
Qed.
Lemma low_bits_spec g r : valid_gamma2 g -> Z.abs r < PR32_BOUND -> low_bits g r = Ok (LowBits g r).
Proof.
  intros Hg Hr. unfold low_bits, LowBits. rewrite decompose_spec by assumption.
  cbn [bind]. destruct (Decompose g r). reflexivity.
Qed.

(* range of Decompose (FIPS 204 definition) *)
Lemma Decompose_range g r : valid_gamma2 g ->
  let '(r1, r0) := Decompose g r in
  0 <= r1 < (q - 1) / (2 * g) /\ - g <= r0 <= g.
Proof.
  intros Hg. unfold Decompose, mod_pm, q, Q.
  assert (Hrp : 0 <= r mod 8380417 < 8380417) by (apply Z.mod_pos_bound; lia).
  set (rp := r mod 8380417) in *. clearbody rp.
  destruct Hg as [-> | ->]; unfold G44, G65.
  - change (2 * 95232) with 190464. change (190464 / 2) with 95232. change ((8380417 - 1) / 190464) with 44.
    destruct (rp mod 190464 <=? 95232) eqn:E;
      match goal with |- context [?a =? 8380417 - 1] => destruct (a =? 8380417 - 1) eqn:E2 end; lia.
  - change (2 * 261888) with 523776. change (523776 / 2) with 261888. change ((8380417 - 1) / 523776) with 16.
    destruct (rp mod 523776 <=? 261888) eqn:E;
      match goal with |- context [?a =? 8380417 - 1] => destruct (a =? 8380417 - 1) eqn:E2 end; lia.
Qed.

Lemma make_hint_spec g z r : valid_gamma2 g ->
  Z.abs r < PR32_BOUND -> Z.abs (r + z) < PR32_BOUND ->
  make_hint g z r = Ok (MakeHint g z r).
Proof.
  intros Hg Hr Hrz. unfold make_hint, MakeHint, PR32_BOUND in *.
  rewrite high_bits_spec by (try assumption; unfold PR32_BOUND; lia). cbn [bind].
  unfold add32. ok32. cbn [bind].
  rewrite high_bits_spec by (try assumption; unfold PR32_BOUND; lia). cbn [bind]. reflexivity.
Qed.

Lemma use_hint_spec g h r : valid_gamma2 g -> (h = 0 \/ h = 1) ->
  Z.abs r < PR32_BOUND -> use_hint g h r = Ok (UseHint g h r).
Proof.
  intros Hg Hh Hr. unfold use_hint, UseHint. rewrite decompose_spec by assumption. cbn [bind].
  pose proof (Decompose_range g r Hg) as Hrange.
  destruct (Decompose g r) as [r1 r0]. unfold q, Q in *.
  destruct Hh as [-> | ->].
  - reflexivity.
  - change (1 =? 0) with false. change (1 =? 1) with true. cbn [andb]. cbv iota.
    destruct Hg as [-> | ->]; unfold G44, G65 in *.
    + change (is44 95232) with true. cbv iota.
      change ((8380417 - 1) / (2 * 95232)) with 44 in *.
      destruct (0 <? r0) eqn:E0.
      * replace (r0 <=? 0) with false by (symmetry; lia).
        destruct (r1 =? 43) eqn:E43.
        -- apply Z.eqb_eq in E43. subst r1. reflexivity.
        -- unfold add32. ok32. f_equal. rewrite Z.mod_small; lia.
      * replace (r0 <=? 0) with true by (symmetry; lia).
        destruct (r1 =? 0) eqn:E00.
        -- apply Z.eqb_eq in E00. subst r1. reflexivity.
        -- unfold sub32. ok32. f_equal. rewrite Z.mod_small; lia.
    + change (is44 261888) with false. cbv iota.
      change ((8380417 - 1) / (2 * 261888)) with 16 in *.
      change 15 with (Z.ones 4).
      destruct (0 <? r0) eqn:E0.
      * replace (r0 <=? 0) with false by (symmetry; lia).
        unfold add32. ok32. cbn [bind]. rewrite Z.land_ones by lia. reflexivity.
      * replace (r0 <=? 0) with true by (symmetry; lia).
        unfold sub32. ok32. cbn [bind]. rewrite Z.land_ones by lia. reflexivity.
Qed.

(* a hint bit always changes the recovered high bits (used by C05) *)
Lemma UseHint_flip g r : valid_gamma2 g -> UseHint g 1 r <> UseHint g 0 r.
Proof.
  intros Hg. unfold UseHint. pose proof (Decompose_range g r Hg) as Hrange.
  destruct (Decompose g r) as [r1 r0]. unfold q, Q in *.
  change (1 =? 1) with true. change (0 =? 1) with false. cbn [andb]. cbv iota.
  destruct Hg as [-> | ->]; unfold G44, G65 in *.
  - change ((8380417 - 1) / (2 * 95232)) with 44 in *.
    destruct (0 <? r0) eqn:E1; [|destruct (r0 <=? 0) eqn:E2]; lia.
  - change ((8380417 - 1) / (2 * 261888)) with 16 in *.
    destruct (0 <? r0) eqn:E1; [|destruct (r0 <=? 0) eqn:E2]; lia.
Qed.

(* ---------- power2round ---------- *)
Lemma p2r_spec r : 0 <= r < Q ->
  exists r1 r0, p2r_hi r = Ok r1 /\ p2r_lo r r1 = Ok r0 /\ p2r_check r r1 r0 = Ok true
                /\ (r1, r0) = Power2Round r /\ 0 <= r1 <= 1023 /\ -4096 < r0 <= 4096.
Proof.
  unfold Q. intros Hr.
  set (r1 := (r + 4096 - 1) / 8192). assert (H1 : 0 <= r1 <= 1023) by (unfold r1; lia).
  assert (Hs : shl32 r1 D = r1 * 8192).
  { unfold shl32, D. rewrite Z.shiftl_mul_pow2 by lia. change (2 ^ 13) with 8192.
    apply wrap32_id. unfold i32_min, i32_max. lia. }
  exists r1, (r - r1 * 8192).
  split.
  { unfold p2r_hi, add32, sub32, D. change (Z.shiftl 1 (13 - 1)) with 4096.
    ok32. cbn [bind]. ok32. cbn [bind]. rewrite shr_div by lia. reflexivity. }
  split.
  { unfold p2r_lo, sub32. rewrite Hs. ok32. reflexivity. }
  split.
  { unfold p2r_check, add32. rewrite Hs. ok32. cbn [bind]. f_equal. lia. }
  split; [|split; [exact H1|unfold r1; lia]].
  unfold Power2Round, mod_pm, q, d, Q, D. rewrite (Z.mod_small r) by lia.
  change (2 ^ 13) with 8192. change (8192 / 2) with 4096.
  unfold r1. destruct (r mod 8192 <=? 4096) eqn:E; f_equal; lia.
Qed.

(* ---------- coeff_from_three_bytes / coeff_from_half_byte ---------- *)
Definition res_of_option {A} (o : option A) : res A := match o with Some a => Ok a | None => Err Reject end.

Lemma three_bytes_value b0 b1 b2p : 0 <= b0 < 256 -> 0 <= b1 < 256 -> 0 <= b2p < 128 ->
  Z.lor (Z.lor (Z.shiftl b2p 16) (Z.shiftl b1 8)) b0 = 65536 * b2p + 256 * b1 + b0.
Proof.
  intros H0 H1 H2.
  replace (Z.shiftl b2p 16) with (Z.shiftl (Z.shiftl b2p 8) 8) by (rewrite Z.shiftl_shiftl by lia; reflexivity).
  rewrite <- Z.shiftl_lor.
  rewrite (lor_shiftl_low b2p 8 b1) by (change (2 ^ 8) with 256; lia).
  rewrite lor_shiftl_low by (change (2 ^ 8) with 256; lia).
  change (2 ^ 8) with 256. lia.
Qed.

Lemma coeff_from_three_bytes_spec b0 b1 b2 : 0 <= b0 < 256 -> 0 <= b1 < 256 -> 0 <= b2 < 256 ->
  coeff_from_three_bytes false b0 b1 b2 = res_of_option (CoeffFromThreeBytes b0 b1 b2).
Proof.
  intros H0 H1 H2. unfold coeff_from_three_bytes.
  change 127 with (Z.ones 7). rewrite Z.land_ones by lia. change (2 ^ 7) with 128.
  rewrite three_bytes_value by lia. unfold CoeffFromThreeBytes.
  replace (if 127 <? b2 then b2 - 128 else b2) with (b2 mod 128) by (destruct (127 <? b2) eqn:E; lia).
  unfold q. destruct (65536 * (b2 mod 128) + 256 * b1 + b0 <? Q); reflexivity.
Qed.

(* under CTEST the top bits are masked so that the sample is always accepted *)
Lemma coeff_from_three_bytes_ctest b0 b1 b2 : 0 <= b0 < 256 -> 0 <= b1 < 256 -> 0 <= b2 < 256 ->
  exists z, coeff_from_three_bytes true b0 b1 b2 = Ok z /\ 0 <= z < 4194304.
Proof.
  intros H0 H1 H2. unfold coeff_from_three_bytes.
  change 127 with (Z.ones 7). change 63 with (Z.ones 6). rewrite !Z.land_ones by lia.
  change (2 ^ 7) with 128. change (2 ^ 6) with 64.
  rewrite three_bytes_value by lia. unfold Q.
  eexists. replace (_ <? 8380417) with true by (symmetry; lia). split; [reflexivity|lia].
Qed.

Definition chb_ok (eta b : Z) : bool :=
  match coeff_from_half_byte false eta b, CoeffFromHalfByte eta b with
  | Ok x, Some y => x =? y
  | Err Reject, None => true
  | _, _ => false
  end.
Lemma coeff_from_half_byte_sweep :
  forallb (fun eta => forallb (chb_ok eta) (map Z.of_nat (seq 0 16))) [2; 4] = true.
Proof. vm_compute. reflexivity. Qed.
Lemma coeff_from_half_byte_spec eta b : (eta = 2 \/ eta = 4) -> 0 <= b < 16 ->
  coeff_from_half_byte false eta b = res_of_option (CoeffFromHalfByte eta b).
Proof.
  intros He Hb.
  assert (Hin : In b (map Z.of_nat (seq 0 16))).
  { apply in_map_iff. exists (Z.to_nat b). split; [lia|]. apply in_seq. lia. }
  pose proof coeff_from_half_byte_sweep as Hs. cbn [forallb] in Hs.
  apply andb_prop in Hs as [H2 H4]. apply andb_prop in H4 as [H4 _].
  assert (Hok : chb_ok eta b = true).
  { destruct He as [-> | ->]; [exact (proj1 (forallb_forall _ _) H2 b Hin) | exact (proj1 (forallb_forall _ _) H4 b Hin)]. }
  unfold chb_ok in Hok.
  destruct (coeff_from_half_byte false eta b) as [x|e|s|]; destruct (CoeffFromHalfByte eta b) as [y|];
    try discriminate; cbn [res_of_option].
  - apply Z.eqb_eq in Hok. now subst.
  - destruct e; try discriminate.
  - destruct e; try discriminate. reflexivity.
Qed.
(* under CTEST (b & 7) no half byte is ever rejected *)
Lemma coeff_from_half_byte_ctest_sweep :
  forallb (fun eta => forallb (fun b => is_ok (coeff_from_half_byte true eta b)) (map Z.of_nat (seq 0 16))) [2; 4] = true.
Proof. vm_compute. reflexivity. Qed.

(* ---------- compile-time zeta table and the inverse-NTT scaling constant ---------- *)
Lemma zeta_table_spec :
  ZETA_TABLE_MONT = map (fun m => (zeta (Z.of_nat m) * 4294967296) mod Q) (seq 0 256).
Proof. vm_compute. reflexivity. Qed.
Lemma f_mont_spec : (F_PLAIN * 256) mod Q = 1 /\ F_MONT = (F_PLAIN * 4294967296) mod Q /\ F_PLAIN = f_inv256.
Proof. vm_compute. repeat split. Qed.
Lemma qinv_spec : (Q * QINV) mod 4294967296 = 1.
Proof. reflexivity. Qed.
