(* Keys: Montgomery/NTT-domain key material carries the decoded polynomials exactly.
   - ntt_mont v is related to NTT v coefficient-wise (Montgomery form, |.| < 2q);
   - unmont / inv_ntt / recenter invert it: the struct fields determine s1, s2, t0 (and t1);
   - into_bytes o try_from_bytes is the identity on bytes, for private and public keys (C09). *)
Require Import List ZArith Lia Bool. Import ListNotations.
Require Import F204.Spec.SpecConv F204.Spec.SpecNtt F204.Spec.SpecMLDSA.
Require Import F204.Base.Util F204.Base.Mach F204.Base.Bits F204.Base.ListLemmas F204.Gen.Params F204.Hash.HashIface
  F204.Impl.Helpers F204.Impl.Ntt F204.Impl.HighLow F204.Impl.Conversion F204.Impl.Encodings F204.Impl.Hashing F204.Impl.MlDsa F204.Impl.Api
  F204.Proofs.KernelLemmas F204.Proofs.NttRefine F204.Proofs.NttRing F204.Proofs.NttPipeline F204.Proofs.BitPackProofs
  F204.Proofs.SkDecodeProofs F204.Proofs.DecodeRefine F204.Proofs.VerifyParts F204.Proofs.VerifyRefine F204.Proofs.RelMap.
Open Scope Z_scope.
Ltac Zify.zify_post_hook ::= Z.div_mod_to_equations.
Arguments Z.mul : simpl never. Arguments Z.add : simpl never.

(* ---------- Montgomery form ---------- *)
Definition mrel (r x : Z) : Prop := congQ r (x * 4294967296) /\ Z.abs r < 2 * Q.
Definition crel (B : Z) (a x : Z) : Prop := congQ a x /\ Z.abs a <= B.

Lemma cong_bound B v xs : Forall2 (Forall2 congQ) v xs -> Forall (poly256 B) v -> Forall2 (Forall2 (crel B)) v xs.
Proof.
  intros C. induction C as [|p ps v ws Hp C IH]; intros Bd; [constructor|].
  inversion Bd as [|? ? [Hb _] Bd']; subst. constructor; [|apply IH; exact Bd'].
  clear - Hp Hb. induction Hp; inversion Hb; subst; constructor; auto. split; assumption.
Qed.

Lemma rows256 {A B} (R : A -> B -> Prop) (v : list (list A)) (ws : list (list B)) :
  Forall2 (Forall2 R) v ws -> Forall (fun p => length p = 256%nat) ws -> Forall (fun p => length p = 256%nat) v.
Proof.
  intros H. induction H as [|p ps v ws Hp H IH]; intros L; [constructor|]. inversion L; subst.
  constructor; [|apply IH; assumption]. rewrite (Forall2_length _ _ _ Hp). assumption.
Qed.
Lemma vNTT_rows (s : list (list Z)) : Forall (fun p => length p = 256%nat) s -> Forall (fun p => length p = 256%nat) (vNTT s).
Proof. intros H. unfold vNTT. induction H; cbn [map]; constructor; [apply NTT_length; assumption|assumption]. Qed.
Lemma poly256_rows B (s : list (list Z)) : Forall (poly256 B) s -> Forall (fun p => length p = 256%nat) s.
Proof. intros H. eapply Forall_impl; [|exact H]. intros p [_ L]. exact L. Qed.

Lemma to_mont_rel v xs : Forall2 (Forall2 (crel NTT_OUT)) v xs -> exists r, to_mont v = Ok r /\ Forall2 (Forall2 mrel) r xs.
Proof.
  change (to_mont v) with (mapM (mapM to_mont_coef) v). apply vmapM_rel_id. intros a x [Hax Hb].
  destruct (to_mont_coef_ok a) as (E & C & Bd); [unfold NTT_OUT in Hb; lia|]. eexists. split; [exact E|]. split; [|exact Bd].
  eapply congQ_trans; [exact C|]. apply congQ_mul; [exact Hax|reflexivity].
Qed.

Theorem ntt_mont_rel v : Forall (poly256 NTT_IN) v -> exists r, ntt_mont v = Ok r /\ Forall2 (Forall2 mrel) r (vNTT v).
Proof.
  intros Hv. unfold ntt_mont. destruct (ntt_vec_ok v Hv) as (sh & E & C & Bd). rewrite E. cbn [bind].
  apply to_mont_rel. apply cong_bound; assumption.
Qed.

Lemma unmont_rel r xs : Forall2 (Forall2 mrel) r xs -> exists u, unmont r = Ok u /\ Forall2 (Forall2 (crel Q)) u xs.
Proof.
  unfold unmont. apply vmapM_rel_id. intros a x [Hax Hb].
  destruct (mont_val_ok a) as (E & C & Bd & _); [unfold MONT_LO, MONT_HI; unfold Q in Hb; lia|].
  eexists. split; [exact E|]. split; [|lia]. apply congQ_cancel_R. eapply congQ_trans; [exact C|exact Hax].
Qed.

Lemma crel_poly256 B B' (u xs : list (list Z)) : B <= B' -> Forall2 (Forall2 (crel B)) u xs -> Forall (fun p => length p = 256%nat) xs ->
  Forall (poly256 B') u /\ Forall2 (Forall2 congQ) u xs.
Proof.
  intros HB H L. split.
  - pose proof (rows256 _ _ _ H L) as Lu. clear L. induction H as [|p ps u xs Hp H IH]; [constructor|]. inversion Lu; subst.
    constructor; [|apply IH; assumption]. split; [|assumption]. clear - Hp HB. induction Hp as [|a x p ps [_ Ha] Hp IH]; constructor; [cbn beta; lia|exact IH].
  - eapply Forall2_impl; [|exact H]. intros p ps Hp. eapply Forall2_impl; [|exact Hp]. intros a x [Ha _]. exact Ha.
Qed.

Lemma recenter_modq x : Z.abs x <= Q_HALF -> recenter (modq x) = Ok x.
Proof.
  unfold recenter, modq, sub32, Q_HALF. rewrite q_eq. unfold Q. intros Hx. change (8380417 / 2) with 4190208 in *.
  destruct (4190208 <? x mod 8380417) eqn:E; [apply Z.ltb_lt in E|apply Z.ltb_ge in E].
  - ok32. f_equal. lia.
  - f_equal. lia.
Qed.

Lemma vinvNTT_vNTT s : Forall (fun p => length p = 256%nat) s -> vinvNTT (vNTT s) = map (map modq) s.
Proof. intros H. unfold vinvNTT, vNTT. rewrite map_map. induction H as [|p s Hp H IH]; [reflexivity|]. cbn [map]. rewrite IH, invNTT_NTT by exact Hp. reflexivity. Qed.

Theorem unmont_inv_recenter_ok r s : Forall2 (Forall2 mrel) r (vNTT s) -> Forall (poly256 Q_HALF) s -> unmont_inv_recenter r = Ok s.
Proof.
  intros Hr Hs. unfold unmont_inv_recenter. destruct (unmont_rel r _ Hr) as (u & Eu & Ru). rewrite Eu. cbn [bind].
  pose proof (poly256_rows _ _ Hs) as Ls.
  destruct (crel_poly256 Q (PR32_BOUND - 1) u _ ltac:(unfold Q, PR32_BOUND; lia) Ru (vNTT_rows s Ls)) as [Pu Cu].
  rewrite (inv_ntt_vec_ok u Pu). cbn [bind]. rewrite (vinvNTT_cong _ _ Cu), (vinvNTT_vNTT s Ls).
  clear - Hs. induction Hs as [|p s [Hb _] Hs IH]; [reflexivity|]. cbn [map mapM].
  assert (Hp : mapM recenter (map modq p) = Ok p).
  { clear - Hb. induction Hb as [|x p Hx Hb IH]; [reflexivity|]. cbn [map mapM]. rewrite (recenter_modq x Hx). cbn [bind]. rewrite IH. reflexivity. }
  rewrite Hp. cbn [bind]. rewrite IH. reflexivity.
Qed.

(* ---------- byte-level inverses ---------- *)
Lemma bit_unpack_ok_facts a b v w : valid_ab a b -> bytes_ok v -> bit_unpack v a b = Ok w ->
  length w = 256%nat /\ Forall (fun e => - a <= e <= b) w /\ bit_pack w a b (32 * bitlen (a + b)) = Ok v
  /\ zlen v = 32 * bitlen (a + b).
Proof.
  intros Hab Hbv Hu.
  assert (Hlen : zlen v = 32 * bitlen (a + b)).
  { unfold bit_unpack in Hu. destruct (guard ((0 <=? a) && (a <? 1048576)) _); cbn [bind] in Hu; try discriminate.
    destruct (guard ((1 <=? b) && (b <? 1048576)) _); cbn [bind] in Hu; try discriminate.
    destruct (zlen v =? 32 * bitlen (a + b)) eqn:E; cbn [guard bind] in Hu; try discriminate. apply Z.eqb_eq in E. exact E. }
  assert (Hr : Forall (fun e => - a <= e <= b) w).
  { unfold bit_unpack in Hu. destruct (guard ((0 <=? a) && (a <? 1048576)) _); cbn [bind] in Hu; try discriminate.
    destruct (guard ((1 <=? b) && (b <? 1048576)) _); cbn [bind] in Hu; try discriminate.
    destruct (guard (zlen v =? 32 * bitlen (a + b)) _); cbn [bind] in Hu; try discriminate.
    unfold ensure in Hu. destruct (is_in_range (bit_unpack_raw v a b) a b) eqn:E; cbn [bind] in Hu; try discriminate.
    injection Hu as <-. apply in_range_forall. exact E. }
  repeat split; try assumption.
  - destruct (bit_unpack_accepts_iff a b v Hab Hbv Hlen) as (ds & _ & Hl & _ & Hacc & Hrej).
    destruct (forall_or_exists (a + b) ds) as [Hok|Hbad].
    + rewrite (Hacc Hok) in Hu. injection Hu as <-. rewrite map_length. exact Hl.
    + rewrite (Hrej Hbad) in Hu. discriminate.
  - apply bit_unpack_pack; assumption.
Qed.

Lemma mapM_Ok_inv {A B} (f : A -> res B) l : forall r, mapM f l = Ok r -> Forall2 (fun a b => f a = Ok b) l r.
Proof.
  induction l as [|a l IH]; intros r Hr; cbn [mapM] in Hr; [injection Hr as <-; constructor|].
  destruct (f a) as [b| | |] eqn:Ea; cbn [bind] in Hr; try discriminate.
  destruct (mapM f l) as [bs| | |]; cbn [bind] in Hr; try discriminate. injection Hr as <-. constructor; [exact Ea|apply IH; reflexivity].
Qed.

Lemma firstn_add {A} (n m : nat) (X : list A) : firstn (n + m) X = firstn n X ++ firstn m (skipn n X).
Proof. revert X. induction n as [|n IH]; intros X; [reflexivity|]. destruct X as [|x X]; [cbn; now rewrite firstn_nil|]. cbn. now rewrite IH. Qed.
Lemma zslice_app {A} (l : list A) a b c : 0 <= a <= b -> b <= c -> zslice a b l ++ zslice b c l = zslice a c l.
Proof.
  intros Hab Hbc. unfold zslice, ztake, zdrop.
  replace (Z.to_nat (c - a)) with (Z.to_nat (b - a) + Z.to_nat (c - b))%nat by lia. rewrite firstn_add. f_equal.
  rewrite skipn_skipn'. f_equal. f_equal. lia.
Qed.
Lemma zslice_all {A} (l : list A) : zslice 0 (zlen l) l = l.
Proof. unfold zslice, ztake, zdrop, zlen. cbn [Z.to_nat skipn]. rewrite Z.sub_0_r, Nat2Z.id. apply firstn_all. Qed.
Lemma concat_chunks sk start step n : 0 <= start -> 0 <= step ->
  concat (map (chunk sk start step) (seq 0 n)) = zslice start (start + Z.of_nat n * step) sk.
Proof.
  intros Hs Hst. induction n as [|n IH].
  - cbn [seq map concat]. unfold zslice, ztake. replace (start + Z.of_nat 0 * step - start) with 0 by lia. reflexivity.
  - rewrite seq_S, map_app, concat_app, IH. cbn [map concat Nat.add]. rewrite app_nil_r. unfold chunk.
    rewrite zslice_app by nia. f_equal. lia.
Qed.

(* one section of packed polynomials: decoding then re-encoding gives back the chunks *)
Lemma section_roundtrip sk start a b n v : valid_ab a b -> bytes_ok sk ->
  mapM (fun i => let i := Z.of_nat i in
          bit_unpack (zslice (start + i * (32 * bitlen (a + b))) (start + (i + 1) * (32 * bitlen (a + b))) sk) a b) (seq 0 n) = Ok v ->
  mapM (fun p => bit_pack p a b (32 * bitlen (a + b))) v = Ok (map (chunk sk start (32 * bitlen (a + b))) (seq 0 n))
  /\ Forall (fun p => length p = 256%nat /\ Forall (fun e => - a <= e <= b) p) v /\ length v = n.
Proof.
  intros Hab Hb Hm. apply mapM_Ok_inv in Hm. cbv zeta in Hm.
  assert (Hn : length v = n) by (apply Forall2_length in Hm; rewrite seq_length in Hm; congruence).
  split; [|split; [|exact Hn]].
  - clear Hn. induction Hm as [|i p is v Hip Hm IH]; [reflexivity|]. cbn [mapM map].
    destruct (bit_unpack_ok_facts a b _ p Hab (zslice_bytes_ok _ _ _ Hb) Hip) as (_ & _ & Hp & _).
    rewrite Hp. cbn [bind]. rewrite IH. reflexivity.
  - clear Hn. induction Hm as [|i p is v Hip Hm IH]; constructor; [|exact IH].
    destruct (bit_unpack_ok_facts a b _ p Hab (zslice_bytes_ok _ _ _ Hb) Hip) as (Hl & Hr & _). split; assumption.
Qed.

Lemma in_range_vec (v : list (list Z)) a b : Forall (fun p => length p = 256%nat /\ Forall (fun e => - a <= e <= b) p) v ->
  forallb (fun x => is_in_range x a b) v = true.
Proof. intros H. apply forallb_forall. intros p Hp. rewrite Forall_forall in H. apply in_range_forall. apply (H p Hp). Qed.
Lemma range_poly256 (v : list (list Z)) a b B : a <= B -> b <= B -> Forall (fun p => length p = 256%nat /\ Forall (fun e => - a <= e <= b) p) v ->
  Forall (poly256 B) v.
Proof.
  intros Ha Hb H. eapply Forall_impl; [|exact H]. intros p [Hl Hr]. split; [|exact Hl].
  eapply Forall_impl; [|exact Hr]. cbn beta. intros e He. lia.
Qed.

(* ---------- Algorithm 24 after Algorithm 25 ---------- *)
Theorem sk_encode_decode P sk rho k tr s1 s2 t0 : In P all_params -> bytes_ok sk -> zlen sk = p_sk_len P ->
  sk_decode P sk = Ok (rho, k, tr, s1, s2, t0) ->
  sk_encode P rho k tr s1 s2 t0 = Ok sk
  /\ Forall (fun p => length p = 256%nat /\ Forall (fun e => - p_eta P <= e <= p_eta P) p) s1 /\ length s1 = p_l P
  /\ Forall (fun p => length p = 256%nat /\ Forall (fun e => - p_eta P <= e <= p_eta P) p) s2 /\ length s2 = p_k P
  /\ Forall (fun p => length p = 256%nat /\ Forall (fun e => - 4095 <= e <= 4096) p) t0 /\ length t0 = p_k P.
Proof.
  intros HP Hb Hlen Hd.
  destruct (params_facts P HP) as (Heta & Hab & _ & Hform & Hl & Hk & Htot).
  assert (Hstep : bitlen (2 * p_eta P) = bitlen (p_eta P + p_eta P)) by (f_equal; lia).
  unfold sk_decode in Hd.
  replace ((p_eta P =? 2) || (p_eta P =? 4)) with true in Hd by (destruct Heta as [E|E]; rewrite E; reflexivity).
  rewrite Hform, Z.eqb_refl in Hd. cbn [guard bind] in Hd. rewrite Hstep in Hd.
  match type of Hd with context [mapM ?f (seq 0 (p_l P))] => destruct (mapM f (seq 0 (p_l P))) as [s1'| | |] eqn:E1; cbn [bind] in Hd; try discriminate end.
  match type of Hd with context [mapM ?f (seq 0 (p_k P))] => destruct (mapM f (seq 0 (p_k P))) as [s2'| | |] eqn:E2; cbn [bind] in Hd; try discriminate end.
  match type of Hd with context [mapM ?f (seq 0 (p_k P))] => destruct (mapM f (seq 0 (p_k P))) as [t0'| | |] eqn:E3; cbn [bind] in Hd; try discriminate end.
  match type of Hd with context [guard ?c _] => destruct c; cbn [guard bind] in Hd; try discriminate end.
  injection Hd as <- <- <- <- <- <-.
  destruct (section_roundtrip sk 128 (p_eta P) (p_eta P) (p_l P) s1' Hab Hb E1) as (P1 & R1 & L1).
  destruct (section_roundtrip sk _ (p_eta P) (p_eta P) (p_k P) s2' Hab Hb E2) as (P2 & R2 & L2).
  assert (Hab0 : valid_ab (TOP - 1) TOP) by (unfold valid_ab, TOP, D; cbn; lia).
  change (32 * D) with (32 * bitlen (TOP - 1 + TOP)) in E3.
  destruct (section_roundtrip sk _ (TOP - 1) TOP (p_k P) t0' Hab0 Hb E3) as (P3 & R3 & L3).
  repeat split; try assumption.
  unfold sk_encode.
  replace ((p_eta P =? 2) || (p_eta P =? 4)) with true by (destruct Heta as [E|E]; rewrite E; reflexivity).
  rewrite (in_range_vec _ _ _ R1), (in_range_vec _ _ _ R2), (in_range_vec _ _ _ R3), Hform, Z.eqb_refl. cbn [guard bind].
  rewrite Hstep, P1. cbn [bind]. rewrite P2. cbn [bind].
  change (32 * D) with (32 * bitlen (TOP - 1 + TOP)). rewrite P3. cbn [bind]. f_equal.
  assert (Hst : 0 <= 32 * bitlen (p_eta P + p_eta P)) by (pose proof (bitlen_ab _ _ Hab); lia).
  assert (Hst3 : 0 <= 32 * bitlen (TOP - 1 + TOP)) by (change (32 * bitlen (TOP - 1 + TOP)) with 416; lia).
  assert (Hn1 : 0 <= lz P * (32 * bitlen (p_eta P + p_eta P))) by (unfold lz; nia).
  assert (Hn2 : 0 <= kz P * (32 * bitlen (p_eta P + p_eta P))) by (unfold kz; nia).
  assert (Hn3 : 0 <= kz P * (32 * bitlen (TOP - 1 + TOP))) by (unfold kz; nia).
  rewrite !concat_chunks by lia.
  fold (lz P) (kz P).
  rewrite !zslice_app by lia.
  rewrite <- (zslice_all sk) at 2. f_equal. rewrite Hlen, Htot.
  rewrite Hstep. change (32 * D) with (32 * bitlen (TOP - 1 + TOP)). lia.
Qed.

(* ---------- what a PrivateKey struct represents ---------- *)
Definition rvec (a b : Z) (n : nat) (v : list (list Z)) : Prop :=
  Forall (fun p => length p = 256%nat /\ Forall (fun e => - a <= e <= b) p) v /\ length v = n.
Definition sk_repr (P : Params) (key : PrivateKey) (rho k tr : bytes) (s1 s2 t0 : list (list Z)) : Prop :=
  sk_rho key = rho /\ sk_cap_k key = k /\ sk_tr key = tr /\
  Forall2 (Forall2 mrel) (sk_s_1_hat_mont key) (vNTT s1) /\
  Forall2 (Forall2 mrel) (sk_s_2_hat_mont key) (vNTT s2) /\
  Forall2 (Forall2 mrel) (sk_t_0_hat_mont key) (vNTT t0) /\
  rvec (p_eta P) (p_eta P) (p_l P) s1 /\ rvec (p_eta P) (p_eta P) (p_k P) s2 /\ rvec 4095 4096 (p_k P) t0.

Lemma eta_small P : In P all_params -> 0 <= p_eta P <= 4.
Proof. intros [<-|[<-|[<-|[]]]]; cbn; lia. Qed.

(* building the struct from in-range vectors (expand_private after decoding, key_gen_internal) *)
Lemma build_sk_repr P rho k tr s1 s2 t0 : In P all_params ->
  rvec (p_eta P) (p_eta P) (p_l P) s1 -> rvec (p_eta P) (p_eta P) (p_k P) s2 -> rvec 4095 4096 (p_k P) t0 ->
  exists a b c, ntt_mont s1 = Ok a /\ ntt_mont s2 = Ok b /\ ntt_mont t0 = Ok c /\ sk_repr P (mkSK rho k tr a b c) rho k tr s1 s2 t0.
Proof.
  intros HP R1 R2 R3. pose proof (eta_small P HP) as He.
  destruct (ntt_mont_rel s1) as (a & Ea & Ra); [apply (range_poly256 _ (p_eta P) (p_eta P)); [unfold NTT_IN; lia..|apply R1]|].
  destruct (ntt_mont_rel s2) as (b & Eb & Rb); [apply (range_poly256 _ (p_eta P) (p_eta P)); [unfold NTT_IN; lia..|apply R2]|].
  destruct (ntt_mont_rel t0) as (c & Ec & Rc); [apply (range_poly256 _ 4095 4096); [unfold NTT_IN; lia..|apply R3]|].
  exists a, b, c. repeat split; try assumption; try apply R1; try apply R2; try apply R3.
Qed.

Theorem expand_private_repr P skb key : In P all_params -> bytes_ok skb -> zlen skb = p_sk_len P ->
  sk_try_from_bytes P skb = Ok key ->
  exists rho k tr s1 s2 t0, sk_decode P skb = Ok (rho, k, tr, s1, s2, t0) /\ sk_repr P key rho k tr s1 s2 t0.
Proof.
  intros HP Hb Hl Hk. unfold sk_try_from_bytes, expand_private in Hk.
  destruct (sk_decode P skb) as [[[[[[rho k] tr] s1] s2] t0]| | |] eqn:Ed; cbn [bind] in Hk; try discriminate.
  destruct (sk_encode_decode P skb rho k tr s1 s2 t0 HP Hb Hl Ed) as (_ & R1 & L1 & R2 & L2 & R3 & L3).
  destruct (build_sk_repr P rho k tr s1 s2 t0 HP (conj R1 L1) (conj R2 L2) (conj R3 L3)) as (a & b & c & Ea & Eb & Ec & Hrep).
  rewrite Ea in Hk. cbn [bind] in Hk. rewrite Eb in Hk. cbn [bind] in Hk. rewrite Ec in Hk. cbn [bind] in Hk. injection Hk as <-.
  exists rho, k, tr, s1, s2, t0. split; [reflexivity|exact Hrep].
Qed.

Theorem sk_into_bytes_repr P key rho k tr s1 s2 t0 : In P all_params -> sk_repr P key rho k tr s1 s2 t0 ->
  sk_into_bytes P key = sk_encode P rho k tr s1 s2 t0.
Proof.
  intros HP (Er & Ek & Et & M1 & M2 & M3 & R1 & R2 & R3). pose proof (eta_small P HP) as He. unfold sk_into_bytes.
  rewrite (unmont_inv_recenter_ok _ s1 M1) by (apply (range_poly256 _ (p_eta P) (p_eta P)); [unfold Q_HALF, Q; cbn; lia..|apply R1]). cbn [bind].
  rewrite (unmont_inv_recenter_ok _ s2 M2) by (apply (range_poly256 _ (p_eta P) (p_eta P)); [unfold Q_HALF, Q; cbn; lia..|apply R2]). cbn [bind].
  rewrite (unmont_inv_recenter_ok _ t0 M3) by (apply (range_poly256 _ 4095 4096); [unfold Q_HALF, Q; cbn; lia..|apply R3]). cbn [bind].
  rewrite Er, Ek, Et. reflexivity.
Qed.

(* C09, private half: into_bytes o try_from_bytes = identity on every accepted byte string *)
Theorem sk_roundtrip_bytes P skb key : In P all_params -> bytes_ok skb -> zlen skb = p_sk_len P ->
  sk_try_from_bytes P skb = Ok key -> sk_into_bytes P key = Ok skb.
Proof.
  intros HP Hb Hl Hk. destruct (expand_private_repr P skb key HP Hb Hl Hk) as (rho & k & tr & s1 & s2 & t0 & Ed & Hrep).
  rewrite (sk_into_bytes_repr P key _ _ _ _ _ _ HP Hrep). apply (sk_encode_decode P skb rho k tr s1 s2 t0 HP Hb Hl Ed).
Qed.

Lemma mapM_ext_in {A B} (f g : A -> res B) l : (forall a, In a l -> f a = g a) -> mapM f l = mapM g l.
Proof.
  induction l as [|a l IH]; intros Hfg; [reflexivity|]. cbn [mapM]. rewrite (Hfg a (or_introl eq_refl)).
  rewrite IH; [reflexivity|]. intros b Hb. apply Hfg. right. exact Hb.
Qed.

(* ---------- public keys ---------- *)
Definition pk_repr (P : Params) (pk : PublicKey) (rho tr : bytes) (t1 : list (list Z)) : Prop :=
  pk_rho pk = rho /\ pk_tr pk = tr /\ Forall2 (Forall2 t1d_rel) (pk_t1_d2_hat_mont pk) (vNTT t1) /\ rvec 0 1023 (p_k P) t1.

Lemma t1_poly256 n t1 : rvec 0 1023 n t1 -> Forall (poly256 NTT_IN) t1.
Proof. intros [R _]. apply (range_poly256 _ 0 1023); [unfold NTT_IN; lia..|exact R]. Qed.

Lemma build_pk_repr P rho tr t1 : rvec 0 1023 (p_k P) t1 ->
  exists a, t1_precompute t1 = Ok a /\ pk_repr P (mkPK rho tr a) rho tr t1.
Proof.
  intros R. destruct (t1_precompute_ok t1 (t1_poly256 _ _ R)) as (a & Ea & Ra). exists a. split; [exact Ea|].
  repeat split; try assumption; apply R.
Qed.

Lemma scaled_rows (t1 : list (list Z)) : Forall (fun p => length p = 256%nat) t1 ->
  Forall2 (Forall2 congQ) (map (map (fun x => x * 8192)) (vNTT t1)) (vNTT (map (map (fun x => x * 8192)) t1)).
Proof.
  intros H. unfold vNTT. induction H as [|p t1 Hp H IH]; cbn [map]; constructor; [|exact IH].
  apply Forall2_congQ_sym. eapply Forall2_congQ_trans; [apply NTT_scale|]. unfold kscale.
  replace (map (fun x => 8192 * x) (NTT p)) with (map (fun x => x * 8192) (NTT p)) by (apply map_ext; intros; lia).
  apply Forall2_refl. intros; reflexivity.
Qed.

Theorem pk_into_bytes_repr P pk rho tr t1 : pk_repr P pk rho tr t1 -> pk_into_bytes P pk = pk_encode P rho t1.
Proof.
  intros (Er & _ & M & R). unfold pk_into_bytes.
  assert (Hu : exists u, unmont (pk_t1_d2_hat_mont pk) = Ok u /\ Forall2 (Forall2 (crel Q)) u (map (map (fun x => x * 8192)) (vNTT t1))).
  { unfold unmont. apply (vmapM_rel mont_reduce (fun x => x * 8192) t1d_rel (crel Q)); [|exact M]. intros a x [Hax Hb].
    destruct (mont_val_ok a) as (E & C & Bd & _); [unfold MONT_LO, MONT_HI; unfold Q in Hb; lia|].
    eexists. split; [exact E|]. split; [|lia]. apply congQ_cancel_R. eapply congQ_trans; [exact C|exact Hax]. }
  destruct Hu as (u & Eu & Ru). rewrite Eu. cbn [bind].
  pose proof (poly256_rows _ _ (t1_poly256 _ _ R)) as L1.
  assert (Lx : Forall (fun p => length p = 256%nat) (map (map (fun x => x * 8192)) (vNTT t1))).
  { pose proof (vNTT_rows t1 L1) as Lv. clear - Lv. induction Lv; cbn [map]; constructor; [rewrite map_length; assumption|assumption]. }
  destruct (crel_poly256 Q (PR32_BOUND - 1) u _ ltac:(unfold Q, PR32_BOUND; lia) Ru Lx) as [Pu Cu].
  rewrite (inv_ntt_vec_ok u Pu). cbn [bind].
  rewrite (vinvNTT_cong _ _ (Forall2_trans _ _ _ _ (fun a b c => Forall2_congQ_trans a b c) Cu (scaled_rows t1 L1))).
  rewrite vinvNTT_vNTT by (clear - L1; induction L1; cbn [map]; constructor; [rewrite map_length; assumption|assumption]).
  rewrite Er. f_equal. destruct R as [R _]. clear - R. rewrite !map_map.
  induction R as [|p t1 [_ Hp] R IH]; [reflexivity|]. cbn [map]. rewrite IH. f_equal. rewrite !map_map.
  clear - Hp. induction Hp as [|x p Hx Hp IH]; [reflexivity|]. cbn [map]. rewrite IH. f_equal.
  unfold modq. rewrite q_eq. unfold Q. rewrite Z.mod_small by lia. unfold D. rewrite shr_div by lia. change (2 ^ 13) with 8192. lia.
Qed.

Lemma pk_encode_decode P pkb rho t1 : In P all_params -> bytes_ok pkb -> zlen pkb = p_pk_len P ->
  pk_decode P pkb = Ok (rho, t1) -> pk_encode P rho t1 = Ok pkb /\ rvec 0 1023 (p_k P) t1.
Proof.
  intros HP Hb Hlen Hd.
  assert (Hk : p_pk_len P = 32 + 32 * kz P * BLQD /\ 0 <= kz P <= 8) by (destruct HP as [<-|[<-|[<-|[]]]]; (split; [reflexivity|unfold kz; cbn; lia])).
  destruct Hk as [Hpk Hkr]. unfold pk_decode in Hd. rewrite Hlen, Hpk, Z.eqb_refl in Hd. cbn [guard bind] in Hd.
  match type of Hd with context [mapM ?f (seq 0 (p_k P))] => destruct (mapM f (seq 0 (p_k P))) as [t1'| | |] eqn:E1; cbn [bind] in Hd; try discriminate end.
  match type of Hd with context [guard ?c _] => destruct c; cbn [guard bind] in Hd; try discriminate end.
  injection Hd as <- <-.
  assert (Hab : valid_ab 0 T1MAX) by (change T1MAX with 1023; unfold valid_ab; lia).
  assert (E1' : mapM (fun i => let i := Z.of_nat i in
            bit_unpack (zslice (32 + i * (32 * bitlen (0 + T1MAX))) (32 + (i + 1) * (32 * bitlen (0 + T1MAX))) pkb) 0 T1MAX) (seq 0 (p_k P)) = Ok t1').
  { rewrite <- E1. apply mapM_ext_in. intros i Hi. apply in_seq in Hi. cbv zeta. change (bitlen (0 + T1MAX)) with BLQD.
    replace (32 + 32 * Z.of_nat i * BLQD) with (32 + Z.of_nat i * (32 * BLQD)) by lia.
    replace (32 + 32 * (Z.of_nat i + 1) * BLQD) with (32 + (Z.of_nat i + 1) * (32 * BLQD)) by lia.
    unfold simple_bit_unpack. change ((1 <=? T1MAX) && (T1MAX <? 1048576)) with true. cbn [guard bind].
    replace (zlen (zslice (32 + Z.of_nat i * (32 * BLQD)) (32 + (Z.of_nat i + 1) * (32 * BLQD)) pkb) =? 32 * bitlen T1MAX) with true; [reflexivity|].
    symmetry. apply Z.eqb_eq. unfold zlen. rewrite zslice_length; [change (32 * bitlen T1MAX) with (32 * BLQD); lia|change BLQD with 10; lia|].
    rewrite Hlen, Hpk. change BLQD with 10. unfold kz. lia. }
  destruct (section_roundtrip pkb 32 0 T1MAX (p_k P) t1' Hab Hb E1') as (P1 & R1 & L1).
  pose proof R1 as R1'. change (- 0) with 0 in R1. change T1MAX with 1023 in R1, R1'.
  split; [|split; assumption].
  unfold pk_encode. change T1MAX with 1023. rewrite (in_range_vec _ _ _ R1'), Hpk, Z.eqb_refl. cbn [guard bind].
  assert (P1' : mapM (fun t => simple_bit_pack t 1023 (32 * BLQD)) t1' = Ok (map (chunk pkb 32 (32 * bitlen (0 + T1MAX))) (seq 0 (p_k P)))).
  { rewrite <- P1. apply mapM_ext_in. intros p Hp. unfold simple_bit_pack. change ((1 <=? 1023) && (1023 <? 1048576)) with true.
    rewrite Forall_forall in R1. destruct (R1 p Hp) as [_ Hr]. replace (is_in_range p 0 1023) with true by (symmetry; apply in_range_forall; exact Hr).
    change (32 * BLQD =? 32 * bitlen 1023) with true. cbn [guard bind]. reflexivity. }
  rewrite P1'. cbn [bind]. f_equal. rewrite concat_chunks by (change (32 * bitlen (0 + T1MAX)) with 320; lia).
  change (ztake 32 pkb) with (zslice 0 32 pkb). fold (zslice 0 32 pkb). rewrite zslice_app by (change (32 * bitlen (0 + T1MAX)) with 320; lia).
  rewrite <- (zslice_all pkb) at 2. f_equal. rewrite Hlen, Hpk. change (32 * bitlen (0 + T1MAX)) with (32 * BLQD). unfold kz. lia.
Qed.

(* C09, public half: every byte string of PK_LEN deserialises and serialises back to itself *)
Theorem pk_roundtrip_bytes H P pkb : In P all_params -> bytes_ok pkb -> zlen pkb = p_pk_len P ->
  exists pk, pk_try_from_bytes H P pkb = Ok pk /\ pk_into_bytes P pk = Ok pkb
             /\ pk_repr P pk (fst (pkDecode (p_k P) pkb)) (h_shake256 H pkb 64) (snd (pkDecode (p_k P) pkb)).
Proof.
  intros HP Hb Hlen. destruct (expand_public_ok H P HP pkb Hb Hlen) as (pk & Epk & Erho & Etr & Rt & _).
  exists pk. split; [exact Epk|].
  pose proof (pk_decode_spec P pkb HP Hb Hlen) as Ed. destruct (pkDecode (p_k P) pkb) as [rho t1] eqn:Epd. cbn [fst snd] in *.
  destruct (pk_encode_decode P pkb rho t1 HP Hb Hlen Ed) as [Eenc R].
  assert (Hrep : pk_repr P pk rho (h_shake256 H pkb 64) t1) by (repeat split; try assumption; apply R).
  split; [|exact Hrep]. rewrite (pk_into_bytes_repr P pk _ _ _ Hrep). exact Eenc.
Qed.

(* ---------- the other direction: decoding an encoding ---------- *)
Lemma zslice_pre {A} (pre l : list A) a b : zlen pre <= a -> zslice a b (pre ++ l) = zslice (a - zlen pre) (b - zlen pre) l.
Proof.
  intros Ha. unfold zslice, ztake, zdrop, zlen in *. rewrite skipn_app.
  rewrite (skipn_all2 pre) by lia. cbn [app]. f_equal; [lia|]. f_equal. lia.
Qed.
Lemma zslice_chunk_nth {A} (step : Z) (post : list A) : 0 <= step -> forall (bs : list (list A)) (i : nat),
  Forall (fun v => zlen v = step) bs -> (i < length bs)%nat ->
  zslice (Z.of_nat i * step) ((Z.of_nat i + 1) * step) (concat bs ++ post) = nth i bs [].
Proof.
  intros Hs. induction bs as [|v bs IH]; intros i Hb Hi; [cbn in Hi; lia|]. apply Forall_cons_iff in Hb as [Hv Hb'].
  cbn [concat]. rewrite <- app_assoc. destruct i as [|i].
  - cbn [nth]. change (Z.of_nat 0) with 0. rewrite Z.mul_0_l. unfold zslice, ztake, zdrop, zlen. cbn [Z.to_nat skipn].
    replace (Z.to_nat ((0 + 1) * step - 0)) with (length v + 0)%nat by (unfold zlen in Hv; lia).
    rewrite firstn_app_2. cbn [firstn]. apply app_nil_r.
  - cbn [nth]. rewrite zslice_pre by (rewrite Hv; lia). rewrite Hv.
    replace (Z.of_nat (S i) * step - step) with (Z.of_nat i * step) by lia.
    replace ((Z.of_nat (S i) + 1) * step - step) with ((Z.of_nat i + 1) * step) by lia.
    apply IH; [exact Hb'|cbn in Hi; lia].
Qed.
Lemma mapM_seq_nth {B} (f : nat -> res B) (v : list B) (d : B) :
  (forall i, (i < length v)%nat -> f i = Ok (nth i v d)) -> mapM f (seq 0 (length v)) = Ok v.
Proof.
  revert f. induction v as [|x v IH]; intros f Hf; [reflexivity|]. cbn [length seq mapM].
  rewrite (Hf 0%nat) by (cbn; lia). cbn [nth bind]. rewrite <- seq_shift.
  assert (E : mapM f (map S (seq 0 (length v))) = mapM (fun i => f (S i)) (seq 0 (length v))).
  { generalize (seq 0 (length v)). intros l. induction l as [|a l IHl]; [reflexivity|]. cbn [map mapM]. rewrite IHl. reflexivity. }
  rewrite E, (IH (fun i => f (S i))); [reflexivity|]. intros i Hi. apply (Hf (S i)). cbn. lia.
Qed.

(* encoding a section of in-range polynomials and reading it back from any enclosing byte string *)
Lemma section_encode a b (v : list (list Z)) : valid_ab a b ->
  Forall (fun p => length p = 256%nat /\ Forall (fun e => - a <= e <= b) p) v ->
  exists bs, mapM (fun p => bit_pack p a b (32 * bitlen (a + b))) v = Ok bs /\ length bs = length v
    /\ Forall (fun c => zlen c = 32 * bitlen (a + b) /\ bytes_ok c) bs
    /\ forall pre post start, zlen pre = start ->
         mapM (fun i => let i := Z.of_nat i in
                 bit_unpack (zslice (start + i * (32 * bitlen (a + b))) (start + (i + 1) * (32 * bitlen (a + b))) (pre ++ concat bs ++ post)) a b)
              (seq 0 (length v)) = Ok v.
Proof.
  intros Hab Hv.
  assert (Hbs : exists bs, mapM (fun p => bit_pack p a b (32 * bitlen (a + b))) v = Ok bs
            /\ Forall2 (fun p c => bit_unpack c a b = Ok p /\ zlen c = 32 * bitlen (a + b) /\ bytes_ok c) v bs).
  { induction Hv as [|p v [Lp Rp] Hv (bs & Ebs & Fbs)]; [exists []; split; [reflexivity|constructor]|].
    destruct (bit_pack_unpack a b p Hab Lp (proj2 (in_range_forall _ _ _) Rp)) as (c & Ec & Eu & Bc & Lc).
    exists (c :: bs). cbn [mapM]. rewrite Ec. cbn [bind]. rewrite Ebs. cbn [bind]. split; [reflexivity|]. constructor; [|exact Fbs]. repeat split; assumption. }
  destruct Hbs as (bs & Ebs & Fbs). exists bs. split; [exact Ebs|].
  assert (Hlen : length bs = length v) by (symmetry; apply (Forall2_length _ _ _ Fbs)). split; [exact Hlen|]. split.
  - clear - Fbs. induction Fbs as [|p c v bs (_ & Hl & Hb) Fbs IH]; constructor; [split; assumption|exact IH].
  - intros pre post start Hpre. apply (mapM_seq_nth _ v []). intros i Hi. cbv zeta.
    rewrite zslice_pre by (pose proof (bitlen_ab a b Hab); lia). rewrite Hpre.
    replace (start + Z.of_nat i * (32 * bitlen (a + b)) - start) with (Z.of_nat i * (32 * bitlen (a + b))) by lia.
    replace (start + (Z.of_nat i + 1) * (32 * bitlen (a + b)) - start) with ((Z.of_nat i + 1) * (32 * bitlen (a + b))) by lia.
    rewrite zslice_chunk_nth; [| pose proof (bitlen_ab a b Hab); lia | | lia].
    + clear - Fbs Hi. revert i Hi. induction Fbs as [|p c v bs (Hu & _) Fbs IH]; intros i Hi; [cbn in Hi; lia|].
      destruct i as [|i]; [exact Hu|]. cbn [nth]. apply IH. cbn in Hi. lia.
    + clear - Fbs. induction Fbs as [|p c v bs (_ & Hl & _) Fbs IH]; constructor; assumption.
Qed.

Lemma concat_zlen {A} (bs : list (list A)) step : Forall (fun c => zlen c = step) bs -> zlen (concat bs) = Z.of_nat (length bs) * step.
Proof.
  intros H. induction H as [|c bs Hc H IH]; [reflexivity|]. cbn [concat length]. unfold zlen in *. rewrite app_length. lia.
Qed.
Lemma concat_bytes_ok (bs : list bytes) : Forall bytes_ok bs -> bytes_ok (concat bs).
Proof. intros H. induction H; cbn [concat]; [constructor|]. apply Forall_app. split; assumption. Qed.
Lemma zslice_app_l {A} (x y : list A) a b : 0 <= a -> b <= zlen x -> zslice a b (x ++ y) = zslice a b x.
Proof.
  intros Ha Hb. unfold zslice, ztake, zdrop, zlen in *. rewrite skipn_app.
  destruct (Z_le_gt_dec a b) as [Hab|Hab].
  - rewrite firstn_app. replace (Z.to_nat (b - a) - length (skipn (Z.to_nat a) x))%nat with 0%nat by (rewrite skipn_length; lia).
    cbn [firstn]. apply app_nil_r.
  - replace (Z.to_nat (b - a)) with 0%nat by lia. reflexivity.
Qed.

Theorem sk_decode_encode P rho k tr s1 s2 t0 : In P all_params ->
  zlen rho = 32 -> zlen k = 32 -> zlen tr = 64 -> bytes_ok rho -> bytes_ok k -> bytes_ok tr ->
  rvec (p_eta P) (p_eta P) (p_l P) s1 -> rvec (p_eta P) (p_eta P) (p_k P) s2 -> rvec 4095 4096 (p_k P) t0 ->
  exists skb, sk_encode P rho k tr s1 s2 t0 = Ok skb /\ bytes_ok skb /\ zlen skb = p_sk_len P
              /\ sk_decode P skb = Ok (rho, k, tr, s1, s2, t0).
Proof.
  intros HP Lr Lk Lt Br Bk Bt [R1 L1] [R2 L2] [R3 L3].
  destruct (params_facts P HP) as (Heta & Hab & _ & Hform & Hl & Hk & Htot).
  assert (Hstep : bitlen (2 * p_eta P) = bitlen (p_eta P + p_eta P)) by (f_equal; lia).
  assert (Hab0 : valid_ab (TOP - 1) TOP) by (change (TOP - 1) with 4095; change TOP with 4096; unfold valid_ab; lia).
  destruct (section_encode _ _ s1 Hab R1) as (b1 & E1 & N1 & C1 & D1).
  destruct (section_encode _ _ s2 Hab R2) as (b2 & E2 & N2 & C2 & D2).
  change 4095 with (TOP - 1) in R3. change 4096 with TOP in R3.
  destruct (section_encode _ _ t0 Hab0 R3) as (b3 & E3 & N3 & C3 & D3).
  set (st := 32 * bitlen (p_eta P + p_eta P)) in *.
  assert (Hst : 0 <= st) by (unfold st; pose proof (bitlen_ab _ _ Hab); lia).
  assert (Z1 : zlen (concat b1) = lz P * st).
  { rewrite (concat_zlen b1 st) by (eapply Forall_impl; [|exact C1]; intros c Hc; apply Hc). rewrite N1, L1. reflexivity. }
  assert (Z2 : zlen (concat b2) = kz P * st).
  { rewrite (concat_zlen b2 st) by (eapply Forall_impl; [|exact C2]; intros c Hc; apply Hc). rewrite N2, L2. reflexivity. }
  assert (Z3 : zlen (concat b3) = kz P * (32 * D)).
  { rewrite (concat_zlen b3 (32 * bitlen (TOP - 1 + TOP))) by (eapply Forall_impl; [|exact C3]; intros c Hc; apply Hc). rewrite N3, L3. reflexivity. }
  exists (rho ++ k ++ tr ++ concat b1 ++ concat b2 ++ concat b3).
  assert (Hlen : zlen (rho ++ k ++ tr ++ concat b1 ++ concat b2 ++ concat b3) = p_sk_len P).
  { unfold zlen in *. rewrite !app_length. rewrite Htot. fold st. lia. }
  split; [|split; [|split; [exact Hlen|]]].
  - unfold sk_encode.
    replace ((p_eta P =? 2) || (p_eta P =? 4)) with true by (destruct Heta as [E|E]; rewrite E; reflexivity).
    rewrite (in_range_vec _ _ _ R1), (in_range_vec _ _ _ R2), (in_range_vec _ _ _ R3), Hform, Z.eqb_refl. cbn [guard bind].
    rewrite Hstep. fold st. rewrite E1. cbn [bind]. rewrite E2. cbn [bind].
    change (32 * D) with (32 * bitlen (TOP - 1 + TOP)). rewrite E3. reflexivity.
  - repeat (apply Forall_app; split); try assumption; apply concat_bytes_ok.
    + eapply Forall_impl; [|exact C1]; intros c Hc; apply Hc.
    + eapply Forall_impl; [|exact C2]; intros c Hc; apply Hc.
    + eapply Forall_impl; [|exact C3]; intros c Hc; apply Hc.
  - unfold sk_decode.
    replace ((p_eta P =? 2) || (p_eta P =? 4)) with true by (destruct Heta as [E|E]; rewrite E; reflexivity).
    rewrite Hform, Z.eqb_refl. cbn [guard bind]. rewrite Hstep. fold st.
    set (skb := rho ++ k ++ tr ++ concat b1 ++ concat b2 ++ concat b3) in *.
    assert (S1 : skb = (rho ++ k ++ tr) ++ concat b1 ++ (concat b2 ++ concat b3)) by (unfold skb; rewrite <- !app_assoc; reflexivity).
    assert (S2 : skb = (rho ++ k ++ tr ++ concat b1) ++ concat b2 ++ concat b3) by (unfold skb; rewrite <- !app_assoc; reflexivity).
    assert (S3 : skb = (rho ++ k ++ tr ++ concat b1 ++ concat b2) ++ concat b3 ++ []) by (unfold skb; rewrite app_nil_r, <- !app_assoc; reflexivity).
    match goal with |- context [mapM ?f (seq 0 (p_l P))] => assert (M1 : mapM f (seq 0 (p_l P)) = Ok s1) end.
    { rewrite S1, <- L1. apply (D1 (rho ++ k ++ tr) (concat b2 ++ concat b3) 128). unfold zlen in *; rewrite !app_length; lia. }
    rewrite M1. cbn [bind].
    match goal with |- context [mapM ?f (seq 0 (p_k P))] => assert (M2 : mapM f (seq 0 (p_k P)) = Ok s2) end.
    { rewrite S2, <- L2. apply (D2 (rho ++ k ++ tr ++ concat b1) (concat b3) (128 + lz P * st)). unfold zlen in *; rewrite !app_length; lia. }
    rewrite M2. cbn [bind]. change (32 * D) with (32 * bitlen (TOP - 1 + TOP)).
    match goal with |- context [mapM ?f (seq 0 (p_k P))] => assert (M3 : mapM f (seq 0 (p_k P)) = Ok t0) end.
    { rewrite S3, <- L3. apply (D3 (rho ++ k ++ tr ++ concat b1 ++ concat b2) [] (128 + lz P * st + kz P * st)). unfold zlen in *; rewrite !app_length; lia. }
    rewrite M3. cbn [bind].
    rewrite Hlen, Htot. rewrite Hstep. fold st. change (32 * bitlen (TOP - 1 + TOP)) with (32 * D). rewrite Z.eqb_refl. cbn [guard bind].
    assert (Q1 : zslice 0 32 skb = rho).
    { unfold skb. rewrite zslice_app_l by lia. rewrite <- Lr. apply zslice_all. }
    assert (Q2 : zslice 32 64 skb = k).
    { unfold skb. rewrite zslice_pre by lia. rewrite Lr. rewrite zslice_app_l by lia. replace (64 - 32) with (zlen k) by lia. replace (32 - 32) with 0 by lia. apply zslice_all. }
    assert (Q3 : zslice 64 128 skb = tr).
    { unfold skb. rewrite zslice_pre by lia. rewrite Lr. rewrite zslice_pre by lia. rewrite Lk. rewrite zslice_app_l by lia.
      replace (128 - 32 - 32) with (zlen tr) by lia. replace (64 - 32 - 32) with 0 by lia. apply zslice_all. }
    rewrite Q1, Q2, Q3. reflexivity.
Qed.

Theorem pk_decode_encode P rho t1 : In P all_params -> zlen rho = 32 -> bytes_ok rho -> rvec 0 1023 (p_k P) t1 ->
  exists pkb, pk_encode P rho t1 = Ok pkb /\ bytes_ok pkb /\ zlen pkb = p_pk_len P /\ pk_decode P pkb = Ok (rho, t1).
Proof.
  intros HP Lr Br [R L].
  assert (Hk : p_pk_len P = 32 + 32 * kz P * BLQD /\ 0 <= kz P <= 8) by (destruct HP as [<-|[<-|[<-|[]]]]; (split; [reflexivity|unfold kz; cbn; lia])).
  destruct Hk as [Hpk Hkr].
  assert (Hab : valid_ab 0 T1MAX) by (change T1MAX with 1023; unfold valid_ab; lia).
  change 1023 with T1MAX in R.
  destruct (section_encode 0 T1MAX t1 Hab R) as (bs & E & N & C & Dd).
  change (32 * bitlen (0 + T1MAX)) with 320 in *.
  assert (Z1 : zlen (concat bs) = kz P * 320).
  { rewrite (concat_zlen bs 320) by (eapply Forall_impl; [|exact C]; intros c Hc; apply Hc). rewrite N, L. reflexivity. }
  exists (rho ++ concat bs).
  assert (Hlen : zlen (rho ++ concat bs) = p_pk_len P) by (unfold zlen in *; rewrite app_length, Hpk; change BLQD with 10; lia).
  split; [|split; [|split; [exact Hlen|]]].
  - unfold pk_encode. rewrite (in_range_vec _ _ _ R), Hpk, Z.eqb_refl. cbn [guard bind].
    assert (E' : mapM (fun t => simple_bit_pack t T1MAX (32 * BLQD)) t1 = Ok bs).
    { rewrite <- E. apply mapM_ext_in. intros p Hp. unfold simple_bit_pack. change ((1 <=? T1MAX) && (T1MAX <? 1048576)) with true.
      rewrite Forall_forall in R. destruct (R p Hp) as [_ Hr]. replace (is_in_range p 0 T1MAX) with true by (symmetry; apply in_range_forall; exact Hr).
      change (32 * BLQD =? 32 * bitlen T1MAX) with true. cbn [guard bind]. reflexivity. }
    rewrite E'. reflexivity.
  - apply Forall_app. split; [exact Br|]. apply concat_bytes_ok. eapply Forall_impl; [|exact C]; intros c Hc; apply Hc.
  - unfold pk_decode. rewrite Hlen, Hpk, Z.eqb_refl. cbn [guard bind].
    match goal with |- context [mapM ?f (seq 0 (p_k P))] => assert (M : mapM f (seq 0 (p_k P)) = Ok t1) end.
    { rewrite <- L. rewrite <- (Dd rho [] 32 Lr). rewrite app_nil_r. apply mapM_ext_in. intros i Hi. apply in_seq in Hi. cbv zeta.
      replace (32 + 32 * Z.of_nat i * BLQD) with (32 + Z.of_nat i * 320) by (change BLQD with 10; lia).
      replace (32 + 32 * (Z.of_nat i + 1) * BLQD) with (32 + (Z.of_nat i + 1) * 320) by (change BLQD with 10; lia).
      unfold simple_bit_unpack. change ((1 <=? T1MAX) && (T1MAX <? 1048576)) with true. cbn [guard bind].
      replace (zlen (zslice (32 + Z.of_nat i * 320) (32 + (Z.of_nat i + 1) * 320) (rho ++ concat bs)) =? 32 * bitlen T1MAX) with true; [reflexivity|].
      symmetry. apply Z.eqb_eq. unfold zlen. rewrite zslice_length; [change (32 * bitlen T1MAX) with 320; lia|lia|].
      rewrite Hlen, Hpk. change BLQD with 10. unfold kz. lia. }
    rewrite M. cbn [bind]. change T1MAX with 1023 in *. rewrite (in_range_vec _ _ _ R). cbn [guard bind].
    f_equal. f_equal. rewrite zslice_app_l by lia. rewrite <- Lr. apply zslice_all.
Qed.

(* ---------- C09, converse: a key built from in-range components survives a serialise/deserialise round trip unchanged ---------- *)
Definition sk_of (rho k tr : bytes) (s1 s2 t0 : list (list Z)) : res PrivateKey :=
  a <- ntt_mont s1 ;; b <- ntt_mont s2 ;; c <- ntt_mont t0 ;; Ok (mkSK rho k tr a b c).
Definition pk_of (rho tr : bytes) (t1 : list (list Z)) : res PublicKey :=
  a <- t1_precompute t1 ;; Ok (mkPK rho tr a).

Lemma sk_of_repr P rho k tr s1 s2 t0 key : In P all_params ->
  rvec (p_eta P) (p_eta P) (p_l P) s1 -> rvec (p_eta P) (p_eta P) (p_k P) s2 -> rvec 4095 4096 (p_k P) t0 ->
  sk_of rho k tr s1 s2 t0 = Ok key -> sk_repr P key rho k tr s1 s2 t0.
Proof.
  intros HP R1 R2 R3 E. destruct (build_sk_repr P rho k tr s1 s2 t0 HP R1 R2 R3) as (a & b & c & Ea & Eb & Ec & Hrep).
  unfold sk_of in E. rewrite Ea, Eb, Ec in E. cbn [bind] in E. injection E as <-. exact Hrep.
Qed.
Lemma pk_of_repr P rho tr t1 pk : rvec 0 1023 (p_k P) t1 -> pk_of rho tr t1 = Ok pk -> pk_repr P pk rho tr t1.
Proof.
  intros R E. destruct (build_pk_repr P rho tr t1 R) as (a & Ea & Hrep). unfold pk_of in E. rewrite Ea in E. cbn [bind] in E. injection E as <-. exact Hrep.
Qed.

Theorem sk_struct_roundtrip P rho k tr s1 s2 t0 key : In P all_params ->
  zlen rho = 32 -> zlen k = 32 -> zlen tr = 64 -> bytes_ok rho -> bytes_ok k -> bytes_ok tr ->
  rvec (p_eta P) (p_eta P) (p_l P) s1 -> rvec (p_eta P) (p_eta P) (p_k P) s2 -> rvec 4095 4096 (p_k P) t0 ->
  sk_of rho k tr s1 s2 t0 = Ok key ->
  exists skb, sk_into_bytes P key = Ok skb /\ bytes_ok skb /\ zlen skb = p_sk_len P /\ sk_try_from_bytes P skb = Ok key.
Proof.
  intros HP Lr Lk Lt Br Bk Bt R1 R2 R3 E.
  destruct (sk_decode_encode P rho k tr s1 s2 t0 HP Lr Lk Lt Br Bk Bt R1 R2 R3) as (skb & Ee & Bs & Ls & Ed).
  exists skb. split; [|split; [exact Bs|split; [exact Ls|]]].
  - rewrite (sk_into_bytes_repr P key _ _ _ _ _ _ HP (sk_of_repr P _ _ _ _ _ _ key HP R1 R2 R3 E)). exact Ee.
  - unfold sk_try_from_bytes, expand_private. rewrite Ed. cbn [bind]. exact E.
Qed.

Theorem pk_struct_roundtrip H P rho t1 pk : In P all_params -> zlen rho = 32 -> bytes_ok rho -> rvec 0 1023 (p_k P) t1 ->
  (forall pkb, pk_encode P rho t1 = Ok pkb -> pk_of rho (h_shake256 H pkb 64) t1 = Ok pk) ->
  exists pkb, pk_into_bytes P pk = Ok pkb /\ bytes_ok pkb /\ zlen pkb = p_pk_len P /\ pk_try_from_bytes H P pkb = Ok pk.
Proof.
  intros HP Lr Br R E.
  destruct (pk_decode_encode P rho t1 HP Lr Br R) as (pkb & Ee & Bs & Ls & Ed).
  specialize (E pkb Ee). exists pkb. split; [|split; [exact Bs|split; [exact Ls|]]].
  - rewrite (pk_into_bytes_repr P pk _ _ _ (pk_of_repr P _ _ _ pk R E)). exact Ee.
  - unfold pk_try_from_bytes, expand_public. rewrite Ed. cbn [bind]. exact E.
Qed.

Lemma sk_len_ge P : In P all_params -> 128 <= p_sk_len P.
Proof. intros [<-|[<-|[<-|[]]]]; cbn; lia. Qed.
Lemma sk_decode_byte_fields P skb rho k tr s1 s2 t0 : In P all_params -> zlen skb = p_sk_len P ->
  sk_decode P skb = Ok (rho, k, tr, s1, s2, t0) -> zlen rho = 32 /\ zlen k = 32 /\ zlen tr = 64.
Proof.
  intros HP Hl Ed. pose proof (sk_len_ge P HP) as Hg. unfold sk_decode in Ed.
  repeat match type of Ed with
         | bind (guard ?c _) _ = Ok _ => destruct c; cbn [guard bind] in Ed; try discriminate
         | bind ?m _ = Ok _ => destruct m; cbn [bind] in Ed; try discriminate
         end.
  injection Ed as <- <- <- _ _ _. unfold zlen. rewrite !zslice_length by lia. repeat split; lia.
Qed.
