(* C04: key_gen_internal equals FIPS 204 ML-DSA.KeyGen_internal (Algorithm 6): the structs it returns
   are the ones built from the specification's (rho, K, tr, s1, s2, t0, t1), and they serialise to
   the specification's pkEncode / skEncode outputs. *)
Require Import List ZArith Lia Bool. Import ListNotations.
Require Import F204.Spec.SpecConv F204.Spec.SpecRound F204.Spec.SpecNtt F204.Spec.SpecSample F204.Spec.SpecMLDSA.
Require Import F204.Base.Util F204.Base.Mach F204.Base.Bits F204.Base.ListLemmas F204.Gen.Params F204.Hash.HashIface
  F204.Impl.Helpers F204.Impl.Ntt F204.Impl.HighLow F204.Impl.Conversion F204.Impl.Encodings F204.Impl.Hashing F204.Impl.MlDsa F204.Impl.Api
  F204.Proofs.KernelLemmas F204.Proofs.NttRefine F204.Proofs.NttRing F204.Proofs.NttPipeline F204.Proofs.BitPackProofs
  F204.Proofs.SkDecodeProofs F204.Proofs.SampleRefine F204.Proofs.SibRefine F204.Proofs.VerifyParts F204.Proofs.VerifyRefine F204.Proofs.RelMap
  F204.Proofs.KeyRoundTrip F204.Proofs.PackRefine.
Open Scope Z_scope.
Ltac Zify.zify_post_hook ::= Z.div_mod_to_equations.
Arguments Z.mul : simpl never. Arguments Z.add : simpl never. Arguments Z.sub : simpl never.

(* ---------- Algorithm 31 ---------- *)
Lemma rbp_take_spec need acc eta b : (eta = 2 \/ eta = 4) -> 0 <= b < 16 ->
  rbp_take need acc (coeff_from_half_byte false eta b) = Ok (rb_take need acc (CoeffFromHalfByte eta b)).
Proof.
  intros He Hb. rewrite (coeff_from_half_byte_spec eta b He Hb).
  destruct (CoeffFromHalfByte eta b) as [v|]; cbn [res_of_option rbp_take rb_take]; destruct need; reflexivity.
Qed.

Lemma rej_bounded_loop_spec eta : (eta = 2 \/ eta = 4) -> forall s need acc, HintProofs.bytes_ok s ->
  rej_bounded_loop false eta s need acc = res_fuel (RejBoundedPoly_loop eta s need acc).
Proof.
  intros He. induction s as [|z r IH]; intros need acc Hb.
  - destruct need; reflexivity.
  - destruct need as [|need']; [reflexivity|]. inversion Hb as [|? ? Hz Hr]; subst.
    cbn [rej_bounded_loop RejBoundedPoly_loop].
    assert (H0 : Z.land z 15 = z mod 16) by (change 15 with (Z.ones 4); rewrite Z.land_ones by lia; reflexivity).
    assert (H1 : shr z 4 = z / 16) by (rewrite shr_div by lia; reflexivity).
    rewrite H0, H1.
    assert (B0 : 0 <= z mod 16 < 16) by lia. assert (B1 : 0 <= z / 16 < 16) by lia.
    pose proof (rbp_take_spec (S need') acc eta (z mod 16) He B0) as T0.
    rewrite (coeff_from_half_byte_spec eta (z mod 16) He B0) in *. rewrite (coeff_from_half_byte_spec eta (z / 16) He B1).
    destruct (CoeffFromHalfByte eta (z mod 16)) as [v0|] eqn:E0; destruct (CoeffFromHalfByte eta (z / 16)) as [v1|] eqn:E1;
      cbn [res_of_option rbp_take rb_take bind];
      repeat match goal with |- context [rbp_take ?n ?a (Ok ?v)] => destruct n; cbn [rbp_take bind] end;
      try apply IH; try exact Hr; destruct need'; cbn [rb_take]; try apply IH; try exact Hr; reflexivity.
Qed.

Lemma CoeffFromHalfByte_range eta b v : (eta = 2 \/ eta = 4) -> 0 <= b -> CoeffFromHalfByte eta b = Some v -> - eta <= v <= eta.
Proof.
  intros He Hb. unfold CoeffFromHalfByte.
  destruct ((eta =? 2) && (b <? 15)) eqn:E2.
  - apply andb_prop in E2 as [E2 _]. apply Z.eqb_eq in E2. intros [= <-]. lia.
  - destruct ((eta =? 4) && (b <? 9)) eqn:E4; [|discriminate].
    apply andb_prop in E4 as [E4 E9]. apply Z.eqb_eq in E4. apply Z.ltb_lt in E9. intros [= <-]. lia.
Qed.
Lemma rb_take_range eta need acc b : (eta = 2 \/ eta = 4) -> 0 <= b -> Forall (fun e => - eta <= e <= eta) acc ->
  Forall (fun e => - eta <= e <= eta) (snd (rb_take need acc (CoeffFromHalfByte eta b)))
  /\ (length (snd (rb_take need acc (CoeffFromHalfByte eta b))) + fst (rb_take need acc (CoeffFromHalfByte eta b)) = length acc + need)%nat.
Proof.
  intros He Hb Ha. destruct (CoeffFromHalfByte eta b) as [v|] eqn:E; destruct need; cbn [rb_take fst snd length]; split; try assumption; try lia.
  constructor; [apply (CoeffFromHalfByte_range eta b v He Hb E)|exact Ha].
Qed.
Lemma RejBoundedPoly_loop_shape eta : (eta = 2 \/ eta = 4) -> forall s need acc r, HintProofs.bytes_ok s ->
  Forall (fun e => - eta <= e <= eta) acc -> RejBoundedPoly_loop eta s need acc = Some r ->
  Forall (fun e => - eta <= e <= eta) r /\ length r = (length acc + need)%nat.
Proof.
  intros He. induction s as [|z s IH]; intros need acc r Hb Ha E.
  - destruct need; [|discriminate]. injection E as <-. rewrite rev_length. split; [apply Forall_rev; exact Ha|lia].
  - destruct need as [|need']; [injection E as <-; rewrite rev_length; split; [apply Forall_rev; exact Ha|lia]|].
    inversion Hb as [|? ? Hz Hs]; subst. cbn [RejBoundedPoly_loop] in E.
    destruct (rb_take_range eta (S need') acc (z mod 16) He ltac:(lia) Ha) as [R1 L1].
    destruct (rb_take (S need') acc (CoeffFromHalfByte eta (z mod 16))) as [n1 a1]. cbn [fst snd] in *.
    destruct (rb_take_range eta n1 a1 (z / 16) He ltac:(lia) R1) as [R2 L2].
    destruct (rb_take n1 a1 (CoeffFromHalfByte eta (z / 16))) as [n2 a2]. cbn [fst snd] in *.
    destruct (IH n2 a2 r Hs R2 E) as [R L]. split; [exact R|lia].
Qed.

Section S.
Variable H : Hashes.
Hypothesis HL : HashLaws H.

Theorem rej_bounded_poly_spec eta seed : (eta = 2 \/ eta = 4) -> zlen seed = 66 ->
  rej_bounded_poly H false eta seed = res_fuel (RejBoundedPoly H eta seed).
Proof.
  intros He Hl. unfold rej_bounded_poly, RejBoundedPoly. rewrite Hl. cbn [guard bind Z.eqb Pos.eqb].
  apply with_fuel_first_some. intros n. apply rej_bounded_loop_spec; [exact He|]. apply (shake256_ok H HL).
Qed.
Lemma RejBoundedPoly_shape eta seed r : (eta = 2 \/ eta = 4) -> RejBoundedPoly H eta seed = Some r ->
  length r = 256%nat /\ Forall (fun e => - eta <= e <= eta) r.
Proof.
  intros He E. unfold RejBoundedPoly in E. apply first_some_inv in E as (n & E).
  apply (RejBoundedPoly_loop_shape eta He) in E; [|apply (shake256_ok H HL)|constructor]. cbn [length Nat.add] in E. split; apply E.
Qed.

Lemma eta_vals P : In P all_params -> p_eta P = 2 \/ p_eta P = 4.
Proof. intros [<-|[<-|[<-|[]]]]; cbn; auto. Qed.
Lemma kl_small P : In P all_params -> (p_k P <= 8)%nat /\ (p_l P <= 7)%nat.
Proof. intros [<-|[<-|[<-|[]]]]; cbn; lia. Qed.

Lemma ExpandS_shape P rho s1 s2 : In P all_params -> ExpandS H P rho = Some (s1, s2) ->
  rvec (p_eta P) (p_eta P) (p_l P) s1 /\ rvec (p_eta P) (p_eta P) (p_k P) s2.
Proof.
  intros HP E. pose proof (eta_vals P HP) as He. unfold ExpandS in E.
  destruct (option_all (map _ (seq 0 (p_l P)))) as [a|] eqn:E1; [|discriminate].
  destruct (option_all (map _ (seq 0 (p_k P)))) as [b|] eqn:E2; [|discriminate]. injection E as <- <-.
  apply option_all_map_inv in E1, E2. split; (split; [|match goal with Hx : Forall2 _ (seq 0 ?n) ?v |- length ?v = ?n => apply Forall2_length in Hx; rewrite seq_length in Hx; lia end]).
  - clear E2. induction E1 as [|i p is a Hp E1 IH]; constructor; [|exact IH]. apply (RejBoundedPoly_shape _ _ _ He Hp).
  - clear E1. induction E2 as [|i p is b Hp E2 IH]; constructor; [|exact IH]. apply (RejBoundedPoly_shape _ _ _ He Hp).
Qed.

(* Algorithm 33 *)
Theorem expand_s_spec P rho : In P all_params -> zlen rho = 64 -> expand_s H false P rho = res_fuel (ExpandS H P rho).
Proof.
  intros HP Hl. pose proof (eta_vals P HP) as He. destruct (kl_small P HP) as [Hk Hll].
  pose proof (ExpandS_shape P rho) as Hsh. unfold expand_s, ExpandS in *.
  rewrite (mapM_res_fuel _ (fun r => RejBoundedPoly H (p_eta P) (rho ++ IntegerToBytes (Z.of_nat r) 2)) (seq 0 (p_l P))).
  2:{ intros r Hr. apply in_seq in Hr. cbn [IntegerToBytes]. rewrite (Z.mod_small (Z.of_nat r / 256) 256) by lia. replace (Z.of_nat r / 256) with 0 by lia.
      apply rej_bounded_poly_spec; [exact He|]. unfold zlen in *. rewrite !app_length. cbn [length]. lia. }
  destruct (option_all (map _ (seq 0 (p_l P)))) as [a|]; cbn [res_fuel bind]; [|reflexivity].
  rewrite (mapM_res_fuel _ (fun r => RejBoundedPoly H (p_eta P) (rho ++ IntegerToBytes (Z.of_nat (r + p_l P)) 2)) (seq 0 (p_k P))).
  2:{ intros r Hr. apply in_seq in Hr. cbn [IntegerToBytes]. rewrite (Z.mod_small (Z.of_nat (r + p_l P) / 256) 256) by lia. replace (Z.of_nat (r + p_l P) / 256) with 0 by lia.
      apply rej_bounded_poly_spec; [exact He|]. unfold zlen in *. rewrite !app_length. cbn [length]. lia. }
  destruct (option_all (map _ (seq 0 (p_k P)))) as [b|]; cbn [res_fuel bind]; [|reflexivity].
  destruct (Hsh a b HP eq_refl) as [[R1 _] [R2 _]].
  rewrite (in_range_vec _ _ _ R1), (in_range_vec _ _ _ R2). reflexivity.
Qed.
End S.

(* ---------- shapes ---------- *)
Lemma padd_length a b : length a = 256%nat -> length b = 256%nat -> length (padd a b) = 256%nat.
Proof. intros Ha Hb. unfold padd. rewrite map2_length. lia. Qed.
Lemma fold_padd_length ps : forall acc, length acc = 256%nat -> Forall (fun p => length p = 256%nat) ps -> length (fold_left padd ps acc) = 256%nat.
Proof. induction ps as [|p ps IH]; intros acc Ha Hp; [exact Ha|]. inversion Hp; subst. cbn [fold_left]. apply IH; [apply padd_length; assumption|assumption]. Qed.
Lemma MatrixVectorNTT_rows l (A : list (list (list Z))) (u : list (list Z)) : matrix_ok l A -> Forall (fun p => length p = 256%nat) u ->
  Forall (fun p => length p = 256%nat) (MatrixVectorNTT A u) /\ length (MatrixVectorNTT A u) = length A.
Proof.
  intros HA Hu. unfold MatrixVectorNTT. split; [|apply map_length]. apply Forall_forall. intros p Hp.
  apply in_map_iff in Hp as (row & <- & Hrow). unfold matrix_ok in HA. rewrite Forall_forall in HA. destruct (HA row Hrow) as (_ & _ & Lr).
  apply fold_padd_length; [apply repeat_length|].
  clear - Lr Hu. revert u Hu. induction Lr as [|a row Ha Lr IH]; intros u Hu; [constructor|]. destruct Hu as [|b u Hb Hu]; [constructor|].
  cbn [map2]. constructor; [unfold pmul; rewrite map2_length; lia|apply IH; exact Hu].
Qed.
Lemma vinvNTT_shape (w : list (list Z)) : Forall (fun p => length p = 256%nat) w ->
  Forall (fun p => length p = 256%nat /\ Forall (fun x => 0 <= x < Q) p) (vinvNTT w) /\ length (vinvNTT w) = length w.
Proof.
  intros H. unfold vinvNTT. split; [|apply map_length]. induction H as [|p w Hp H IH]; cbn [map]; constructor; [|exact IH].
  split; [apply invNTT_length; exact Hp|apply invNTT_range].
Qed.

(* ---------- t = A s1 + s2, reduced; Power2Round ---------- *)
Lemma add_reduce_vec (a s : list (list Z)) (eta : Z) : 0 <= eta <= 4 ->
  Forall (fun p => length p = 256%nat /\ Forall (fun x => 0 <= x < Q) p) a ->
  Forall (fun p => length p = 256%nat /\ Forall (fun e => - eta <= e <= eta) p) s -> length a = length s ->
  (t <- add_vector_ntt a s ;; mapM (mapM full_reduce32) t) = Ok (vadd a (map (map modq) s)).
Proof.
  intros He Ha. revert s. unfold add_vector_ntt, vadd. induction Ha as [|p a [Lp Rp] Ha IH]; intros s Hs Hl.
  - destruct s; [reflexivity|discriminate].
  - destruct s as [|ps s]; [discriminate|]. inversion Hs as [|? ? [Lps Rps] Hs']; subst. injection Hl as Hl.
    specialize (IH s Hs' Hl). cbn [map2M map map2].
    assert (Hp : forall (p ps : list Z), Forall (fun x => 0 <= x < Q) p -> Forall (fun e => - eta <= e <= eta) ps ->
               (t <- add_poly p ps ;; mapM full_reduce32 t) = Ok (padd p (map modq ps))).
    { clear - He. unfold add_poly, padd. induction p as [|x p IHp]; intros ps Rp Rps; [reflexivity|].
      destruct ps as [|y ps]; [reflexivity|]. inversion Rp; subst. inversion Rps; subst. cbn [map2M map map2].
      unfold add32 at 1. rewrite chk32_ok by (unfold i32_min, i32_max, Q in *; lia). cbn [bind].
      specialize (IHp ps ltac:(assumption) ltac:(assumption)).
      destruct (map2M add32 p ps) as [t| | |]; cbn [bind] in IHp |- *; try discriminate.
      cbn [mapM]. rewrite full_reduce32_spec by (unfold PR32_BOUND, Q in *; lia). cbn [bind]. rewrite IHp. cbn [bind]. f_equal. f_equal.
      unfold modq. rewrite q_eq. rewrite Zplus_mod_idemp_r. reflexivity. }
    specialize (Hp p ps Rp Rps).
    destruct (add_poly p ps) as [t| | |]; cbn [bind] in Hp |- *; try discriminate.
    destruct (map2M add_poly a s) as [ts| | |]; cbn [bind] in IH |- *; try discriminate.
    cbn [mapM]. rewrite Hp. cbn [bind]. rewrite IH. reflexivity.
Qed.

Lemma padd_range a b : Forall (fun x => 0 <= x < Q) (padd a b).
Proof. unfold padd. revert b. induction a as [|x a IH]; intros b; [constructor|]. destruct b as [|y b]; [constructor|]. cbn [map2]. constructor; [rewrite q_eq; apply Z.mod_pos_bound; reflexivity|apply IH]. Qed.

Theorem power2round_spec (t : list (list Z)) : Forall (Forall (fun x => 0 <= x < Q)) t ->
  power2round t = Ok (map (map (fun r => fst (Power2Round r))) t, map (map (fun r => snd (Power2Round r))) t).
Proof.
  intros Ht. unfold power2round.
  replace (forallb (fun e => (0 <=? e) && (e <? Q)) (concat t)) with true.
  2:{ symmetry. apply forallb_forall. intros e He. apply in_concat in He as (p & Hp & He). rewrite Forall_forall in Ht. specialize (Ht p Hp).
      rewrite Forall_forall in Ht. specialize (Ht e He). apply andb_true_intro. split; [apply Z.leb_le|apply Z.ltb_lt]; lia. }
  cbn [guard bind].
  assert (Ecoef : forall r, 0 <= r < Q -> p2r_hi r = Ok (fst (Power2Round r)) /\ p2r_lo r (fst (Power2Round r)) = Ok (snd (Power2Round r))
                    /\ p2r_check r (fst (Power2Round r)) (snd (Power2Round r)) = Ok true).
  { intros r Hr. destruct (p2r_spec r Hr) as (r1 & r0 & E1 & E0 & Ec & Ep & _). rewrite <- Ep. cbn [fst snd]. repeat split; assumption. }
  assert (E1 : mapM (mapM p2r_hi) t = Ok (map (map (fun r => fst (Power2Round r))) t)).
  { apply mapM_pure with (P := Forall (fun x => 0 <= x < Q)); [|exact Ht]. intros p Hp.
    apply mapM_pure with (P := fun x => 0 <= x < Q); [|exact Hp]. intros r Hr. apply (Ecoef r Hr). }
  rewrite E1. cbn [bind].
  assert (E0 : map2M (map2M p2r_lo) t (map (map (fun r => fst (Power2Round r))) t) = Ok (map (map (fun r => snd (Power2Round r))) t)).
  { clear E1. induction Ht as [|p t Hp Ht IH]; [reflexivity|]. cbn [map map2M].
    assert (Ep : map2M p2r_lo p (map (fun r => fst (Power2Round r)) p) = Ok (map (fun r => snd (Power2Round r)) p)).
    { clear - Hp Ecoef. induction Hp as [|r p Hr Hp IHp]; [reflexivity|]. cbn [map map2M]. rewrite (proj1 (proj2 (Ecoef r Hr))). cbn [bind]. rewrite IHp. reflexivity. }
    rewrite Ep. cbn [bind]. rewrite IH. reflexivity. }
  rewrite E0. cbn [bind].
  assert (Ec : exists chk, map3M (map3M p2r_check) t (map (map (fun r => fst (Power2Round r))) t) (map (map (fun r => snd (Power2Round r))) t) = Ok chk
                /\ Forall (Forall (fun b => b = true)) chk).
  { clear E1 E0. induction Ht as [|p t Hp Ht (chk & Ek & Hk)]; [exists []; split; [reflexivity|constructor]|]. cbn [map map3M].
    assert (Ep : exists c, map3M p2r_check p (map (fun r => fst (Power2Round r)) p) (map (fun r => snd (Power2Round r)) p) = Ok c /\ Forall (fun b => b = true) c).
    { clear - Hp Ecoef. induction Hp as [|r p Hr Hp (c & Ec & Hc)]; [exists []; split; [reflexivity|constructor]|]. cbn [map map3M].
      rewrite (proj2 (proj2 (Ecoef r Hr))). cbn [bind]. rewrite Ec. cbn [bind]. eexists. split; [reflexivity|]. constructor; [reflexivity|exact Hc]. }
    destruct Ep as (c & Ec & Hc). rewrite Ec. cbn [bind]. rewrite Ek. cbn [bind]. eexists. split; [reflexivity|]. constructor; assumption. }
  destruct Ec as (chk & Ek & Hk). rewrite Ek. cbn [bind].
  replace (forallb (fun b => b) (concat chk)) with true; [reflexivity|].
  symmetry. apply forallb_forall. intros b Hb. apply in_concat in Hb as (c & Hc & Hb). rewrite Forall_forall in Hk. specialize (Hk c Hc). rewrite Forall_forall in Hk. apply Hk. exact Hb.
Qed.

Lemma Power2Round_ranges r : 0 <= r < Q -> 0 <= fst (Power2Round r) <= 1023 /\ - 4095 <= snd (Power2Round r) <= 4096.
Proof. intros Hr. destruct (p2r_spec r Hr) as (r1 & r0 & _ & _ & _ & Ep & R1 & R0). rewrite <- Ep. cbn [fst snd]. lia. Qed.

(* continuation form of the transform / multiply / inverse-transform pipeline *)
Lemma ntt_pipeline_k {B} (A : list (list (list Z))) (s : list (list Z)) (k : list (list Z) -> res B) :
  matrix_ok (length s) A -> Forall (poly256 NTT_IN) s -> (length s <= 7)%nat ->
  (sh <- ntt s ;; p <- mat_vec_mul A sh ;; r <- inv_ntt p ;; k r) = k (vinvNTT (MatrixVectorNTT A (vNTT s))).
Proof.
  intros HA Hs HL. pose proof (ntt_pipeline_ok A s HA Hs HL) as Hp.
  destruct (ntt s) as [sh| | |]; cbn [bind] in *; try discriminate.
  destruct (mat_vec_mul A sh) as [p| | |]; cbn [bind] in *; try discriminate.
  rewrite Hp. reflexivity.
Qed.

(* ---------- Algorithm 6 ---------- *)
Lemma bind_assoc {A B C} (m : res A) (f : A -> res B) (g : B -> res C) :
  (y <- (x <- m ;; f x) ;; g y) = (x <- m ;; y <- f x ;; g y).
Proof. destruct m; reflexivity. Qed.


Section K.
Variable H : Hashes.
Hypothesis HL : HashLaws H.
Variable P : Params.
Hypothesis HP : In P all_params.

(* everything KeyGen_internal computes before encoding *)
Definition KeyGen_parts (xi : bytes) : option (bytes * bytes * bytes * list (list Z) * list (list Z) * list (list Z) * list (list Z)) :=
  let h := h_shake256 H (xi ++ IntegerToBytes (Z.of_nat (p_k P)) 1 ++ IntegerToBytes (Z.of_nat (p_l P)) 1) 128 in
  let rho := zslice 0 32 h in let rho' := zslice 32 96 h in let K := zslice 96 128 h in
  match ExpandA H P rho, ExpandS H P rho' with
  | Some A_hat, Some (s1, s2) =>
      let t := vadd (vinvNTT (MatrixVectorNTT A_hat (vNTT s1))) (map (map modq) s2) in
      let t1 := map (map (fun r => fst (Power2Round r))) t in
      let t0 := map (map (fun r => snd (Power2Round r))) t in
      Some (rho, K, h_shake256 H (pkEncode rho t1) 64, s1, s2, t0, t1)
  | _, _ => None
  end.
Lemma KeyGen_internal_parts xi :
  KeyGen_internal H P xi = match KeyGen_parts xi with
                           | None => None
                           | Some (rho, K, tr, s1, s2, t0, t1) => Some (pkEncode rho t1, skEncode (p_eta P) rho K tr s1 s2 t0)
                           end.
Proof.
  unfold KeyGen_internal, KeyGen_parts. cbv zeta.
  destruct (ExpandA H P _) as [A|]; [|reflexivity]. destruct (ExpandS H P _) as [[s1 s2]|]; reflexivity.
Qed.

Lemma KeyGen_parts_shape xi rho K tr s1 s2 t0 t1 : KeyGen_parts xi = Some (rho, K, tr, s1, s2, t0, t1) ->
  zlen rho = 32 /\ zlen K = 32 /\ zlen tr = 64 /\
  rvec (p_eta P) (p_eta P) (p_l P) s1 /\ rvec (p_eta P) (p_eta P) (p_k P) s2 /\ rvec 4095 4096 (p_k P) t0 /\ rvec 0 1023 (p_k P) t1.
Proof.
  unfold KeyGen_parts. cbv zeta. set (h := h_shake256 H _ 128).
  assert (Hh : zlen h = 128) by (unfold zlen, h; rewrite (shake256_len H HL); reflexivity).
  destruct (ExpandA H P (zslice 0 32 h)) as [A|] eqn:EA; [|discriminate].
  destruct (ExpandS H P (zslice 32 96 h)) as [[s1' s2']|] eqn:ES; [|discriminate].
  intros E. injection E as <- <- <- <- <- <- <-.
  destruct (ExpandS_shape H HL P _ _ _ HP ES) as [R1 R2].
  destruct (ExpandA_shape H HL P _ _ EA) as [LA RA].
  assert (L1 : Forall (fun p => length p = 256%nat) s1') by (eapply Forall_impl; [|apply R1]; intros p Hp; apply Hp).
  destruct (MatrixVectorNTT_rows (p_l P) A (vNTT s1') ltac:(exact RA) (vNTT_rows _ L1)) as [Lm Lml].
  destruct (vinvNTT_shape _ Lm) as [Sv Lv].
  set (t := vadd _ _).
  assert (Ht : Forall (fun p => length p = 256%nat /\ Forall (fun x => 0 <= x < Q) p) t /\ length t = p_k P).
  { unfold t, vadd. split.
    - apply (map2_Forall padd (fun p => length p = 256%nat /\ Forall (fun x => 0 <= x < Q) p) (fun p => length p = 256%nat)).
      + intros a b [La _] Lb. split; [apply padd_length; assumption|apply padd_range].
      + exact Sv.
      + rewrite Forall_map. destruct R2 as [R2 _]. eapply Forall_impl; [|exact R2]. intros p [Lp _]. rewrite map_length. exact Lp.
    - rewrite map2_length, Lv, Lml, map_length, LA. destruct R2 as [_ ->]. lia. }
  repeat split; try apply R1; try apply R2.
  - unfold zlen. rewrite zslice_length; lia.
  - unfold zlen. rewrite zslice_length; lia.
  - unfold zlen. rewrite (shake256_len H HL). reflexivity.
  - destruct Ht as [Ht _]. rewrite Forall_map. eapply Forall_impl; [|exact Ht]. intros p [Lp Rp]. split; [rewrite map_length; exact Lp|].
    rewrite Forall_map. eapply Forall_impl; [|exact Rp]. intros r Hr. apply (Power2Round_ranges r Hr).
  - rewrite map_length. apply Ht.
  - destruct Ht as [Ht _]. rewrite Forall_map. eapply Forall_impl; [|exact Ht]. intros p [Lp Rp]. split; [rewrite map_length; exact Lp|].
    rewrite Forall_map. eapply Forall_impl; [|exact Rp]. intros r Hr. change (- 0) with 0. apply (Power2Round_ranges r Hr).
  - rewrite map_length. apply Ht.
Qed.

Theorem keygen_refines xi :
  key_gen_internal H false P xi =
    match KeyGen_parts xi with
    | None => OutOfFuel
    | Some (rho, K, tr, s1, s2, t0, t1) => pk <- pk_of rho tr t1 ;; sk <- sk_of rho K tr s1 s2 t0 ;; Ok (pk, sk)
    end.
Proof.
  pose proof (KeyGen_parts_shape xi) as Hshape.
  unfold key_gen_internal, KeyGen_parts in *. cbv zeta in *. cbn [IntegerToBytes] in *. fold (kz P) (lz P) in *.
  change ([kz P mod 256] ++ [lz P mod 256]) with ([kz P mod 256; lz P mod 256]) in *. cbn [app] in Hshape.
  set (h := h_shake256 H _ 128) in *.
  assert (Hh : zlen h = 128) by (unfold zlen, h; rewrite (shake256_len H HL); reflexivity).
  rewrite (expand_s_spec H HL P _ HP) by (unfold zlen; rewrite zslice_length; lia).
  rewrite (expand_a_spec H HL P _ HP) by (unfold zlen; rewrite zslice_length; lia).
  destruct (ExpandS H P (zslice 32 96 h)) as [[s1 s2]|] eqn:ES; cbn [res_fuel bind].
  2:{ destruct (ExpandA H P (zslice 0 32 h)); reflexivity. }
  destruct (ExpandA H P (zslice 0 32 h)) as [A|] eqn:EA; cbn [res_fuel bind]; [|reflexivity].
  destruct (Hshape _ _ _ _ _ _ _ eq_refl) as (_ & _ & _ & R1 & R2 & R3 & R4). clear Hshape.
  destruct (ExpandA_shape H HL P _ _ EA) as [LA RA].
  pose proof (eta_small P HP) as He. destruct (kl_small P HP) as [Hk Hl].
  (* A s1 *)
  rewrite ntt_pipeline_k; [|destruct R1 as [_ ->]; exact RA|apply (range_poly256 _ (p_eta P) (p_eta P)); [unfold NTT_IN; lia..|apply R1]|destruct R1 as [_ ->]; lia].
  (* t = A s1 + s2 mod q *)
  destruct (MatrixVectorNTT_rows (p_l P) A (vNTT s1) ltac:(exact RA)
              (vNTT_rows _ ltac:(eapply Forall_impl; [|apply R1]; intros p Hp; apply Hp))) as [Lm Lml].
  destruct (vinvNTT_shape _ Lm) as [Sv Lv].
  rewrite <- (bind_assoc (add_vector_ntt _ _)).
  rewrite (add_reduce_vec _ s2 (p_eta P) He Sv ltac:(apply R2)) by (rewrite Lv, Lml, LA; destruct R2 as [_ ->]; reflexivity).
  cbn [bind]. set (t := vadd _ _) in *.
  rewrite power2round_spec.
  2:{ unfold t, vadd. apply (map2_Forall padd (fun _ => True) (fun _ => True)); [intros; apply padd_range|apply Forall_forall; auto|apply Forall_forall; auto]. }
  cbn [bind]. rewrite (pk_encode_spec P _ _ HP R4). cbn [bind].
  unfold pk_of, sk_of.
  destruct (t1_precompute _); cbn [bind]; try reflexivity.
  destruct (ntt_mont s1); cbn [bind]; try reflexivity.
  destruct (ntt_mont s2); cbn [bind]; try reflexivity.
  destruct (ntt_mont _); cbn [bind]; reflexivity.
Qed.

(* consequences: the generated structs exist, represent the specification's components and
   serialise to the specification's byte strings (so they never panic either) *)
Theorem keygen_bytes xi pkb skb : KeyGen_internal H P xi = Some (pkb, skb) ->
  exists pk sk rho K tr s1 s2 t0 t1,
    KeyGen_parts xi = Some (rho, K, tr, s1, s2, t0, t1) /\
    key_gen_internal H false P xi = Ok (pk, sk) /\
    pk_of rho tr t1 = Ok pk /\ sk_of rho K tr s1 s2 t0 = Ok sk /\
    pk_repr P pk rho tr t1 /\ sk_repr P sk rho K tr s1 s2 t0 /\
    pk_into_bytes P pk = Ok pkb /\ sk_into_bytes P sk = Ok skb.
Proof.
  intros E. rewrite KeyGen_internal_parts in E. pose proof (keygen_refines xi) as R.
  destruct (KeyGen_parts xi) as [[[[[[[rho K] tr] s1] s2] t0] t1]|] eqn:EP; [|discriminate]. injection E as <- <-.
  destruct (KeyGen_parts_shape xi _ _ _ _ _ _ _ EP) as (_ & _ & _ & R1 & R2 & R3 & R4).
  destruct (build_pk_repr P rho tr t1 R4) as (a & Ea & Rpk).
  destruct (build_sk_repr P rho K tr s1 s2 t0 HP R1 R2 R3) as (b1 & b2 & b3 & E1 & E2 & E3 & Rsk).
  unfold pk_of, sk_of in *. rewrite Ea, E1, E2, E3 in *. cbn [bind] in *.
  exists (mkPK rho tr a), (mkSK rho K tr b1 b2 b3), rho, K, tr, s1, s2, t0, t1.
  split; [reflexivity|]. split; [exact R|]. split; [rewrite Ea; reflexivity|]. split; [rewrite E1; cbn [bind]; rewrite E2; cbn [bind]; rewrite E3; reflexivity|]. split; [exact Rpk|]. split; [exact Rsk|]. split.
  - rewrite (pk_into_bytes_repr P _ _ _ _ Rpk). apply (pk_encode_spec P _ _ HP R4).
  - rewrite (sk_into_bytes_repr P _ _ _ _ _ _ _ HP Rsk). apply (sk_encode_spec P _ _ _ _ _ _ HP R1 R2 R3).
Qed.

Theorem keygen_fuel xi : KeyGen_internal H P xi = None -> key_gen_internal H false P xi = OutOfFuel.
Proof.
  intros E. rewrite KeyGen_internal_parts in E. rewrite keygen_refines.
  destruct (KeyGen_parts xi) as [[[[[[[rho K] tr] s1] s2] t0] t1]|]; [discriminate|reflexivity].
Qed.
End K.
