(* NTT and invNTT (FIPS 204 Algorithms 41/42, transcription) are additive maps of Z_q^256:
   NTT (a + b) == NTT a + NTT b, NTT (a - b) == NTT a - NTT b (congruence mod q, coefficient-wise), and
   invNTT (x + y) = invNTT x + invNTT y, invNTT (x - y) = invNTT x - invNTT y on canonical vectors. *)
Require Import List ZArith Lia Bool. Import ListNotations.
Require Import F204.Spec.SpecConv F204.Spec.SpecNtt.
Require Import F204.Base.Util F204.Base.ListLemmas F204.Gen.Params F204.Proofs.NttRefine F204.Proofs.NttRing.
Open Scope Z_scope.
Arguments Z.mul : simpl never. Arguments Z.add : simpl never. Arguments Z.sub : simpl never.

(* ---------- list plumbing for map2 ---------- *)
Lemma firstn_map2 {A B C} (f : A -> B -> C) n : forall a b, firstn n (map2 f a b) = map2 f (firstn n a) (firstn n b).
Proof. induction n as [|n IH]; intros a b; [reflexivity|]. destruct a as [|x a]; [reflexivity|]. destruct b as [|y b]; [reflexivity|]. cbn. rewrite IH. reflexivity. Qed.
Lemma skipn_map2 {A B C} (f : A -> B -> C) n : forall a b, skipn n (map2 f a b) = map2 f (skipn n a) (skipn n b).
Proof.
  induction n as [|n IH]; intros a b; [reflexivity|]. destruct a as [|x a]; [reflexivity|]. destruct b as [|y b]; [cbn; destruct (skipn n a); reflexivity|]. cbn. apply IH.
Qed.
Lemma map2_app {A B C} (f : A -> B -> C) a b c d : length a = length c -> map2 f (a ++ b) (c ++ d) = map2 f a c ++ map2 f b d.
Proof. revert c. induction a as [|x a IH]; intros [|y c] Hl; cbn in Hl; try discriminate; [reflexivity|]. cbn. rewrite IH by lia. reflexivity. Qed.

Lemma map2_interchange (f g g' h k k' : Z -> Z -> Z) :
  (forall w x y z, congQ (f (g w x) (g' y z)) (h (k w y) (k' x z))) ->
  forall a b c d, Forall2 congQ (map2 f (map2 g a b) (map2 g' c d)) (map2 h (map2 k a c) (map2 k' b d)).
Proof.
  intros Hp. induction a as [|w a IH]; intros b c d; [destruct c; constructor|].
  destruct b as [|x b]; [destruct c; [constructor|]; cbn; destruct d; cbn; constructor|].
  destruct c as [|y c]; [constructor|]. destruct d as [|z d]; [cbn; constructor|]. cbn [map2]. constructor; [apply Hp|apply IH].
Qed.

(* scalar congruences mod q: strip the inner reductions, then ring *)
Ltac cq := cbn beta; unfold congQ; rewrite ?q_eq;
  repeat (rewrite ?Zmod_mod, ?Zplus_mod_idemp_l, ?Zplus_mod_idemp_r, ?Zminus_mod_idemp_l, ?Zminus_mod_idemp_r, ?Zmult_mod_idemp_l, ?Zmult_mod_idemp_r);
  apply (f_equal (fun t => t mod Q)); ring.

Lemma padd_interchange a b c d : Forall2 congQ (padd (padd a b) (padd c d)) (padd (padd a c) (padd b d)).
Proof. unfold padd. apply map2_interchange. intros. cq. Qed.
Lemma psub_padd_interchange a b c d : Forall2 congQ (psub (padd a b) (padd c d)) (padd (psub a c) (psub b d)).
Proof. unfold padd, psub. apply map2_interchange. intros. cq. Qed.
Lemma padd_psub_interchange a b c d : Forall2 congQ (padd (psub a b) (psub c d)) (psub (padd a c) (padd b d)).
Proof. unfold padd, psub. apply map2_interchange. intros. cq. Qed.
Lemma psub_interchange a b c d : Forall2 congQ (psub (psub a b) (psub c d)) (psub (psub a c) (psub b d)).
Proof. unfold psub. apply map2_interchange. intros. cq. Qed.

Lemma pscale_padd z : forall a b, Forall2 congQ (pscale z (padd a b)) (padd (pscale z a) (pscale z b)).
Proof. induction a as [|x a IH]; intros [|y b]; cbn; constructor; [cq|apply IH]. Qed.
Lemma pscale_psub z : forall a b, Forall2 congQ (pscale z (psub a b)) (psub (pscale z a) (pscale z b)).
Proof. induction a as [|x a IH]; intros [|y b]; cbn; constructor; [cq|apply IH]. Qed.

Lemma padd_firstn n a b : firstn n (padd a b) = padd (firstn n a) (firstn n b). Proof. apply firstn_map2. Qed.
Lemma padd_skipn n a b : skipn n (padd a b) = padd (skipn n a) (skipn n b). Proof. apply skipn_map2. Qed.
Lemma psub_firstn n a b : firstn n (psub a b) = psub (firstn n a) (firstn n b). Proof. apply firstn_map2. Qed.
Lemma psub_skipn n a b : skipn n (psub a b) = psub (skipn n a) (skipn n b). Proof. apply skipn_map2. Qed.
Lemma padd_app a b c d : length a = length c -> padd (a ++ b) (c ++ d) = padd a c ++ padd b d. Proof. apply map2_app. Qed.
Lemma psub_app a b c d : length a = length c -> psub (a ++ b) (c ++ d) = psub a c ++ psub b d. Proof. apply map2_app. Qed.

(* ---------- Algorithm 41 is additive ---------- *)
Lemma NTT_rec_lin : forall depth m a b, length a = Nat.pow 2 depth -> length b = Nat.pow 2 depth ->
  Forall2 congQ (NTT_rec depth m (padd a b)) (padd (NTT_rec depth m a) (NTT_rec depth m b))
  /\ Forall2 congQ (NTT_rec depth m (psub a b)) (psub (NTT_rec depth m a) (NTT_rec depth m b)).
Proof.
  induction depth as [|dp IH]; intros m a b Ha Hb; [split; apply Forall2_refl; intros; reflexivity|].
  rewrite pow2_succ in Ha, Hb. cbn [NTT_rec].
  set (n := Nat.pow 2 dp) in *. set (z := zeta m).
  assert (La1 : length (firstn n a) = n) by (rewrite firstn_length; lia).
  assert (La2 : length (skipn n a) = n) by (rewrite skipn_length; lia).
  assert (Lb1 : length (firstn n b) = n) by (rewrite firstn_length; lia).
  assert (Lb2 : length (skipn n b) = n) by (rewrite skipn_length; lia).
  assert (Lx : forall (f : list Z -> list Z -> list Z) x y, (forall u v, length u = length v -> length (f u v) = length u) -> length x = n -> length y = n -> length (f x (pscale z y)) = n).
  { intros f x y Hf Hx Hy. rewrite Hf; [exact Hx|rewrite pscale_length; congruence]. }
  assert (Lp : forall x y, length x = n -> length y = n -> length (NTT_rec dp (2 * m) (padd x (pscale z y))) = n).
  { intros x y Hx Hy. rewrite NTT_rec_length; apply (Lx padd); auto using padd_length. }
  split.
  - rewrite padd_firstn, padd_skipn. rewrite padd_app by (rewrite !Lp; auto).
    apply Forall2_app'.
    + destruct (IH (2 * m) (padd (firstn n a) (pscale z (skipn n a))) (padd (firstn n b) (pscale z (skipn n b)))) as [I1 _];
        [apply (Lx padd); auto using padd_length|apply (Lx padd); auto using padd_length|].
      eapply Forall2_congQ_trans; [|exact I1]. apply NTT_rec_cong.
      eapply Forall2_congQ_trans; [|apply padd_interchange]. apply padd_cong; [apply Forall2_refl; intros; reflexivity|apply pscale_padd].
    + destruct (IH (2 * m + 1) (psub (firstn n a) (pscale z (skipn n a))) (psub (firstn n b) (pscale z (skipn n b)))) as [I1 _];
        [apply (Lx psub); auto using psub_length|apply (Lx psub); auto using psub_length|].
      eapply Forall2_congQ_trans; [|exact I1]. apply NTT_rec_cong.
      eapply Forall2_congQ_trans; [|apply psub_padd_interchange]. apply psub_cong; [apply Forall2_refl; intros; reflexivity|apply pscale_padd].
  - rewrite psub_firstn, psub_skipn. rewrite psub_app by (rewrite !Lp; auto).
    apply Forall2_app'.
    + destruct (IH (2 * m) (padd (firstn n a) (pscale z (skipn n a))) (padd (firstn n b) (pscale z (skipn n b)))) as [_ I2];
        [apply (Lx padd); auto using padd_length|apply (Lx padd); auto using padd_length|].
      eapply Forall2_congQ_trans; [|exact I2]. apply NTT_rec_cong.
      eapply Forall2_congQ_trans; [|apply padd_psub_interchange]. apply padd_cong; [apply Forall2_refl; intros; reflexivity|apply pscale_psub].
    + destruct (IH (2 * m + 1) (psub (firstn n a) (pscale z (skipn n a))) (psub (firstn n b) (pscale z (skipn n b)))) as [_ I2];
        [apply (Lx psub); auto using psub_length|apply (Lx psub); auto using psub_length|].
      eapply Forall2_congQ_trans; [|exact I2]. apply NTT_rec_cong.
      eapply Forall2_congQ_trans; [|apply psub_interchange]. apply psub_cong; [apply Forall2_refl; intros; reflexivity|apply pscale_psub].
Qed.

Lemma NTT_lin a b : length a = 256%nat -> length b = 256%nat ->
  Forall2 congQ (NTT (padd a b)) (padd (NTT a) (NTT b)) /\ Forall2 congQ (NTT (psub a b)) (psub (NTT a) (NTT b)).
Proof.
  intros Ha Hb. unfold NTT.
  destruct (NTT_rec_lin 8 1 (map modq a) (map modq b)) as [I1 I2]; [rewrite map_length; exact Ha|rewrite map_length; exact Hb|].
  split.
  - eapply Forall2_congQ_trans; [|exact I1]. apply NTT_rec_cong.
    eapply Forall2_congQ_trans; [apply Forall2_congQ_sym, congQ_modq_list|]. apply padd_cong; apply congQ_modq_list.
  - eapply Forall2_congQ_trans; [|exact I2]. apply NTT_rec_cong.
    eapply Forall2_congQ_trans; [apply Forall2_congQ_sym, congQ_modq_list|]. apply psub_cong; apply congQ_modq_list.
Qed.

Lemma canonical_id x : Forall (fun v => 0 <= v < Q) x -> map modq x = x.
Proof. intros H. induction H as [|v l Hv H IH]; [reflexivity|]. cbn [map]. rewrite IH. f_equal. unfold modq. rewrite q_eq. apply Z.mod_small. exact Hv. Qed.
Lemma padd_range a b : Forall (fun x => 0 <= x < Q) (padd a b).
Proof. unfold padd. revert b. induction a as [|x a IH]; intros b; [constructor|]. destruct b as [|y b]; [constructor|]. cbn [map2]. constructor; [rewrite q_eq; apply Z.mod_pos_bound; reflexivity|apply IH]. Qed.
Lemma psub_range a b : Forall (fun x => 0 <= x < Q) (psub a b).
Proof. unfold psub. revert b. induction a as [|x a IH]; intros b; [constructor|]. destruct b as [|y b]; [constructor|]. cbn [map2]. constructor; [rewrite q_eq; apply Z.mod_pos_bound; reflexivity|apply IH]. Qed.
Lemma invNTT_canonical x : Forall (fun v => 0 <= v < Q) (invNTT x).
Proof. unfold invNTT, pscale. apply Forall_forall. intros y Hy. apply in_map_iff in Hy as (z & <- & _). rewrite q_eq. apply Z.mod_pos_bound. reflexivity. Qed.

(* ---------- Algorithm 42 is additive on canonical vectors ---------- *)
Theorem invNTT_lin x y : length x = 256%nat -> length y = 256%nat ->
  Forall (fun v => 0 <= v < Q) x -> Forall (fun v => 0 <= v < Q) y ->
  invNTT (padd x y) = padd (invNTT x) (invNTT y) /\ invNTT (psub x y) = psub (invNTT x) (invNTT y).
Proof.
  intros Lx Ly Rx Ry.
  pose proof (invNTT_length x Lx) as La. pose proof (invNTT_length y Ly) as Lb.
  destruct (NTT_lin (invNTT x) (invNTT y) La Lb) as [I1 I2].
  rewrite (NTT_invNTT x Lx Rx), (NTT_invNTT y Ly Ry) in I1, I2.
  split.
  - rewrite <- (invNTT_cong _ _ I1). rewrite invNTT_NTT by (rewrite padd_length; congruence). apply canonical_id, padd_range.
  - rewrite <- (invNTT_cong _ _ I2). rewrite invNTT_NTT by (rewrite psub_length; congruence). apply canonical_id, psub_range.
Qed.
