(* The transform / pointwise-multiply-accumulate / inverse-transform pipeline of the crate
   (ntt -> mat_vec_mul -> inv_ntt) on every input in the call-site ranges: no overflow, no failed
   self-check, and the result EQUALS the FIPS 204 expression invNTT(A_hat o NTT(s)). *)
Require Import F204.Base.Util F204.Base.Mach F204.Base.ListLemmas F204.Gen.Params
  F204.Impl.Helpers F204.Impl.Ntt F204.Spec.SpecConv F204.Spec.SpecNtt F204.Spec.SpecMLDSA
  F204.Proofs.KernelLemmas F204.Proofs.NttRefine F204.Proofs.NttRing.
Open Scope Z_scope.

Definition poly256 (B : Z) (p : list Z) : Prop := bounded B p /\ length p = 256%nat.

Lemma ntt_vec_ok (s : list (list Z)) : Forall (poly256 NTT_IN) s ->
  exists sh, ntt s = Ok sh /\ Forall2 (Forall2 congQ) sh (vNTT s) /\ Forall (poly256 NTT_OUT) sh.
Proof.
  intros Hs. unfold ntt, vNTT. induction Hs as [|p s [Hb Hl] Hs IH].
  - exists []. cbn. repeat split; constructor.
  - destruct (ntt_poly_callsite p Hl Hb) as (p' & E & C & Bd & L). destruct IH as (sh & Es & Cs & Bs).
    exists (p' :: sh). cbn [mapM map]. rewrite E. cbn [bind]. rewrite Es. cbn [bind].
    repeat split; constructor; try assumption. split; assumption.
Qed.

Lemma inv_ntt_vec_ok (w : list (list Z)) : Forall (poly256 (PR32_BOUND - 1)) w -> inv_ntt w = Ok (vinvNTT w).
Proof.
  intros Hw. unfold inv_ntt, vinvNTT. induction Hw as [|p w [Hb Hl] Hw IH]; [reflexivity|].
  cbn [mapM map]. rewrite (inv_ntt_poly_ok p Hl Hb). cbn [bind]. rewrite IH. reflexivity.
Qed.

Lemma vinvNTT_cong a b : Forall2 (Forall2 congQ) a b -> vinvNTT a = vinvNTT b.
Proof. intros H. unfold vinvNTT. induction H as [|x y a b Hxy H IH]; [reflexivity|]. cbn [map]. rewrite IH, (invNTT_cong x y Hxy). reflexivity. Qed.

Definition matrix_ok (l : nat) (A : list (list (list Z))) : Prop :=
  Forall (fun row => Forall in_q row /\ length row = l /\ Forall (fun p => length p = 256%nat) row) A.

Lemma MatrixVectorNTT_cong A u u' : Forall2 (Forall2 congQ) u u' ->
  Forall2 (Forall2 congQ) (MatrixVectorNTT A u) (MatrixVectorNTT A u').
Proof.
  intros Hu. unfold MatrixVectorNTT. induction A as [|row A IH]; cbn [map]; constructor; [|exact IH].
  assert (Hgen : forall acc acc', Forall2 congQ acc acc' ->
            Forall2 congQ (fold_left padd (map2 pmul row u) acc) (fold_left padd (map2 pmul row u') acc')).
  { clear IH. revert u u' Hu. induction row as [|a row IHr]; intros u u' Hu acc acc' Hacc; [exact Hacc|].
    destruct Hu as [|x y u u' Hxy Hu]; [exact Hacc|]. cbn [map2 fold_left]. apply IHr; [exact Hu|].
    apply padd_cong; [exact Hacc|]. unfold pmul. apply map2_Forall2 with (RA := congQ) (RB := congQ); try assumption.
    - intros p p' r r' Hp Hr. rewrite q_eq. eapply congQ_trans; [apply congQ_mod|]. eapply congQ_trans; [|apply congQ_sym, congQ_mod]. apply congQ_mul; assumption.
    - apply Forall2_refl. intros; reflexivity. }
  apply Hgen. apply Forall2_refl. intros; reflexivity.
Qed.

Theorem ntt_pipeline_ok (A : list (list (list Z))) (s : list (list Z)) :
  matrix_ok (length s) A -> Forall (poly256 NTT_IN) s -> (length s <= 7)%nat ->
  (sh <- ntt s ;; p <- mat_vec_mul A sh ;; inv_ntt p) = Ok (vinvNTT (MatrixVectorNTT A (vNTT s))).
Proof.
  intros HA Hs HL.
  destruct (ntt_vec_ok s Hs) as (sh & E1 & C1 & B1). rewrite E1. cbn [bind].
  assert (Hlen : length sh = length s) by (apply Forall2_length in C1; unfold vNTT in C1; rewrite map_length in C1; exact C1).
  destruct (mat_vec_mul_ok A sh) as (w & E2 & B2 & C2 & L2).
  - unfold matrix_ok in HA. rewrite Hlen. exact HA.
  - eapply Forall_impl; [|exact B1]. intros p [Hb Hl]. split; [|exact Hl]. eapply bounded_mono; [|exact Hb]. unfold NTT_OUT. lia.
  - lia.
  - rewrite E2. cbn [bind]. rewrite inv_ntt_vec_ok.
    + f_equal. apply vinvNTT_cong. eapply Forall2_trans; [|exact C2|apply MatrixVectorNTT_cong; exact C1].
      intros a b c Hab Hbc. eapply Forall2_congQ_trans; eassumption.
    + clear - B2 L2. induction B2 as [|p w Hb B2 IH]; inversion L2; subst; constructor; [|apply IH; assumption].
      split; [|assumption]. eapply bounded_mono; [|exact Hb]. unfold MM_OUT, PR32_BOUND. lia.
Qed.
