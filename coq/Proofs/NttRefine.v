(* Refinement of the implementation's NTT layer (ntt.rs, helpers.rs: lazy i32 arithmetic,
   Montgomery products, unreduced accumulation) to the FIPS 204 transforms of Spec/SpecNtt.v,
   together with the interval bounds that prove absence of overflow and of failed self-checks. *)
Require Import F204.Base.Util F204.Base.Mach F204.Base.Bits F204.Base.ListLemmas F204.Gen.Params
  F204.Impl.Helpers F204.Impl.Ntt F204.Spec.SpecConv F204.Spec.SpecNtt F204.Proofs.KernelLemmas.
Open Scope Z_scope.
Ltac Zify.zify_post_hook ::= Z.div_mod_to_equations.

(* ---------- congruence mod q ---------- *)
Definition congQ (x y : Z) : Prop := x mod Q = y mod Q.
Lemma congQ_refl x : congQ x x. Proof. reflexivity. Qed.
Lemma congQ_sym x y : congQ x y -> congQ y x. Proof. unfold congQ; congruence. Qed.
Lemma congQ_trans x y z : congQ x y -> congQ y z -> congQ x z. Proof. unfold congQ; congruence. Qed.
Lemma congQ_add a a' b b' : congQ a a' -> congQ b b' -> congQ (a + b) (a' + b').
Proof. unfold congQ. intros Ha Hb. rewrite Z.add_mod, Ha, Hb, <- Z.add_mod by (unfold Q; lia). reflexivity. Qed.
Lemma congQ_sub a a' b b' : congQ a a' -> congQ b b' -> congQ (a - b) (a' - b').
Proof. unfold congQ. intros Ha Hb. rewrite Zminus_mod, Ha, Hb, <- Zminus_mod. reflexivity. Qed.
Lemma congQ_mul a a' b b' : congQ a a' -> congQ b b' -> congQ (a * b) (a' * b').
Proof. unfold congQ. intros Ha Hb. rewrite Z.mul_mod, Ha, Hb, <- Z.mul_mod by (unfold Q; lia). reflexivity. Qed.
Lemma congQ_mod x : congQ (x mod Q) x.
Proof. unfold congQ. apply Z.mod_mod. unfold Q; lia. Qed.
Lemma congQ_opp a a' : congQ a a' -> congQ (- a) (- a').
Proof. intros. replace (- a) with (0 - a) by lia. replace (- a') with (0 - a') by lia. apply congQ_sub; [reflexivity|assumption]. Qed.

Definition R_INV : Z := 8265825.     (* (2^32)^-1 mod q *)
Lemma r_inv_spec : (4294967296 * R_INV) mod Q = 1. Proof. reflexivity. Qed.
Lemma congQ_cancel_R x y : congQ (x * 4294967296) (y * 4294967296) -> congQ x y.
Proof.
  intros H. apply (congQ_mul _ _ R_INV R_INV) in H; [|reflexivity].
  assert (E : forall z, congQ (z * 4294967296 * R_INV) z).
  { intros z. replace (z * 4294967296 * R_INV) with (z * (4294967296 * R_INV)) by ring.
    replace z with (z * 1) at 2 by ring. apply congQ_mul; [reflexivity|]. unfold congQ. rewrite r_inv_spec. reflexivity. }
  eapply congQ_trans; [apply congQ_sym, E|]. eapply congQ_trans; [exact H|apply E].
Qed.

Definition bounded (B : Z) (l : list Z) : Prop := Forall (fun x => Z.abs x <= B) l.
Lemma bounded_mono B B' l : B <= B' -> bounded B l -> bounded B' l.
Proof. intros Hb H. eapply Forall_impl; [|exact H]. cbn. intros. lia. Qed.

(* ---------- value of a Montgomery reduction ---------- *)
Definition mont_val (a : Z) : Z := match mont_reduce a with Ok r => r | _ => 0 end.
Lemma mont_val_ok a : MONT_LO <= a <= MONT_HI ->
  mont_reduce a = Ok (mont_val a) /\ congQ (mont_val a * 4294967296) a /\ Z.abs (mont_val a) < Q
  /\ Z.abs (mont_val a) * 4294967296 <= Z.abs a + 2147483648 * Q.
Proof.
  intros Ha. destruct (mont_reduce_spec a Ha) as (r & E & Hc & Hr & Hb).
  unfold mont_val. rewrite E. repeat split; try assumption; lia.
Qed.

(* ---------- zeta tables ---------- *)
Lemma zeta_mont_rel_sweep :
  forallb (fun n => zeta_mont (Z.of_nat n) =? (zeta (Z.of_nat n) * 4294967296) mod Q) (seq 0 256) = true.
Proof. vm_compute. reflexivity. Qed.
Lemma zeta_mont_rel_nat : forall n : nat, zeta_mont (Z.of_nat n) = (zeta (Z.of_nat n) * 4294967296) mod Q.
Proof.
  intros n. destruct (Nat.lt_ge_cases n 256) as [Hlt|Hge].
  - apply Z.eqb_eq. apply (proj1 (forallb_forall _ _) zeta_mont_rel_sweep n). apply in_seq. lia.
  - unfold zeta_mont, zeta, znth. rewrite Nat2Z.id. rewrite !nth_overflow; [reflexivity| |].
    + change (length zetas) with 256%nat. exact Hge.
    + change (length ZETA_TABLE_MONT) with 256%nat. exact Hge.
Qed.
Lemma zeta_mont_rel m : 0 <= m -> zeta_mont m = (zeta m * 4294967296) mod Q.
Proof. intros Hm. rewrite <- (Z2Nat.id m Hm). apply zeta_mont_rel_nat. Qed.
Lemma zeta_mont_range m : 0 <= m -> 0 <= zeta_mont m < Q.
Proof. intros Hm. rewrite zeta_mont_rel by exact Hm. apply Z.mod_pos_bound. reflexivity. Qed.

(* ---------- forward butterfly ---------- *)
Definition fwd_val (z h : Z) : Z := mont_val (z * h).
Definition I32MAX : Z := 2147483647.

Lemma fwd_t_ok z h : 0 <= z < Q -> Z.abs h <= I32MAX ->
  fwd_t z h = Ok (fwd_val z h) /\ congQ (fwd_val z h * 4294967296) (z * h)
  /\ Z.abs (fwd_val z h) * 4294967296 <= Q * Z.abs h + 2147483648 * Q.
Proof.
  unfold I32MAX, Q. intros Hz Hh. unfold fwd_t, fwd_val, mul64.
  assert (Hp : Z.abs (z * h) <= 8380416 * 2147483647) by nia.
  rewrite chk64_ok by (unfold i64_min, i64_max; lia). cbn [bind].
  destruct (mont_val_ok (z * h)) as (E & Hc & _ & Hb); [unfold MONT_LO, MONT_HI; lia|].
  repeat split; [exact E|exact Hc|]. unfold Q in Hb. nia.
Qed.

(* growth of one layer: |t| <= G Bmax whenever |h| <= Bmax *)
Definition G (Bmax : Z) : Z := (Q * Bmax + 2147483648 * Q) / 4294967296.

Fixpoint ntt_pure (depth : nat) (m : Z) (w : list Z) : list Z :=
  match depth with
  | O => w
  | S dp =>
      let n := Nat.pow 2 dp in
      let lo := firstn n w in
      let hi := skipn n w in
      let ts := map (fwd_val (zeta_mont m)) hi in
      ntt_pure dp (2 * m) (map2 Z.add lo ts) ++ ntt_pure dp (2 * m + 1) (map2 Z.sub lo ts)
  end.

Lemma pow2_succ dp : Nat.pow 2 (S dp) = (Nat.pow 2 dp + Nat.pow 2 dp)%nat.
Proof. cbn. lia. Qed.

Lemma ntt_rec_ok depth : forall m w ws B Bmax,
  0 <= m -> length w = Nat.pow 2 depth -> bounded B w -> 0 <= B ->
  B + Z.of_nat depth * G Bmax <= Bmax -> 0 <= Bmax <= I32MAX -> Forall2 congQ w ws ->
  ntt_rec depth m w = Ok (ntt_pure depth m w)
  /\ bounded (B + Z.of_nat depth * G Bmax) (ntt_pure depth m w)
  /\ length (ntt_pure depth m w) = length w
  /\ Forall2 congQ (ntt_pure depth m w) (NTT_rec depth m ws).
Proof.
  induction depth as [|dp IH]; intros m w ws B Bmax Hm Hlen Hb HB0 Hfit Hmax Hcong.
  - cbn. repeat split; try assumption. rewrite Z.add_0_r. exact Hb.
  - rewrite pow2_succ in Hlen.
    assert (HG : 0 <= G Bmax) by (unfold G, Q; apply Z.div_pos; lia).
    cbn [ntt_rec ntt_pure NTT_rec].
    set (n := Nat.pow 2 dp) in *.
    set (lo := firstn n w). set (hi := skipn n w).
    assert (Hllo : length lo = n) by (unfold lo; rewrite firstn_length; lia).
    assert (Hlhi : length hi = n) by (unfold hi; rewrite skipn_length; lia).
    assert (Hblo : bounded B lo) by (apply Forall_firstn; exact Hb).
    assert (Hbhi : bounded B hi) by (apply Forall_skipn; exact Hb).
    pose proof (zeta_mont_range m Hm) as Hz.
    assert (HBm : B <= Bmax) by (rewrite Nat2Z.inj_succ in Hfit; nia).
    set (ts := map (fwd_val (zeta_mont m)) hi).
    assert (Hts : mapM (fwd_t (zeta_mont m)) hi = Ok ts).
    { apply mapM_pure with (P := fun h => Z.abs h <= B); [|exact Hbhi].
      intros h Hh. apply fwd_t_ok; [exact Hz|unfold I32MAX in *; lia]. }
    assert (Hbts : bounded (G Bmax) ts).
    { unfold ts. apply map_Forall with (P := fun h => Z.abs h <= B); [|exact Hbhi].
      intros h Hh. destruct (fwd_t_ok (zeta_mont m) h Hz) as (_ & _ & Hbd); [unfold I32MAX in *; lia|].
      unfold G, Q in *. assert (Z.abs h <= Bmax) by lia.
      apply Z.div_le_lower_bound; [lia|]. nia. }
    assert (Hlts : length ts = n) by (unfold ts; rewrite map_length; exact Hlhi).
    rewrite Hts. cbn [bind].
    assert (Hfit2 : B + G Bmax + Z.of_nat dp * G Bmax <= Bmax) by (rewrite Nat2Z.inj_succ in Hfit; nia).
    assert (Hadd : map2M add32 lo ts = Ok (map2 Z.add lo ts)).
    { apply map2M_pure with (P := fun a => Z.abs a <= B) (Q := fun t => Z.abs t <= G Bmax); try assumption.
      intros a t Ha Ht. unfold add32. apply chk32_ok. unfold i32_min, i32_max, I32MAX in *. nia. }
    assert (Hsub : map2M sub32 lo ts = Ok (map2 Z.sub lo ts)).
    { apply map2M_pure with (P := fun a => Z.abs a <= B) (Q := fun t => Z.abs t <= G Bmax); try assumption.
      intros a t Ha Ht. unfold sub32. apply chk32_ok. unfold i32_min, i32_max, I32MAX in *. nia. }
    rewrite Hadd, Hsub. cbn [bind].
    assert (Hbadd : bounded (B + G Bmax) (map2 Z.add lo ts)).
    { apply map2_Forall with (P := fun a => Z.abs a <= B) (Q := fun t => Z.abs t <= G Bmax); try assumption. intros; lia. }
    assert (Hbsub : bounded (B + G Bmax) (map2 Z.sub lo ts)).
    { apply map2_Forall with (P := fun a => Z.abs a <= B) (Q := fun t => Z.abs t <= G Bmax); try assumption. intros; lia. }
    (* congruence of the layer *)
    assert (Hclo : Forall2 congQ lo (firstn n ws)) by (apply Forall2_firstn; exact Hcong).
    assert (Hchi : Forall2 congQ hi (skipn n ws)) by (apply Forall2_skipn; exact Hcong).
    assert (Hcts : Forall2 congQ ts (pscale (zeta m) (skipn n ws))).
    { unfold ts, pscale. apply map_Forall2 with (RA := fun h h' => congQ h h' /\ Z.abs h <= B).
      - intros h h' [Hc Hh]. destruct (fwd_t_ok (zeta_mont m) h Hz) as (_ & Hcg & _); [unfold I32MAX in *; lia|].
        apply congQ_cancel_R. eapply congQ_trans; [exact Hcg|].
        eapply congQ_trans; [|apply congQ_sym; apply congQ_mul; [apply congQ_mod|apply congQ_refl]].
        rewrite zeta_mont_rel by exact Hm.
        replace (zeta m * h' * 4294967296) with ((zeta m * 4294967296) * h') by ring.
        apply congQ_mul; [apply congQ_mod|exact Hc].
      - clear - Hchi Hbhi. induction Hchi; inversion Hbhi; subst; constructor; auto. }
    assert (Hcadd : Forall2 congQ (map2 Z.add lo ts) (padd (firstn n ws) (pscale (zeta m) (skipn n ws)))).
    { unfold padd. apply map2_Forall2 with (RA := congQ) (RB := congQ); try assumption.
      intros a a' b b' Ha Hb'. eapply congQ_trans; [apply congQ_add; eassumption|apply congQ_sym, congQ_mod]. }
    assert (Hcsub : Forall2 congQ (map2 Z.sub lo ts) (psub (firstn n ws) (pscale (zeta m) (skipn n ws)))).
    { unfold psub. apply map2_Forall2 with (RA := congQ) (RB := congQ); try assumption.
      intros a a' b b' Ha Hb'. eapply congQ_trans; [apply congQ_sub; eassumption|apply congQ_sym, congQ_mod]. }
    assert (Hladd : length (map2 Z.add lo ts) = n) by (rewrite map2_length; lia).
    assert (Hlsub : length (map2 Z.sub lo ts) = n) by (rewrite map2_length; lia).
    destruct (IH (2 * m) (map2 Z.add lo ts) (padd (firstn n ws) (pscale (zeta m) (skipn n ws))) (B + G Bmax) Bmax) as (E1 & B1 & L1 & C1); try assumption; try lia.
    destruct (IH (2 * m + 1) (map2 Z.sub lo ts) (psub (firstn n ws) (pscale (zeta m) (skipn n ws))) (B + G Bmax) Bmax) as (E2 & B2 & L2 & C2); try assumption; try lia.
    rewrite E1, E2. cbn [bind].
    repeat split.
    + unfold bounded. apply Forall_app. split.
      * eapply bounded_mono; [|exact B1]. rewrite Nat2Z.inj_succ. nia.
      * eapply bounded_mono; [|exact B2]. rewrite Nat2Z.inj_succ. nia.
    + rewrite app_length, L1, L2, Hladd, Hlsub. lia.
    + apply Forall2_app'; assumption.
Qed.

(* ---------- forward transform of one polynomial ---------- *)
Lemma congQ_modq_list w : Forall2 congQ w (map modq w).
Proof. induction w; cbn; constructor; [apply congQ_sym, congQ_mod|assumption]. Qed.

Theorem ntt_poly_ok w B Bmax :
  length w = 256%nat -> bounded B w -> 0 <= B -> B + 8 * G Bmax <= Bmax -> 0 <= Bmax <= I32MAX ->
  exists w', ntt_poly w = Ok w' /\ Forall2 congQ w' (NTT w) /\ bounded (B + 8 * G Bmax) w' /\ length w' = 256%nat.
Proof.
  intros Hl Hb HB Hfit Hmax.
  destruct (ntt_rec_ok 8 1 w (map modq w) B Bmax) as (E & Bd & L & C); try assumption; try lia.
  - apply congQ_modq_list.
  - exists (ntt_pure 8 1 w). unfold ntt_poly, NTT. repeat split; try assumption. congruence.
Qed.

(* the call-site instances: inputs up to gamma1 = 2^19 (y, z), 2^12 (t0), 1023 (t1), eta, +-1 *)
Definition NTT_IN : Z := 524288.
Definition NTT_OUT : Z := 35000000.       (* < 67_058_539: the NTT output is a valid to_mont input *)
Lemma ntt_bound_instance : NTT_IN + 8 * G NTT_OUT <= NTT_OUT /\ 0 <= NTT_OUT <= I32MAX /\ NTT_OUT < 67058539.
Proof. unfold NTT_IN, NTT_OUT, I32MAX, G, Q. repeat split; lia. Qed.

Corollary ntt_poly_callsite w : length w = 256%nat -> bounded NTT_IN w ->
  exists w', ntt_poly w = Ok w' /\ Forall2 congQ w' (NTT w) /\ bounded NTT_OUT w' /\ length w' = 256%nat.
Proof.
  intros Hl Hb. destruct ntt_bound_instance as (H1 & H2 & _).
  destruct (ntt_poly_ok w NTT_IN NTT_OUT Hl Hb) as (w' & E & C & Bd & L); try assumption; try (unfold NTT_IN; lia).
  exists w'. repeat split; try assumption. eapply bounded_mono; [exact H1|exact Bd].
Qed.

(* ---------- to_mont ---------- *)
Definition to_mont_val (x : Z) : Z := match to_mont_coef x with Ok r => r | _ => 0 end.
Lemma to_mont_coef_ok x : Z.abs x < 67058539 ->
  to_mont_coef x = Ok (to_mont_val x) /\ congQ (to_mont_val x) (x * 4294967296) /\ Z.abs (to_mont_val x) < 2 * Q.
Proof.
  intros Hx. destruct (to_mont_coef_spec x Hx) as (r & E & Hc & Hb).
  unfold to_mont_val. rewrite E. repeat split; assumption.
Qed.
Lemma to_mont_poly_ok p : bounded 67058538 p ->
  to_mont_poly p = Ok (map to_mont_val p) /\ bounded (2 * Q) (map to_mont_val p)
  /\ Forall2 (fun r x => congQ r (x * 4294967296) /\ Z.abs r < 2 * Q) (map to_mont_val p) p.
Proof.
  intros Hb. unfold to_mont_poly. split; [|split].
  - apply mapM_pure with (P := fun x => Z.abs x <= 67058538); [|exact Hb].
    intros a Ha. apply to_mont_coef_ok. lia.
  - apply map_Forall with (P := fun x => Z.abs x <= 67058538); [|exact Hb].
    intros a Ha. destruct (to_mont_coef_ok a) as (_ & _ & Hbd); lia.
  - induction Hb as [|x l Hx Hb IHb]; cbn; constructor; [|assumption]. destruct (to_mont_coef_ok x) as (_ & Hcg & Hbd); [lia|split; assumption].
Qed.

(* ---------- inverse transform ---------- *)
Definition inv_hi_val (nz lo hi : Z) : Z := mont_val (nz * (lo - hi)).
Lemma inv_hi_ok nz lo hi B : - Q < nz <= 0 -> Z.abs lo <= B -> Z.abs hi <= B -> 2 * B <= I32MAX ->
  inv_hi nz lo hi = Ok (inv_hi_val nz lo hi) /\ congQ (inv_hi_val nz lo hi * 4294967296) (nz * (lo - hi))
  /\ Z.abs (inv_hi_val nz lo hi) < Q.
Proof.
  unfold I32MAX, Q. intros Hz Hlo Hhi HB. unfold inv_hi, inv_hi_val, sub32, mul64.
  rewrite chk32_ok by (unfold i32_min, i32_max; lia). cbn [bind].
  assert (Hp : Z.abs (nz * (lo - hi)) <= 8380416 * 2147483647) by nia.
  rewrite chk64_ok by (unfold i64_min, i64_max; lia). cbn [bind].
  destruct (mont_val_ok (nz * (lo - hi))) as (E & Hc & Hr & _); [unfold MONT_LO, MONT_HI; lia|].
  repeat split; assumption.
Qed.

Fixpoint inv_pure (depth : nat) (base m : Z) (w : list Z) : list Z :=
  match depth with
  | O => w
  | S dp =>
      let n := Nat.pow 2 dp in
      let lo := inv_pure dp (2 * base) (2 * m) (firstn n w) in
      let hi := inv_pure dp (2 * base) (2 * m + 1) (skipn n w) in
      let nz := - zeta_mont (3 * base - 1 - m) in
      map2 Z.add lo hi ++ map2 (inv_hi_val nz) lo hi
  end.

Lemma inv_hi_layer_cong nz zidx Bk : forall lo lo' hi hi',
  Forall2 congQ lo lo' -> Forall2 congQ hi hi' ->
  Forall2 (fun a b => Z.abs a <= Bk /\ Z.abs b <= Bk) lo hi ->
  - Q < nz <= 0 -> nz = - zeta_mont zidx -> 0 <= zidx -> 2 * Bk <= I32MAX ->
  Forall2 congQ (map2 (inv_hi_val nz) lo hi) (pscale (- zeta zidx) (psub lo' hi')).
Proof.
  intros lo lo' hi hi' C1. revert hi hi'.
  induction C1 as [|a a' lo lo' Ha C1 IHc]; intros hi hi' C2 Hpair Hnz Enz Hidx HB.
  { cbn [map2]. inversion C2; subst; cbn [psub pscale map2 map]; constructor. }
  destruct hi as [|b hi]; [inversion Hpair|]. inversion C2 as [|? b' ? hi2 Hb C2']; subst hi'.
  inversion Hpair as [|? ? ? ? [Hba Hbb] Hp']; subst. unfold pscale, psub. cbn [map2 map]. constructor.
  - destruct (inv_hi_ok (- zeta_mont zidx) a b Bk) as (_ & Hcg & _); try assumption.
    apply congQ_cancel_R. eapply congQ_trans; [exact Hcg|].
    eapply congQ_trans; [|apply congQ_sym; apply congQ_mul; [apply congQ_mod|apply congQ_refl]].
    rewrite zeta_mont_rel by exact Hidx.
    replace (- zeta zidx * ((a' - b') mod q) * 4294967296)
      with ((- ((zeta zidx * 4294967296))) * ((a' - b') mod q)) by ring.
    apply congQ_mul; [apply congQ_opp, congQ_mod|].
    eapply congQ_trans; [apply congQ_sub; eassumption|apply congQ_sym, congQ_mod].
  - apply (IHc hi hi2); try assumption. reflexivity.
Qed.

Lemma half_le X B M : 0 < X -> 0 <= B -> 2 * X * B <= M -> X * B <= M.
Proof. intros. nia. Qed.
Lemma scale_ge X B q0 : 0 < X -> q0 <= B -> 0 <= q0 -> q0 <= X * B.
Proof. intros. nia. Qed.

(* bound doubles per layer: 2^depth * B0, with Q <= B0 so that the Montgomery outputs (< Q) fit too *)
Lemma inv_rec_ok depth : forall base m w ws B0,
  0 <= 3 * base - 1 - m -> 1 <= base -> base <= m ->
  length w = Nat.pow 2 depth -> bounded B0 w -> Q <= B0 -> 2 ^ Z.of_nat depth * B0 <= I32MAX -> Forall2 congQ w ws ->
  inv_rec depth base m w = Ok (inv_pure depth base m w)
  /\ bounded (2 ^ Z.of_nat depth * B0) (inv_pure depth base m w)
  /\ length (inv_pure depth base m w) = length w
  /\ Forall2 congQ (inv_pure depth base m w) (invNTT_rec depth base m ws).
Proof.
  induction depth as [|dp IH]; intros base m w ws B0 Hidx Hbase Hbm Hlen Hb HQ Hfit Hcong.
  - replace (2 ^ Z.of_nat 0 * B0) with B0 by (change (2 ^ Z.of_nat 0) with 1; lia).
    cbn [inv_rec inv_pure invNTT_rec]. repeat split; assumption.
  - rewrite pow2_succ in Hlen.
    cbn [inv_rec inv_pure invNTT_rec].
    set (n := Nat.pow 2 dp) in *.
    assert (Hpow : 2 ^ Z.of_nat (S dp) = 2 * 2 ^ Z.of_nat dp) by (rewrite Nat2Z.inj_succ, Z.pow_succ_r by lia; reflexivity).
    assert (Hpp : 0 < 2 ^ Z.of_nat dp) by (apply Z.pow_pos_nonneg; lia).
    rewrite Hpow in Hfit.
    assert (Hl1 : length (firstn n w) = n) by (rewrite firstn_length; lia).
    assert (Hl2 : length (skipn n w) = n) by (rewrite skipn_length; lia).
    assert (Hfit' : 2 ^ Z.of_nat dp * B0 <= I32MAX) by (apply half_le; [exact Hpp| unfold Q in HQ; lia | exact Hfit]).
    destruct (IH (2 * base) (2 * m) (firstn n w) (firstn n ws) B0) as (E1 & B1 & L1 & C1); try assumption; try lia.
    { apply Forall_firstn; exact Hb. } { apply Forall2_firstn; exact Hcong. }
    destruct (IH (2 * base) (2 * m + 1) (skipn n w) (skipn n ws) B0) as (E2 & B2 & L2 & C2); try assumption; try lia.
    { apply Forall_skipn; exact Hb. } { apply Forall2_skipn; exact Hcong. }
    rewrite E1, E2. cbn [bind].
    set (lo := inv_pure dp (2 * base) (2 * m) (firstn n w)) in *.
    set (hi := inv_pure dp (2 * base) (2 * m + 1) (skipn n w)) in *.
    set (Bk := 2 ^ Z.of_nat dp * B0) in *.
    assert (HBk : Q <= Bk) by (unfold Bk; apply scale_ge; [exact Hpp|exact HQ|unfold Q; lia]).
    pose proof (zeta_mont_range (3 * base - 1 - m) Hidx) as Hz.
    unfold neg32. rewrite chk32_ok by (unfold i32_min, i32_max, Q in *; lia). cbn [bind].
    set (nz := - zeta_mont (3 * base - 1 - m)).
    assert (Hnz : - Q < nz <= 0) by (unfold nz; lia).
    assert (Hadd : map2M add32 lo hi = Ok (map2 Z.add lo hi)).
    { apply map2M_pure with (P := fun a => Z.abs a <= Bk) (Q := fun t => Z.abs t <= Bk); try assumption.
      intros a t Ha Ht. unfold add32. apply chk32_ok. unfold i32_min, i32_max, I32MAX in *. lia. }
    assert (Hhi : map2M (inv_hi nz) lo hi = Ok (map2 (inv_hi_val nz) lo hi)).
    { apply map2M_pure with (P := fun a => Z.abs a <= Bk) (Q := fun t => Z.abs t <= Bk); try assumption.
      intros a t Ha Ht. apply (inv_hi_ok nz a t Bk); try assumption. lia. }
    rewrite Hadd, Hhi. cbn [bind].
    repeat split.
    + rewrite Hpow. unfold bounded. apply Forall_app. split.
      * apply map2_Forall with (P := fun a => Z.abs a <= Bk) (Q := fun t => Z.abs t <= Bk); try assumption. intros. fold Bk. lia.
      * apply map2_Forall with (P := fun a => Z.abs a <= Bk) (Q := fun t => Z.abs t <= Bk); try assumption.
        intros a t Ha Ht. destruct (inv_hi_ok nz a t Bk) as (_ & _ & Hr); try assumption; [lia|]. fold Bk. lia.
    + rewrite app_length, !map2_length, L1, L2, Hl1, Hl2. lia.
    + apply Forall2_app'.
      * unfold padd. apply map2_Forall2 with (RA := congQ) (RB := congQ); try assumption.
        intros a a' b b' Ha Hb'. eapply congQ_trans; [apply congQ_add; eassumption|apply congQ_sym, congQ_mod].
      * apply inv_hi_layer_cong with (Bk := Bk); try assumption; try reflexivity; try lia.
        apply Forall_Forall2_pair; try assumption. congruence.
Qed.

Arguments zeta : simpl never.
Arguments zeta_mont : simpl never.

(* ---------- inverse transform of one polynomial: exact equality with FIPS 204 invNTT ---------- *)
Definition pr32_val (a : Z) : Z := match partial_reduce32 a with Ok r => r | _ => 0 end.
Lemma pr32_ok a : Z.abs a < PR32_BOUND ->
  partial_reduce32 a = Ok (pr32_val a) /\ congQ (pr32_val a) a /\ Z.abs (pr32_val a) <= PR32_OUT.
Proof.
  intros Ha. destruct (partial_reduce32_spec a Ha) as (r & E & Hc & Hb).
  unfold pr32_val. rewrite E. repeat split; assumption.
Qed.

Definition inv_final_val (x : Z) : Z := (mont_val (F_MONT * x)) mod Q.
Lemma inv_final_ok x : Z.abs x <= I32MAX ->
  inv_final x = Ok (inv_final_val x) /\ congQ (inv_final_val x) (f_inv256 * x) /\ 0 <= inv_final_val x < Q.
Proof.
  unfold I32MAX. intros Hx. unfold inv_final, inv_final_val, mul64.
  assert (Hf : F_MONT = 16382) by reflexivity. rewrite Hf.
  rewrite chk64_ok by (unfold i64_min, i64_max; lia). cbn [bind].
  destruct (mont_val_ok (16382 * x)) as (E & Hc & Hr & _); [unfold MONT_LO, MONT_HI; lia|].
  rewrite E. cbn [bind]. rewrite full_reduce32_spec by (unfold PR32_BOUND, Q in *; lia).
  split; [reflexivity|]. split; [|apply Z.mod_pos_bound; reflexivity].
  eapply congQ_trans; [apply congQ_mod|]. apply congQ_cancel_R. eapply congQ_trans; [exact Hc|].
  replace (f_inv256 * x * 4294967296) with ((f_inv256 * 4294967296) * x) by ring.
  apply congQ_mul; [|reflexivity]. unfold congQ. reflexivity.
Qed.

Lemma cong_in_range_eq x y : congQ x y -> 0 <= x < Q -> 0 <= y < Q -> x = y.
Proof. unfold congQ. intros H Hx Hy. rewrite !Z.mod_small in H by assumption. exact H. Qed.

Lemma Forall2_cong_eq l1 l2 : Forall2 congQ l1 l2 -> Forall (fun x => 0 <= x < Q) l1 -> Forall (fun x => 0 <= x < Q) l2 -> l1 = l2.
Proof.
  induction 1 as [|a b l1 l2 Hab H IH]; intros H1 H2; [reflexivity|].
  inversion H1; inversion H2; subst. f_equal; [apply cong_in_range_eq; assumption|apply IH; assumption].
Qed.

Theorem inv_ntt_poly_ok w : length w = 256%nat -> bounded (PR32_BOUND - 1) w ->
  inv_ntt_poly w = Ok (invNTT w).
Proof.
  intros Hl Hb. unfold inv_ntt_poly.
  assert (H0 : mapM partial_reduce32 w = Ok (map pr32_val w)).
  { apply mapM_pure with (P := fun a => Z.abs a <= PR32_BOUND - 1); [|exact Hb]. intros a Ha. apply pr32_ok. lia. }
  rewrite H0. cbn [bind].
  assert (Hb0 : bounded Q (map pr32_val w)).
  { apply map_Forall with (P := fun a => Z.abs a <= PR32_BOUND - 1); [|exact Hb].
    intros a Ha. destruct (pr32_ok a) as (_ & _ & Hr); [lia|]. unfold PR32_OUT, Q in *. lia. }
  assert (Hc0 : Forall2 congQ (map pr32_val w) (map modq w)).
  { clear - Hb. induction Hb as [|a l Ha Hb IH]; cbn [map]; constructor; [|exact IH].
    destruct (pr32_ok a) as (_ & Hc & _); [lia|]. eapply congQ_trans; [exact Hc|apply congQ_sym, congQ_mod]. }
  destruct (inv_rec_ok 8 1 1 (map pr32_val w) (map modq w) Q) as (E & Bd & L & C); try assumption; try lia.
  { rewrite map_length. exact Hl. } { unfold Q, I32MAX. change (2 ^ Z.of_nat 8) with 256. lia. }
  rewrite E. cbn [bind].
  assert (Hfin : mapM inv_final (inv_pure 8 1 1 (map pr32_val w)) = Ok (map inv_final_val (inv_pure 8 1 1 (map pr32_val w)))).
  { apply mapM_pure with (P := fun a => Z.abs a <= 2 ^ Z.of_nat 8 * Q); [|exact Bd].
    intros a Ha. apply inv_final_ok. change (2 ^ Z.of_nat 8) with 256 in Ha. unfold Q, I32MAX in *. lia. }
  rewrite Hfin. f_equal. unfold invNTT, pscale.
  apply Forall2_cong_eq.
  - apply map_Forall2 with (RA := fun a b => congQ a b /\ Z.abs a <= 2 ^ Z.of_nat 8 * Q).
    + intros a a' [Hc Ha]. destruct (inv_final_ok a) as (_ & Hcg & _).
      { change (2 ^ Z.of_nat 8) with 256 in Ha. unfold Q, I32MAX in *. lia. }
      eapply congQ_trans; [exact Hcg|]. eapply congQ_trans; [|apply congQ_sym, congQ_mod].
      apply congQ_mul; [reflexivity|exact Hc].
    + clear - C Bd. induction C; inversion Bd; subst; constructor; auto.
  - apply map_Forall with (P := fun a => Z.abs a <= 2 ^ Z.of_nat 8 * Q); [|exact Bd].
    intros a Ha. destruct (inv_final_ok a) as (_ & _ & Hr); [|exact Hr].
    change (2 ^ Z.of_nat 8) with 256 in Ha. unfold Q, I32MAX in *. lia.
  - apply Forall_forall. intros x Hx. apply in_map_iff in Hx as (y & <- & _). apply Z.mod_pos_bound. reflexivity.
Qed.

(* ---------- mat_vec_mul: one row ---------- *)
Definition mm_val (a u : Z) : Z := mont_val (a * u).
Definition MM_OUT : Z := 4222912.     (* |mont(a * u_mont)| <= q/2 + 2q^2/2^32 + 1 for 0 <= a < q, |u_mont| < 2q *)
Lemma mul_mont_ok a u : 0 <= a < Q -> Z.abs u < 2 * Q ->
  mul_mont_coef a u = Ok (mm_val a u) /\ congQ (mm_val a u * 4294967296) (a * u) /\ Z.abs (mm_val a u) <= MM_OUT.
Proof.
  unfold Q. intros Ha Hu. unfold mul_mont_coef, mm_val, mul64.
  assert (Hp : Z.abs (a * u) <= 8380416 * 16760833) by nia.
  rewrite chk64_ok by (unfold i64_min, i64_max; lia). cbn [bind].
  destruct (mont_val_ok (a * u)) as (E & Hc & _ & Hb); [unfold MONT_LO, MONT_HI; lia|].
  repeat split; [exact E|exact Hc|]. unfold Q, MM_OUT in *. lia.
Qed.

(* ---------- mat_vec_mul: one row = sum over columns of Montgomery products, accumulated unreduced ---------- *)
Definition in_q (p : list Z) : Prop := Forall (fun x => 0 <= x < Q) p.
Definition mont_of (um us : list Z) : Prop := Forall2 (fun r x => congQ r (x * 4294967296) /\ Z.abs r < 2 * Q) um us.

Lemma acc_step_cong : forall acc accs a um us,
  Forall2 congQ acc accs -> in_q a -> mont_of um us ->
  Forall2 congQ (map3 (fun c x u => c + mm_val x u) acc a um) (padd accs (pmul a us)).
Proof.
  intros acc accs a um us Hacc. revert a um us.
  induction Hacc as [|c c' acc accs Hc Hacc IH]; intros a um us Ha Hm; [cbn; constructor|].
  destruct a as [|x a]; [cbn; constructor|]. destruct Hm as [|r u um us [Hr Hb] Hm]; [cbn; constructor|].
  inversion Ha as [|? ? Hx Ha']; subst. unfold padd, pmul. cbn [map3 map2]. constructor.
  - destruct (mul_mont_ok x r Hx Hb) as (_ & Hcg & _).
    eapply congQ_trans; [|apply congQ_sym, congQ_mod]. apply congQ_add; [exact Hc|].
    eapply congQ_trans; [|apply congQ_sym, congQ_mod].
    apply congQ_cancel_R. eapply congQ_trans; [exact Hcg|].
    replace (x * u * 4294967296) with (x * (u * 4294967296)) by ring.
    apply congQ_mul; [reflexivity|exact Hr].
  - apply IH; assumption.
Qed.

Lemma row_acc_ok : forall row um us acc accs B,
  Forall in_q row -> Forall2 mont_of um us -> length row = length um ->
  bounded B acc -> 0 <= B -> B + Z.of_nat (length row) * MM_OUT <= I32MAX -> Forall2 congQ acc accs ->
  Forall (fun p => length p = length acc) row -> Forall (fun p => length p = length acc) um ->
  exists acc', row_acc acc row um = Ok acc' /\ bounded (B + Z.of_nat (length row) * MM_OUT) acc'
               /\ Forall2 congQ acc' (fold_left padd (map2 pmul row us) accs) /\ length acc' = length acc.
Proof.
  induction row as [|a row IH]; intros um us acc accs B Hrow Hum Hlen Hb HB Hfit Hacc Hlr Hlu.
  - cbn. exists acc. rewrite Z.add_0_r. repeat split; assumption.
  - destruct Hum as [|uj usj um us Hmj Hum]; [cbn in Hlen; discriminate|].
    inversion Hrow as [|? ? Ha Hrow']; subst. inversion Hlr as [|? ? Hla Hlr']; subst. inversion Hlu as [|? ? Hlu1 Hlu']; subst.
    cbn [row_acc map2 fold_left length] in *.
    assert (Hb2 : Forall (fun u => Z.abs u < 2 * Q) uj).
    { clear - Hmj. induction Hmj as [|? ? ? ? [_ H]]; constructor; auto. }
    assert (Hstep : map3M acc_coef acc a uj = Ok (map3 (fun c x u => c + mm_val x u) acc a uj)).
    { apply map3M_pure with (P := fun c => Z.abs c <= B) (Q := fun x => 0 <= x < Q) (R := fun u => Z.abs u < 2 * Q); try assumption.
      intros c x u Hc Hx Hu. unfold acc_coef. destruct (mul_mont_ok x u Hx Hu) as (E & _ & Hm). rewrite E. cbn [bind].
      unfold add32. apply chk32_ok. unfold i32_min, i32_max, I32MAX, MM_OUT in *. rewrite Nat2Z.inj_succ in Hfit. lia. }
    rewrite Hstep. cbn [bind].
    set (acc1 := map3 (fun c x u => c + mm_val x u) acc a uj).
    assert (Hb1 : bounded (B + MM_OUT) acc1).
    { unfold acc1. apply map3_Forall with (P := fun c => Z.abs c <= B) (Q := fun x => 0 <= x < Q) (R := fun u => Z.abs u < 2 * Q); try assumption.
      intros c x u Hc Hx Hu. destruct (mul_mont_ok x u Hx Hu) as (_ & _ & Hm). lia. }
    assert (Hl1 : length acc1 = length acc) by (unfold acc1; apply map3_length; congruence).
    destruct (IH um us acc1 (padd accs (pmul a usj)) (B + MM_OUT)) as (acc' & E & Bd & C & L); try assumption.
    + cbn in Hlen. lia.
    + unfold MM_OUT; lia.
    + rewrite Nat2Z.inj_succ in Hfit. lia.
    + apply acc_step_cong; assumption.
    + rewrite Hl1. exact Hlr'.
    + rewrite Hl1. exact Hlu'.
    + exists acc'. rewrite E. repeat split.
      * eapply bounded_mono; [|exact Bd]. rewrite Nat2Z.inj_succ. lia.
      * exact C.
      * congruence.
Qed.

Lemma zeros_cong n : Forall2 congQ (zeros n) (zeros n).
Proof. apply Forall2_refl. intros; reflexivity. Qed.

(* whole product: K rows, L columns, NTT-domain vector u with entries below the to_mont bound *)
Theorem mat_vec_mul_ok (A : list (list (list Z))) (u : list (list Z)) :
  Forall (fun row => Forall in_q row /\ length row = length u /\ Forall (fun p => length p = 256%nat) row) A ->
  Forall (fun p => bounded 67058538 p /\ length p = 256%nat) u -> (length u <= 7)%nat ->
  exists w, mat_vec_mul A u = Ok w /\ Forall (bounded (7 * MM_OUT)) w
            /\ Forall2 (Forall2 congQ) w (MatrixVectorNTT A u) /\ Forall (fun p => length p = 256%nat) w.
Proof.
  intros HA Hu HL. unfold mat_vec_mul.
  assert (Htm : to_mont u = Ok (map (map to_mont_val) u)).
  { unfold to_mont. apply mapM_pure with (P := fun p => bounded 67058538 p /\ length p = 256%nat); [|exact Hu].
    intros p [Hp _]. apply to_mont_poly_ok. exact Hp. }
  rewrite Htm. cbn [bind].
  set (um := map (map to_mont_val) u).
  assert (Hmont : Forall2 mont_of um u).
  { unfold um. clear - Hu. induction Hu as [|p u [Hp _] Hu IH]; cbn; constructor; [|exact IH].
    destruct (to_mont_poly_ok p Hp) as (_ & _ & Hc). exact Hc. }
  assert (Hlum : Forall (fun p => length p = 256%nat) um).
  { unfold um. clear - Hu. induction Hu as [|p u [_ Hl] Hu IH]; cbn; constructor; [rewrite map_length; exact Hl|exact IH]. }
  assert (Hlen_um : length um = length u) by (unfold um; apply map_length).
  unfold MatrixVectorNTT.
  induction HA as [|row A [Hrow [Hlr Hl256]] HA IH].
  - cbn. exists []. repeat split; constructor.
  - cbn [mapM map].
    assert (P1 : length row = length um) by congruence.
    assert (P2 : bounded 0 (zeros 256)).
    { unfold zeros. apply Forall_forall. intros x Hx. apply repeat_spec in Hx. subst. cbn. lia. }
    assert (P3 : 0 + Z.of_nat (length row) * MM_OUT <= I32MAX) by (unfold I32MAX, MM_OUT; rewrite Hlr; lia).
    assert (P4 : Forall (fun p => length p = length (zeros 256)) row) by (unfold zeros; rewrite repeat_length; exact Hl256).
    assert (P5 : Forall (fun p => length p = length (zeros 256)) um) by (unfold zeros; rewrite repeat_length; exact Hlum).
    destruct (row_acc_ok row um u (zeros 256) (zeros 256) 0 Hrow Hmont P1 P2 (Z.le_refl 0) P3 (zeros_cong 256) P4 P5) as (acc' & E & Bd & C & L).
    rewrite E. cbn [bind]. destruct IH as (w & Ew & Bw & Cw & Lw). rewrite Ew. cbn [bind].
    exists (acc' :: w). repeat split.
    + constructor; [|exact Bw]. eapply bounded_mono; [|exact Bd]. unfold MM_OUT. rewrite Hlr. lia.
    + constructor; [exact C|exact Cw].
    + constructor; [|exact Lw]. rewrite L. unfold zeros. apply repeat_length.
Qed.
