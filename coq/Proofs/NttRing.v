(* The FIPS 204 transforms compute the product of Z_q[X]/(X^256+1)  (C18, specification level):
     invNTT (MultiplyNTT (NTT a) (NTT b)) = negacyclic a b.
   Proof without a polynomial library: NTT a is the list of evaluations of a at 256 numbers r with
   r^256 = -1 (mod q) (butterfly recursion = CRT splitting, using two relations between table
   entries that are checked by computation); evaluation at such r is multiplicative on the
   schoolbook negacyclic product; invNTT inverts NTT (one more table relation). *)
Require Import F204.Base.Util F204.Base.ListLemmas F204.Gen.Params F204.Spec.SpecConv F204.Spec.SpecNtt
  F204.Proofs.NttRefine.
Open Scope Z_scope.
Arguments zeta : simpl never.
Arguments Z.mul : simpl never.
Arguments Z.add : simpl never.
Arguments Z.pow : simpl never.

(* ---------- Horner evaluation mod q ---------- *)
Fixpoint eval (w : list Z) (r : Z) : Z :=
  match w with [] => 0 | a :: t => (a + r * eval t r) mod q end.

Lemma q_eq : q = Q. Proof. reflexivity. Qed.
Lemma eval_range w r : 0 <= eval w r < Q \/ w = [].
Proof. destruct w; [right; reflexivity|left]. cbn. apply Z.mod_pos_bound. reflexivity. Qed.

Lemma eval_cong w w' r r' : Forall2 congQ w w' -> congQ r r' -> congQ (eval w r) (eval w' r').
Proof.
  intros H Hr. induction H as [|a a' w w' Ha H IH]; [reflexivity|].
  cbn. rewrite q_eq. eapply congQ_trans; [apply congQ_mod|]. eapply congQ_trans; [|apply congQ_sym, congQ_mod].
  apply congQ_add; [exact Ha|]. apply congQ_mul; assumption.
Qed.

Lemma eval_app lo hi r : congQ (eval (lo ++ hi) r) (eval lo r + r ^ Z.of_nat (length lo) * eval hi r).
Proof.
  induction lo as [|a lo IH].
  - cbn [app length eval]. change (r ^ Z.of_nat 0) with 1. rewrite Z.add_0_l, Z.mul_1_l. reflexivity.
  - cbn [app length eval]. rewrite q_eq. eapply congQ_trans; [apply congQ_mod|].
    rewrite Nat2Z.inj_succ, Z.pow_succ_r by lia.
    eapply congQ_trans; [apply congQ_add; [reflexivity|apply congQ_mul; [reflexivity|exact IH]]|].
    eapply congQ_trans; [|apply congQ_add; [apply congQ_sym, congQ_mod|reflexivity]].
    replace (a + r * (eval lo r + r ^ Z.of_nat (length lo) * eval hi r))
      with (a + r * eval lo r + r * r ^ Z.of_nat (length lo) * eval hi r) by ring.
    reflexivity.
Qed.

Lemma eval_padd a b r : length a = length b -> congQ (eval (padd a b) r) (eval a r + eval b r).
Proof.
  revert b. induction a as [|x a IH]; intros [|y b] Hl; cbn in Hl; try discriminate; [reflexivity|].
  unfold padd in *. cbn [map2 eval]. rewrite q_eq.
  eapply congQ_trans; [apply congQ_mod|].
  eapply congQ_trans; [apply congQ_add; [apply congQ_mod|apply congQ_mul; [reflexivity|apply IH; lia]]|].
  eapply congQ_trans; [|apply congQ_add; apply congQ_sym, congQ_mod].
  replace (x + y + r * (eval a r + eval b r)) with (x + r * eval a r + (y + r * eval b r)) by ring. reflexivity.
Qed.
Lemma eval_psub a b r : length a = length b -> congQ (eval (psub a b) r) (eval a r - eval b r).
Proof.
  revert b. induction a as [|x a IH]; intros [|y b] Hl; cbn in Hl; try discriminate; [reflexivity|].
  unfold psub in *. cbn [map2 eval]. rewrite q_eq.
  eapply congQ_trans; [apply congQ_mod|].
  eapply congQ_trans; [apply congQ_add; [apply congQ_mod|apply congQ_mul; [reflexivity|apply IH; lia]]|].
  eapply congQ_trans; [|apply congQ_sub; apply congQ_sym, congQ_mod].
  replace (x - y + r * (eval a r - eval b r)) with (x + r * eval a r - (y + r * eval b r)) by ring. reflexivity.
Qed.
Lemma eval_pscale c a r : congQ (eval (pscale c a) r) (c * eval a r).
Proof.
  induction a as [|x a IH]; [cbn; rewrite Z.mul_0_r; reflexivity|].
  unfold pscale in *. cbn [map eval]. rewrite q_eq.
  eapply congQ_trans; [apply congQ_mod|].
  eapply congQ_trans; [apply congQ_add; [apply congQ_mod|apply congQ_mul; [reflexivity|exact IH]]|].
  eapply congQ_trans; [|apply congQ_mul; [reflexivity|apply congQ_sym, congQ_mod]].
  replace (c * x + r * (c * eval a r)) with (c * (x + r * eval a r)) by ring. reflexivity.
Qed.

(* ---------- the evaluation points ---------- *)
Fixpoint roots (depth : nat) (m : Z) : list Z :=
  match depth with
  | O => []
  | S O => [zeta m; (- zeta m) mod q]
  | S dp => roots dp (2 * m) ++ roots dp (2 * m + 1)
  end.

(* relations between table entries, by computation over the 127 inner nodes *)
Definition zeta_rel_ok (m : Z) : bool :=
  ((zeta (2 * m) * zeta (2 * m)) mod q =? zeta m) && ((zeta (2 * m + 1) * zeta (2 * m + 1)) mod q =? (- zeta m) mod q).
Lemma zeta_rel_sweep : forallb zeta_rel_ok (map Z.of_nat (seq 1 127)) = true.
Proof. vm_compute. reflexivity. Qed.
Lemma zeta_rel m : 1 <= m <= 127 ->
  congQ (zeta (2 * m) * zeta (2 * m)) (zeta m) /\ congQ (zeta (2 * m + 1) * zeta (2 * m + 1)) (- zeta m).
Proof.
  intros Hm. assert (Hin : In m (map Z.of_nat (seq 1 127))).
  { apply in_map_iff. exists (Z.to_nat m). split; [lia|apply in_seq; lia]. }
  pose proof (proj1 (forallb_forall _ _) zeta_rel_sweep m Hin) as H. unfold zeta_rel_ok in H.
  apply andb_prop in H as [H1 H2]. apply Z.eqb_eq in H1, H2. rewrite q_eq in *. unfold congQ. split.
  - rewrite H1. destruct (Z.eq_dec (zeta m) (zeta m mod Q)) as [E|E]; [exact E|].
    (* zeta m is already reduced: it is a table entry *) rewrite <- H1. symmetry. apply Z.mod_mod. unfold Q; lia.
  - exact H2.
Qed.

Lemma map_cong_pointwise {A} (f g : A -> Z) l : (forall x, In x l -> congQ (f x) (g x)) -> Forall2 congQ (map f l) (map g l).
Proof.
  induction l as [|x l IH]; intros H; cbn; constructor; [apply H; left; reflexivity|apply IH; intros; apply H; right; assumption].
Qed.
Lemma Forall2_congQ_trans a b c : Forall2 congQ a b -> Forall2 congQ b c -> Forall2 congQ a c.
Proof. apply Forall2_trans. intros; eapply congQ_trans; eassumption. Qed.
Lemma Forall2_congQ_sym a b : Forall2 congQ a b -> Forall2 congQ b a.
Proof. induction 1; constructor; [apply congQ_sym; assumption|assumption]. Qed.
Lemma padd_length a b : length a = length b -> length (padd a b) = length a.
Proof. intros. unfold padd. rewrite map2_length. lia. Qed.
Lemma psub_length a b : length a = length b -> length (psub a b) = length a.
Proof. intros. unfold psub. rewrite map2_length. lia. Qed.
Lemma pscale_length c a : length (pscale c a) = length a.
Proof. unfold pscale. apply map_length. Qed.
Lemma pow_double r k : 0 <= k -> r ^ (k + k) = r ^ k * r ^ k.
Proof. intros. apply Z.pow_add_r; assumption. Qed.
Lemma congQ_neg_mod x : congQ ((- x) mod q) (- x).
Proof. rewrite q_eq. apply congQ_mod. Qed.

(* NTT_rec computes the evaluations of its input at the points [roots depth m], each of which
   satisfies r^(2^depth) = zeta(m)^2 *)
Lemma NTT_rec_eval : forall depth m w,
  (1 <= depth)%nat -> length w = Nat.pow 2 depth -> 1 <= m < 2 ^ (9 - Z.of_nat depth) -> (depth <= 8)%nat ->
  Forall2 congQ (NTT_rec depth m w) (map (eval w) (roots depth m))
  /\ Forall (fun r => congQ (r ^ Z.of_nat (Nat.pow 2 depth)) (zeta m * zeta m)) (roots depth m).
Proof.
  induction depth as [|dp IH]; intros m w Hd Hl Hm H8; [lia|].
  destruct dp as [|d].
  - (* one butterfly *)
    destruct w as [|a0 [|a1 [|? ?]]]; cbn in Hl; try lia. clear IH.
    cbn [NTT_rec roots map firstn skipn Nat.pow Nat.mul Nat.add]. unfold padd, psub, pscale. cbn [map map2 app eval].
    rewrite !q_eq, !Z.mul_0_r, !Z.add_0_r. split.
    + constructor; [|constructor; [|constructor]].
      * eapply congQ_trans; [apply congQ_mod|]. eapply congQ_trans; [|apply congQ_sym, congQ_mod].
        apply congQ_add; [reflexivity|]. eapply congQ_trans; [apply congQ_mod|].
        apply congQ_mul; [reflexivity|apply congQ_sym, congQ_mod].
      * eapply congQ_trans; [apply congQ_mod|]. eapply congQ_trans; [|apply congQ_sym, congQ_mod].
        replace (a0 - zeta m * a1 mod Q) with (a0 + - (zeta m * a1 mod Q)) by ring.
        apply congQ_add; [reflexivity|].
        eapply congQ_trans; [apply congQ_opp, congQ_mod|].
        replace (- (zeta m * a1)) with ((- zeta m) * a1) by ring.
        apply congQ_mul; [apply congQ_sym, congQ_mod|apply congQ_sym, congQ_mod].
    + constructor; [|constructor; [|constructor]]; change (Z.of_nat 2) with 2.
      * replace (zeta m ^ 2) with (zeta m * zeta m) by ring. reflexivity.
      * replace (((- zeta m) mod Q) ^ 2) with (((- zeta m) mod Q) * ((- zeta m) mod Q)) by ring.
        eapply congQ_trans; [apply congQ_mul; apply congQ_mod|]. replace (- zeta m * - zeta m) with (zeta m * zeta m) by ring. reflexivity.
  - (* inner node *)
    set (dp := S d) in *.
    assert (Hpow9 : 2 ^ (9 - Z.of_nat dp) = 2 * 2 ^ (9 - Z.of_nat (S dp))).
    { replace (9 - Z.of_nat dp) with (Z.succ (9 - Z.of_nat (S dp))) by lia. apply Z.pow_succ_r. lia. }
    assert (Hm127 : 1 <= m <= 127).
    { assert (2 ^ (9 - Z.of_nat (S dp)) <= 2 ^ 7) by (apply Z.pow_le_mono_r; unfold dp; lia). change (2 ^ 7) with 128 in *. lia. }
    destruct (zeta_rel m Hm127) as [Hz1 Hz2].
    rewrite pow2_succ in Hl.
    change (NTT_rec (S dp) m w) with
      (let n := Nat.pow 2 dp in let lo := firstn n w in let hi := skipn n w in let t := pscale (zeta m) hi in
       NTT_rec dp (2 * m) (padd lo t) ++ NTT_rec dp (2 * m + 1) (psub lo t)).
    change (roots (S dp) m) with (roots dp (2 * m) ++ roots dp (2 * m + 1)).
    cbv zeta. set (n := Nat.pow 2 dp) in *.
    set (lo := firstn n w). set (hi := skipn n w). set (t := pscale (zeta m) hi).
    assert (Hllo : length lo = n) by (unfold lo; rewrite firstn_length; lia).
    assert (Hlhi : length hi = n) by (unfold hi; rewrite skipn_length; lia).
    assert (Hlt : length t = n) by (unfold t; rewrite pscale_length; exact Hlhi).
    assert (Hw : w = lo ++ hi) by (unfold lo, hi; symmetry; apply firstn_skipn).
    destruct (IH (2 * m) (padd lo t)) as [E1 R1]; [unfold dp; lia|rewrite padd_length; lia|lia|lia|].
    destruct (IH (2 * m + 1) (psub lo t)) as [E2 R2]; [unfold dp; lia|rewrite psub_length; lia|lia|lia|].
    assert (Hn : Z.of_nat n = Z.of_nat (length lo)) by congruence.
    split.
    + rewrite map_app. apply Forall2_app'.
      * eapply Forall2_congQ_trans; [exact E1|]. apply map_cong_pointwise. intros r Hr.
        rewrite Forall_forall in R1. specialize (R1 r Hr).
        eapply congQ_trans; [apply eval_padd; lia|]. rewrite Hw at 1.
        eapply congQ_trans; [|apply congQ_sym, eval_app].
        apply congQ_add; [reflexivity|]. eapply congQ_trans; [apply eval_pscale|].
        apply congQ_mul; [|reflexivity]. rewrite <- Hn. apply congQ_sym. eapply congQ_trans; [exact R1|exact Hz1].
      * eapply Forall2_congQ_trans; [exact E2|]. apply map_cong_pointwise. intros r Hr.
        rewrite Forall_forall in R2. specialize (R2 r Hr).
        eapply congQ_trans; [apply eval_psub; lia|]. rewrite Hw at 1.
        eapply congQ_trans; [|apply congQ_sym, eval_app].
        replace (eval lo r - eval t r) with (eval lo r + - eval t r) by ring.
        apply congQ_add; [reflexivity|]. eapply congQ_trans; [apply congQ_opp, eval_pscale|].
        replace (- (zeta m * eval hi r)) with ((- zeta m) * eval hi r) by ring.
        apply congQ_mul; [|reflexivity]. rewrite <- Hn. apply congQ_sym. eapply congQ_trans; [exact R2|exact Hz2].
    + apply Forall_app. rewrite pow2_succ. rewrite Nat2Z.inj_add. fold n. split.
      * eapply Forall_impl; [|exact R1]. cbn beta. intros r Hr. rewrite pow_double by lia.
        eapply congQ_trans; [apply congQ_mul; exact Hr|]. eapply congQ_trans; [apply congQ_mul; exact Hz1|]. reflexivity.
      * eapply Forall_impl; [|exact R2]. cbn beta. intros r Hr. rewrite pow_double by lia.
        eapply congQ_trans; [apply congQ_mul; exact Hr|]. eapply congQ_trans; [apply congQ_mul; exact Hz2|].
        replace (- zeta m * - zeta m) with (zeta m * zeta m) by ring. reflexivity.
Qed.

(* ---------- the 256 evaluation points of the full transform ---------- *)
Definition ROOTS : list Z := roots 8 1.
Lemma zeta1_sq : congQ (zeta 1 * zeta 1) (-1).
Proof. unfold congQ. vm_compute. reflexivity. Qed.

Lemma NTT_eval w : length w = 256%nat ->
  Forall2 congQ (NTT w) (map (eval w) ROOTS) /\ Forall (fun r => congQ (r ^ 256) (-1)) ROOTS.
Proof.
  intros Hl. unfold NTT, ROOTS.
  destruct (NTT_rec_eval 8 1 (map modq w)) as [E R]; [lia|rewrite map_length; exact Hl|change (2 ^ (9 - Z.of_nat 8)) with 2; lia|lia|].
  split.
  - eapply Forall2_congQ_trans; [exact E|]. apply map_cong_pointwise. intros r _.
    apply eval_cong; [|reflexivity]. clear. induction w; cbn; constructor; [apply congQ_mod|assumption].
  - eapply Forall_impl; [|exact R]. cbn beta. intros r Hr. change (Z.of_nat (Nat.pow 2 8)) with 256 in Hr.
    eapply congQ_trans; [exact Hr|exact zeta1_sq].
Qed.

(* ---------- evaluation is multiplicative on the negacyclic product ---------- *)
Lemma eval_single a r : congQ (eval [a] r) a.
Proof. cbn. rewrite Z.mul_0_r, Z.add_0_r, q_eq. apply congQ_mod. Qed.

Lemma mulX_length b : length (mulX b) = length b.
Proof.
  unfold mulX. destruct (rev b) as [|l r] eqn:E.
  - apply (f_equal (@length Z)) in E. rewrite rev_length in E. cbn in E. cbn. lia.
  - apply (f_equal (@length Z)) in E. rewrite rev_length in E. cbn in *. rewrite rev_length. lia.
Qed.

Lemma eval_mulX b r : length b = 256%nat -> congQ (r ^ 256) (-1) -> congQ (eval (mulX b) r) (r * eval b r).
Proof.
  intros Hl Hr. unfold mulX. destruct (rev b) as [|last rb] eqn:E.
  { apply (f_equal (@length Z)) in E. rewrite rev_length, Hl in E. discriminate. }
  assert (Hb : b = rev rb ++ [last]).
  { rewrite <- (rev_involutive b), E. reflexivity. }
  assert (Hlr : length (rev rb) = 255%nat).
  { apply (f_equal (@length Z)) in Hb. rewrite app_length, Hl in Hb. cbn in Hb. lia. }
  cbn [eval]. rewrite q_eq. eapply congQ_trans; [apply congQ_mod|].
  eapply congQ_trans; [apply congQ_add; [apply congQ_mod|reflexivity]|].
  rewrite Hb at 1.
  eapply congQ_trans; [|apply congQ_mul; [reflexivity|apply congQ_sym, eval_app]].
  rewrite Hlr. change (Z.of_nat 255) with 255.
  eapply congQ_trans; [|apply congQ_mul; [reflexivity|apply congQ_add; [reflexivity|apply congQ_mul; [reflexivity|apply congQ_sym, eval_single]]]].
  replace (r * (eval (rev rb) r + r ^ 255 * last)) with (r * eval (rev rb) r + r ^ 256 * last).
  2:{ replace 256 with (Z.succ 255) by reflexivity. rewrite Z.pow_succ_r by lia. ring. }
  replace (- last + r * eval (rev rb) r) with (r * eval (rev rb) r + (-1) * last) by ring.
  apply congQ_add; [reflexivity|]. apply congQ_mul; [apply congQ_sym; exact Hr|reflexivity].
Qed.

Lemma negacyclic_aux_length a b : length (negacyclic_aux a b) = length b.
Proof.
  revert b. induction a as [|x a IH]; intros b; cbn [negacyclic_aux]; [apply map_length|].
  rewrite padd_length; rewrite pscale_length; [reflexivity|]. rewrite IH. symmetry. apply mulX_length.
Qed.

Lemma eval_zero_list (b : list Z) r : congQ (eval (map (fun _ => 0) b) r) 0.
Proof.
  induction b as [|x b IH]; [reflexivity|]. cbn [map eval]. rewrite q_eq. eapply congQ_trans; [apply congQ_mod|].
  rewrite Z.add_0_l. eapply congQ_trans; [apply congQ_mul; [reflexivity|exact IH]|]. rewrite Z.mul_0_r. reflexivity.
Qed.

Lemma eval_negacyclic_aux r : congQ (r ^ 256) (-1) -> forall a b, length b = 256%nat ->
  congQ (eval (negacyclic_aux a b) r) (eval a r * eval b r).
Proof.
  intros Hr. induction a as [|x a IH]; intros b Hl; cbn [negacyclic_aux].
  - cbn [eval]. rewrite Z.mul_0_l. apply eval_zero_list.
  - eapply congQ_trans; [apply eval_padd|].
    { rewrite pscale_length, negacyclic_aux_length, mulX_length. reflexivity. }
    eapply congQ_trans; [apply congQ_add; [apply eval_pscale|apply IH; rewrite mulX_length; exact Hl]|].
    eapply congQ_trans; [apply congQ_add; [reflexivity|apply congQ_mul; [reflexivity|apply eval_mulX; assumption]]|].
    cbn [eval]. rewrite q_eq. eapply congQ_trans; [|apply congQ_mul; [apply congQ_sym, congQ_mod|reflexivity]].
    replace (x * eval b r + eval a r * (r * eval b r)) with ((x + r * eval a r) * eval b r) by ring. reflexivity.
Qed.

Lemma eval_negacyclic a b r : length a = 256%nat -> length b = 256%nat -> congQ (r ^ 256) (-1) ->
  congQ (eval (negacyclic a b) r) (eval a r * eval b r).
Proof.
  intros Ha Hb Hr. unfold negacyclic.
  eapply congQ_trans; [apply eval_negacyclic_aux; [exact Hr|rewrite map_length; exact Hb]|].
  apply congQ_mul; apply eval_cong; try reflexivity.
  - clear. induction a; cbn; constructor; [apply congQ_mod|assumption].
  - clear. induction b; cbn; constructor; [apply congQ_mod|assumption].
Qed.

(* ---------- invNTT inverts NTT ---------- *)
(* table relation used by the inverse butterflies: zeta(2*base-1-b) * zeta(base+b) = -1 for base = 2^lvl, b < base *)
Definition inv_rel_ok (lvl off : nat) : bool :=
  let base := Z.of_nat (Nat.pow 2 lvl) in let m := base + Z.of_nat off in
  (zeta (3 * base - 1 - m) * zeta m) mod q =? q - 1.
Lemma inv_rel_sweep : forallb (fun lvl => forallb (inv_rel_ok lvl) (seq 0 (Nat.pow 2 lvl))) (seq 0 8) = true.
Proof. vm_compute. reflexivity. Qed.
Lemma inv_rel lvl off : (lvl < 8)%nat -> (off < Nat.pow 2 lvl)%nat ->
  let base := Z.of_nat (Nat.pow 2 lvl) in let m := base + Z.of_nat off in
  congQ (zeta (3 * base - 1 - m) * zeta m) (-1).
Proof.
  intros Hl Ho. cbv zeta.
  pose proof (proj1 (forallb_forall _ _) inv_rel_sweep lvl) as H1.
  assert (In lvl (seq 0 8)) as Hin by (apply in_seq; lia). specialize (H1 Hin).
  pose proof (proj1 (forallb_forall _ _) H1 off) as H2.
  assert (In off (seq 0 (Nat.pow 2 lvl))) as Hin2 by (apply in_seq; lia). specialize (H2 Hin2).
  unfold inv_rel_ok in H2. apply Z.eqb_eq in H2. unfold congQ. rewrite q_eq in H2. rewrite H2. reflexivity.
Qed.

Lemma NTT_rec_length : forall depth m w, length w = Nat.pow 2 depth -> length (NTT_rec depth m w) = length w.
Proof.
  induction depth as [|dp IH]; intros m w Hl; [reflexivity|].
  rewrite pow2_succ in Hl. cbn [NTT_rec]. rewrite app_length.
  rewrite !IH.
  - rewrite padd_length, psub_length; rewrite ?pscale_length, ?firstn_length, ?skipn_length; lia.
  - rewrite psub_length; rewrite ?pscale_length, ?firstn_length, ?skipn_length; lia.
  - rewrite padd_length; rewrite ?pscale_length, ?firstn_length, ?skipn_length; lia.
Qed.

(* scalar facts of one inverse butterfly *)
Lemma inv_bfly_lo k l zm h a b : congQ a (k * ((l + (zm * h) mod q) mod q)) -> congQ b (k * ((l - (zm * h) mod q) mod q)) ->
  congQ ((a + b) mod q) (2 * k * l).
Proof.
  intros Ha Hb. rewrite q_eq in *. eapply congQ_trans; [apply congQ_mod|].
  eapply congQ_trans; [apply congQ_add; eassumption|].
  eapply congQ_trans; [apply congQ_add; (apply congQ_mul; [reflexivity|apply congQ_mod])|].
  replace (k * (l + (zm * h) mod Q) + k * (l - (zm * h) mod Q)) with (2 * k * l) by ring. reflexivity.
Qed.
Lemma inv_bfly_hi k l zm zi h a b : congQ (zi * zm) (-1) ->
  congQ a (k * ((l + (zm * h) mod q) mod q)) -> congQ b (k * ((l - (zm * h) mod q) mod q)) ->
  congQ ((- zi * ((a - b) mod q)) mod q) (2 * k * h).
Proof.
  intros Hz Ha Hb. rewrite q_eq in *. eapply congQ_trans; [apply congQ_mod|].
  eapply congQ_trans; [apply congQ_mul; [reflexivity|apply congQ_mod]|].
  eapply congQ_trans; [apply congQ_mul; [reflexivity|apply congQ_sub; eassumption]|].
  eapply congQ_trans; [apply congQ_mul; [reflexivity|apply congQ_sub; (apply congQ_mul; [reflexivity|apply congQ_mod])]|].
  replace (- zi * (k * (l + (zm * h) mod Q) - k * (l - (zm * h) mod Q))) with (- zi * (2 * k) * ((zm * h) mod Q)) by ring.
  eapply congQ_trans; [apply congQ_mul; [reflexivity|apply congQ_mod]|].
  replace (- zi * (2 * k) * (zm * h)) with (- (zi * zm) * (2 * k * h)) by ring.
  eapply congQ_trans; [apply congQ_mul; [apply congQ_opp; exact Hz|reflexivity]|].
  replace (- -1 * (2 * k * h)) with (2 * k * h) by ring. reflexivity.
Qed.

Lemma inv_layer_pointwise k zm zi : congQ (zi * zm) (-1) -> forall lo hi A B,
  length lo = length hi ->
  Forall2 congQ A (map (fun x => k * x) (padd lo (pscale zm hi))) ->
  Forall2 congQ B (map (fun x => k * x) (psub lo (pscale zm hi))) ->
  Forall2 congQ (padd A B ++ pscale (- zi) (psub A B)) (map (fun x => 2 * k * x) (lo ++ hi)).
Proof.
  intros Hz lo hi A B Hl HA HB. rewrite map_app. apply Forall2_app'.
  - revert hi A B Hl HA HB. induction lo as [|l lo IH]; intros [|h hi] A B Hl HA HB; cbn in Hl; try discriminate.
    + unfold padd, psub, pscale in *. cbn [map map2] in *. inversion HA; inversion HB; subst. cbn [map2 map]. constructor.
    + unfold padd, psub, pscale in *. cbn [map map2] in *.
      inversion HA as [|a ? A' ? Ha HA']; inversion HB as [|b ? B' ? Hb HB']; subst. cbn [map2 map]. constructor.
      * eapply inv_bfly_lo; eassumption.
      * apply (IH hi); try assumption; lia.
  - revert hi A B Hl HA HB. induction lo as [|l lo IH]; intros [|h hi] A B Hl HA HB; cbn in Hl; try discriminate.
    + unfold padd, psub, pscale in *. cbn [map map2] in *. inversion HA; inversion HB; subst. cbn [map2 map]. constructor.
    + unfold padd, psub, pscale in *. cbn [map map2] in *.
      inversion HA as [|a ? A' ? Ha HA']; inversion HB as [|b ? B' ? Hb HB']; subst. cbn [map2 map]. constructor.
      * eapply inv_bfly_hi; eassumption.
      * apply (IH hi); try assumption; lia.
Qed.

Lemma invNTT_rec_NTT_rec : forall depth lvl off w,
  (lvl + depth = 8)%nat -> (off < Nat.pow 2 lvl)%nat -> length w = Nat.pow 2 depth ->
  let base := Z.of_nat (Nat.pow 2 lvl) in let m := base + Z.of_nat off in
  Forall2 congQ (invNTT_rec depth base m (NTT_rec depth m w)) (map (fun x => 2 ^ Z.of_nat depth * x) w).
Proof.
  induction depth as [|dp IH]; intros lvl off w Hlvl Hoff Hl; cbv zeta.
  - cbn [invNTT_rec NTT_rec]. change (2 ^ Z.of_nat 0) with 1.
    clear. induction w as [|a w IHw]; cbn [map]; [constructor|constructor; [rewrite Z.mul_1_l; reflexivity|exact IHw]].
  - rewrite pow2_succ in Hl.
    set (base := Z.of_nat (Nat.pow 2 lvl)). set (m := base + Z.of_nat off).
    cbn [NTT_rec]. set (n := Nat.pow 2 dp) in *.
    set (lo := firstn n w). set (hi := skipn n w). set (t := pscale (zeta m) hi).
    assert (Hllo : length lo = n) by (unfold lo; rewrite firstn_length; lia).
    assert (Hlhi : length hi = n) by (unfold hi; rewrite skipn_length; lia).
    assert (Hlt : length t = n) by (unfold t; rewrite pscale_length; exact Hlhi).
    assert (Hw : w = lo ++ hi) by (unfold lo, hi; symmetry; apply firstn_skipn).
    set (X := NTT_rec dp (2 * m) (padd lo t)). set (Y := NTT_rec dp (2 * m + 1) (psub lo t)).
    assert (HlX : length X = n) by (unfold X; rewrite NTT_rec_length; rewrite padd_length; lia).
    assert (HlY : length Y = n) by (unfold Y; rewrite NTT_rec_length; rewrite psub_length; lia).
    cbn [invNTT_rec]. fold n.
    assert (Hf : firstn n (X ++ Y) = X) by (rewrite <- HlX at 1; rewrite firstn_app, Nat.sub_diag, firstn_all; cbn; apply app_nil_r).
    assert (Hs : skipn n (X ++ Y) = Y) by (rewrite <- HlX at 1; rewrite skipn_app, Nat.sub_diag, skipn_all; reflexivity).
    rewrite Hf, Hs.
    (* children: level lvl+1, offsets 2*off and 2*off+1 *)
    assert (Hb2 : 2 * base = Z.of_nat (Nat.pow 2 (S lvl))) by (unfold base; rewrite pow2_succ; lia).
    assert (Hm0 : 2 * m = Z.of_nat (Nat.pow 2 (S lvl)) + Z.of_nat (2 * off)) by (unfold m; lia).
    assert (Hm1 : 2 * m + 1 = Z.of_nat (Nat.pow 2 (S lvl)) + Z.of_nat (2 * off + 1)) by (unfold m; lia).
    pose proof (IH (S lvl) (2 * off)%nat (padd lo t)) as IH0. cbv zeta in IH0.
    rewrite <- Hm0, <- Hb2 in IH0. specialize (IH0 ltac:(lia) ltac:(rewrite pow2_succ; lia) ltac:(rewrite padd_length; lia)).
    pose proof (IH (S lvl) (2 * off + 1)%nat (psub lo t)) as IH1. cbv zeta in IH1.
    rewrite <- Hm1, <- Hb2 in IH1. specialize (IH1 ltac:(lia) ltac:(rewrite pow2_succ; lia) ltac:(rewrite psub_length; lia)).
    fold X in IH0. fold Y in IH1.
    assert (Hp : 2 ^ Z.of_nat (S dp) = 2 * 2 ^ Z.of_nat dp) by (rewrite Nat2Z.inj_succ, Z.pow_succ_r by lia; reflexivity).
    rewrite Hw at 1. rewrite Hp.
    apply inv_layer_pointwise with (zm := zeta m); try assumption; try lia.
    apply (inv_rel lvl off); lia.
Qed.

Lemma NTT_rec_range : forall depth m w, Forall (fun x => 0 <= x < Q) w -> Forall (fun x => 0 <= x < Q) (NTT_rec depth m w).
Proof.
  induction depth as [|dp IH]; intros m w H; [exact H|]. cbn [NTT_rec]. apply Forall_app. split; apply IH.
  - unfold padd. apply Forall_forall. intros x Hx. clear - Hx.
    revert Hx. generalize (firstn (Nat.pow 2 dp) w) (pscale (zeta m) (skipn (Nat.pow 2 dp) w)).
    induction l as [|a l IHl]; intros [|b l0] Hx; cbn in Hx; try contradiction.
    destruct Hx as [<-|Hx]; [apply Z.mod_pos_bound; reflexivity|eapply IHl; eassumption].
  - unfold psub. apply Forall_forall. intros x Hx. clear - Hx.
    revert Hx. generalize (firstn (Nat.pow 2 dp) w) (pscale (zeta m) (skipn (Nat.pow 2 dp) w)).
    induction l as [|a l IHl]; intros [|b l0] Hx; cbn in Hx; try contradiction.
    destruct Hx as [<-|Hx]; [apply Z.mod_pos_bound; reflexivity|eapply IHl; eassumption].
Qed.
Lemma modq_range w : Forall (fun x => 0 <= x < Q) (map modq w).
Proof. apply Forall_forall. intros x Hx. apply in_map_iff in Hx as (y & <- & _). apply Z.mod_pos_bound. reflexivity. Qed.
Lemma NTT_range w : Forall (fun x => 0 <= x < Q) (NTT w).
Proof. unfold NTT. apply NTT_rec_range, modq_range. Qed.
Lemma NTT_length w : length w = 256%nat -> length (NTT w) = 256%nat.
Proof. intros Hl. unfold NTT. rewrite NTT_rec_length; rewrite map_length; exact Hl. Qed.

Lemma f256 : congQ (f_inv256 * 256) 1. Proof. unfold congQ. vm_compute. reflexivity. Qed.

Theorem invNTT_NTT w : length w = 256%nat -> invNTT (NTT w) = map modq w.
Proof.
  intros Hl. unfold invNTT.
  assert (Hid : map modq (NTT w) = NTT w).
  { pose proof (NTT_range w) as Hr. induction Hr as [|x l Hx Hr IH]; [reflexivity|]. cbn. rewrite IH. f_equal. apply Z.mod_small. exact Hx. }
  rewrite Hid. unfold NTT at 1.
  pose proof (invNTT_rec_NTT_rec 8 0 0 (map modq w) eq_refl ltac:(cbn; lia) ltac:(rewrite map_length; exact Hl)) as H.
  cbv zeta in H. change (Z.of_nat (Nat.pow 2 0) + Z.of_nat 0) with 1 in H. change (Z.of_nat (Nat.pow 2 0)) with 1 in H.
  change (2 ^ Z.of_nat 8) with 256 in H.
  apply Forall2_cong_eq.
  - unfold pscale. revert H. generalize (invNTT_rec 8 1 1 (NTT_rec 8 1 (map modq w))). intros l H.
    clear - H. revert l H. induction w as [|a w IH]; intros l H; cbn [map] in H; inversion H as [|x ? l' ? Hx H']; subst; cbn [map]; constructor.
    + rewrite q_eq. eapply congQ_trans; [apply congQ_mod|]. eapply congQ_trans; [apply congQ_mul; [reflexivity|exact Hx]|].
      replace (f_inv256 * (256 * modq a)) with (f_inv256 * 256 * modq a) by ring.
      eapply congQ_trans; [apply congQ_mul; [exact f256|reflexivity]|]. rewrite Z.mul_1_l. reflexivity.
    + apply IH. exact H'.
  - unfold pscale. apply Forall_forall. intros x Hx. apply in_map_iff in Hx as (y & <- & _). apply Z.mod_pos_bound. reflexivity.
  - apply modq_range.
Qed.

(* ---------- the ring theorem ---------- *)
Lemma negacyclic_range_length a b : length b = 256%nat -> (a <> []) ->
  length (negacyclic a b) = 256%nat /\ Forall (fun x => 0 <= x < Q) (negacyclic a b).
Proof.
  intros Hb Ha. unfold negacyclic. split; [rewrite negacyclic_aux_length, map_length; exact Hb|].
  destruct a as [|x a]; [contradiction|]. cbn [map negacyclic_aux]. unfold padd.
  apply Forall_forall. intros y Hy. revert Hy.
  generalize (pscale (modq x) (map modq b)) (negacyclic_aux (map modq a) (mulX (map modq b))).
  induction l as [|u l IHl]; intros [|v l0] Hy; cbn in Hy; try contradiction.
  destruct Hy as [<-|Hy]; [apply Z.mod_pos_bound; reflexivity|eapply IHl; eassumption].
Qed.

Theorem ntt_ring a b : length a = 256%nat -> length b = 256%nat ->
  invNTT (MultiplyNTT (NTT a) (NTT b)) = negacyclic a b.
Proof.
  intros Ha Hb.
  destruct (negacyclic_range_length a b Hb) as [Hlc Hrc]; [destruct a; [discriminate|congruence]|].
  set (c := negacyclic a b) in *.
  assert (Hc : map modq c = c).
  { clear - Hrc. induction Hrc as [|x l Hx Hr IH]; [reflexivity|]. cbn. rewrite IH. f_equal. apply Z.mod_small. exact Hx. }
  rewrite <- Hc. rewrite <- (invNTT_NTT c Hlc). f_equal.
  (* NTT c = NTT a o NTT b, pointwise at the 256 evaluation points *)
  destruct (NTT_eval a Ha) as [Ea HR]. destruct (NTT_eval b Hb) as [Eb _]. destruct (NTT_eval c Hlc) as [Ec _].
  symmetry. apply Forall2_cong_eq; [|apply NTT_range|].
  - eapply Forall2_congQ_trans; [exact Ec|].
    unfold MultiplyNTT, pmul.
    assert (Hprod : Forall2 congQ (map (eval c) ROOTS) (map2 (fun x y => x * y) (map (eval a) ROOTS) (map (eval b) ROOTS))).
    { clear - HR Ha Hb. unfold c. induction HR as [|r rs Hr HR IH]; cbn; constructor; [|exact IH]. apply eval_negacyclic; assumption. }
    eapply Forall2_congQ_trans; [exact Hprod|].
    apply map2_Forall2 with (RA := congQ) (RB := congQ).
    + intros x x' y y' Hx Hy. eapply congQ_trans; [|apply congQ_sym; rewrite q_eq; apply congQ_mod]. apply congQ_mul; assumption.
    + apply Forall2_congQ_sym. exact Ea.
    + apply Forall2_congQ_sym. exact Eb.
  - unfold MultiplyNTT, pmul. apply Forall_forall. intros y Hy. revert Hy. generalize (NTT a) (NTT b).
    induction l as [|u l IHl]; intros [|v l0] Hy; cbn in Hy; try contradiction.
    destruct Hy as [<-|Hy]; [apply Z.mod_pos_bound; reflexivity|eapply IHl; eassumption].
Qed.

(* ---------- NTT inverts invNTT (so every NTT-domain polynomial is the transform of exactly one ring element) ---------- *)
Lemma Forall2_refl_eq_map (f g : Z -> Z) l : (forall x, f x = g x) -> Forall2 congQ (map f l) (map g l).
Proof. intros H. induction l; cbn; constructor; [rewrite H; reflexivity|assumption]. Qed.
Lemma padd_cong a a' b b' : Forall2 congQ a a' -> Forall2 congQ b b' -> Forall2 congQ (padd a b) (padd a' b').
Proof.
  intros Ha Hb. unfold padd. apply map2_Forall2 with (RA := congQ) (RB := congQ); try assumption.
  intros x x' y y' Hx Hy. rewrite q_eq. eapply congQ_trans; [apply congQ_mod|]. eapply congQ_trans; [|apply congQ_sym, congQ_mod]. apply congQ_add; assumption.
Qed.
Lemma psub_cong a a' b b' : Forall2 congQ a a' -> Forall2 congQ b b' -> Forall2 congQ (psub a b) (psub a' b').
Proof.
  intros Ha Hb. unfold psub. apply map2_Forall2 with (RA := congQ) (RB := congQ); try assumption.
  intros x x' y y' Hx Hy. rewrite q_eq. eapply congQ_trans; [apply congQ_mod|]. eapply congQ_trans; [|apply congQ_sym, congQ_mod]. apply congQ_sub; assumption.
Qed.
Lemma pscale_cong c a a' : Forall2 congQ a a' -> Forall2 congQ (pscale c a) (pscale c a').
Proof.
  intros Ha. unfold pscale. apply map_Forall2 with (RA := congQ); [|exact Ha].
  intros x x' Hx. rewrite q_eq. eapply congQ_trans; [apply congQ_mod|]. eapply congQ_trans; [|apply congQ_sym, congQ_mod]. apply congQ_mul; [reflexivity|assumption].
Qed.

Lemma NTT_rec_cong : forall depth m w w', Forall2 congQ w w' -> Forall2 congQ (NTT_rec depth m w) (NTT_rec depth m w').
Proof.
  induction depth as [|dp IH]; intros m w w' H; [exact H|]. cbn [NTT_rec]. apply Forall2_app'; apply IH.
  - apply padd_cong; [apply Forall2_firstn; exact H|apply pscale_cong, Forall2_skipn; exact H].
  - apply psub_cong; [apply Forall2_firstn; exact H|apply pscale_cong, Forall2_skipn; exact H].
Qed.

Definition kscale (k : Z) (w : list Z) : list Z := map (fun x => k * x) w.
Lemma kscale_firstn k n w : firstn n (kscale k w) = kscale k (firstn n w).
Proof. unfold kscale. apply firstn_map. Qed.
Lemma kscale_skipn k n w : skipn n (kscale k w) = kscale k (skipn n w).
Proof. unfold kscale. apply skipn_map. Qed.
Lemma kscale_app k a b : kscale k (a ++ b) = kscale k a ++ kscale k b.
Proof. unfold kscale. apply map_app. Qed.

Lemma kscale_padd k a b : Forall2 congQ (padd (kscale k a) (kscale k b)) (kscale k (padd a b)).
Proof.
  revert b. induction a as [|x a IH]; intros [|y b]; cbn; try constructor.
  - rewrite q_eq. eapply congQ_trans; [apply congQ_mod|]. unfold kscale in *.
    eapply congQ_trans; [|apply congQ_mul; [reflexivity|apply congQ_sym, congQ_mod]]. replace (k * x + k * y) with (k * (x + y)) by ring. reflexivity.
  - apply IH.
Qed.
Lemma kscale_psub k a b : Forall2 congQ (psub (kscale k a) (kscale k b)) (kscale k (psub a b)).
Proof.
  revert b. induction a as [|x a IH]; intros [|y b]; cbn; try constructor.
  - rewrite q_eq. eapply congQ_trans; [apply congQ_mod|]. unfold kscale in *.
    eapply congQ_trans; [|apply congQ_mul; [reflexivity|apply congQ_sym, congQ_mod]]. replace (k * x - k * y) with (k * (x - y)) by ring. reflexivity.
  - apply IH.
Qed.
Lemma kscale_pscale k c a : Forall2 congQ (pscale c (kscale k a)) (kscale k (pscale c a)).
Proof.
  induction a as [|x a IH]; cbn; constructor; [|exact IH].
  rewrite q_eq. eapply congQ_trans; [apply congQ_mod|].
  eapply congQ_trans; [|apply congQ_mul; [reflexivity|apply congQ_sym, congQ_mod]]. replace (c * (k * x)) with (k * (c * x)) by ring. reflexivity.
Qed.
Lemma kscale_cong k a a' : Forall2 congQ a a' -> Forall2 congQ (kscale k a) (kscale k a').
Proof. intros H. unfold kscale. apply map_Forall2 with (RA := congQ); [|exact H]. intros; apply congQ_mul; [reflexivity|assumption]. Qed.

Lemma NTT_rec_kscale : forall depth m k w, Forall2 congQ (NTT_rec depth m (kscale k w)) (kscale k (NTT_rec depth m w)).
Proof.
  induction depth as [|dp IH]; intros m k w; [apply Forall2_refl; intros; reflexivity|].
  cbn [NTT_rec]. rewrite kscale_app, kscale_firstn, kscale_skipn. apply Forall2_app'.
  - eapply Forall2_congQ_trans; [|apply IH]. apply NTT_rec_cong.
    eapply Forall2_congQ_trans; [|apply kscale_padd]. apply padd_cong; [apply Forall2_refl; intros; reflexivity|apply kscale_pscale].
  - eapply Forall2_congQ_trans; [|apply IH]. apply NTT_rec_cong.
    eapply Forall2_congQ_trans; [|apply kscale_psub]. apply psub_cong; [apply Forall2_refl; intros; reflexivity|apply kscale_pscale].
Qed.

Lemma invNTT_rec_length : forall depth base m w, length w = Nat.pow 2 depth -> length (invNTT_rec depth base m w) = length w.
Proof.
  induction depth as [|dp IH]; intros base m w Hl; [reflexivity|]. rewrite pow2_succ in Hl. cbn [invNTT_rec].
  rewrite app_length, pscale_length, padd_length, psub_length; rewrite ?IH; rewrite ?firstn_length, ?skipn_length; lia.
Qed.

(* pointwise facts of one forward butterfly applied to an inverse butterfly *)
Lemma fwd_of_inv_pointwise zm zi : congQ (zi * zm) (-1) -> forall lo' hi', length lo' = length hi' ->
  Forall2 congQ (padd (padd lo' hi') (pscale zm (pscale (- zi) (psub lo' hi')))) (kscale 2 lo')
  /\ Forall2 congQ (psub (padd lo' hi') (pscale zm (pscale (- zi) (psub lo' hi')))) (kscale 2 hi').
Proof.
  intros Hz. induction lo' as [|l lo IH]; intros [|h hi] Hl; cbn in Hl; try discriminate.
  - split; constructor.
  - destruct (IH hi ltac:(lia)) as [I1 I2]. unfold padd, psub, pscale, kscale in *. cbn [map map2].
    assert (Ht : congQ ((zm * ((- zi * ((l - h) mod q)) mod q)) mod q) (l - h)).
    { rewrite q_eq. eapply congQ_trans; [apply congQ_mod|]. eapply congQ_trans; [apply congQ_mul; [reflexivity|apply congQ_mod]|].
      eapply congQ_trans; [apply congQ_mul; [reflexivity|apply congQ_mul; [reflexivity|apply congQ_mod]]|].
      replace (zm * (- zi * (l - h))) with (- (zi * zm) * (l - h)) by ring.
      eapply congQ_trans; [apply congQ_mul; [apply congQ_opp; exact Hz|reflexivity]|]. replace (- -1 * (l - h)) with (l - h) by ring. reflexivity. }
    split; constructor; try assumption.
    + rewrite q_eq. eapply congQ_trans; [apply congQ_mod|]. eapply congQ_trans; [apply congQ_add; [apply congQ_mod|rewrite <- q_eq; exact Ht]|].
      replace (l + h + (l - h)) with (2 * l) by ring. reflexivity.
    + rewrite q_eq. eapply congQ_trans; [apply congQ_mod|]. eapply congQ_trans; [apply congQ_sub; [apply congQ_mod|rewrite <- q_eq; exact Ht]|].
      replace (l + h - (l - h)) with (2 * h) by ring. reflexivity.
Qed.

Lemma NTT_rec_invNTT_rec : forall depth lvl off w,
  (lvl + depth = 8)%nat -> (off < Nat.pow 2 lvl)%nat -> length w = Nat.pow 2 depth ->
  let base := Z.of_nat (Nat.pow 2 lvl) in let m := base + Z.of_nat off in
  Forall2 congQ (NTT_rec depth m (invNTT_rec depth base m w)) (kscale (2 ^ Z.of_nat depth) w).
Proof.
  induction depth as [|dp IH]; intros lvl off w Hlvl Hoff Hl; cbv zeta.
  - cbn [invNTT_rec NTT_rec]. change (2 ^ Z.of_nat 0) with 1. unfold kscale.
    clear. induction w as [|a w IHw]; cbn [map]; [constructor|constructor; [rewrite Z.mul_1_l; reflexivity|exact IHw]].
  - rewrite pow2_succ in Hl.
    set (base := Z.of_nat (Nat.pow 2 lvl)). set (m := base + Z.of_nat off).
    cbn [invNTT_rec]. set (n := Nat.pow 2 dp) in *.
    set (lo' := invNTT_rec dp (2 * base) (2 * m) (firstn n w)). set (hi' := invNTT_rec dp (2 * base) (2 * m + 1) (skipn n w)).
    assert (Hl1 : length lo' = n) by (unfold lo'; rewrite invNTT_rec_length; rewrite firstn_length; lia).
    assert (Hl2 : length hi' = n) by (unfold hi'; rewrite invNTT_rec_length; rewrite skipn_length; lia).
    set (zi := zeta (3 * base - 1 - m)).
    set (P := padd lo' hi'). set (R := pscale (- zi) (psub lo' hi')).
    assert (HlP : length P = n) by (unfold P; rewrite padd_length; lia).
    cbn [NTT_rec]. fold n.
    assert (Hf : firstn n (P ++ R) = P) by (rewrite <- HlP at 1; rewrite firstn_app, Nat.sub_diag, firstn_all; cbn; apply app_nil_r).
    assert (Hs : skipn n (P ++ R) = R) by (rewrite <- HlP at 1; rewrite skipn_app, Nat.sub_diag, skipn_all; reflexivity).
    rewrite Hf, Hs.
    assert (Hrel : congQ (zi * zeta m) (-1)) by (apply (inv_rel lvl off); lia).
    destruct (fwd_of_inv_pointwise (zeta m) zi Hrel lo' hi' ltac:(lia)) as [F1 F2]. fold P R in F1, F2.
    assert (Hb2 : 2 * base = Z.of_nat (Nat.pow 2 (S lvl))) by (unfold base; rewrite pow2_succ; lia).
    assert (Hm0 : 2 * m = Z.of_nat (Nat.pow 2 (S lvl)) + Z.of_nat (2 * off)) by (unfold m; lia).
    assert (Hm1 : 2 * m + 1 = Z.of_nat (Nat.pow 2 (S lvl)) + Z.of_nat (2 * off + 1)) by (unfold m; lia).
    pose proof (IH (S lvl) (2 * off)%nat (firstn n w)) as IH0. cbv zeta in IH0.
    rewrite <- Hm0, <- Hb2 in IH0. specialize (IH0 ltac:(lia) ltac:(rewrite pow2_succ; lia) ltac:(rewrite firstn_length; lia)).
    pose proof (IH (S lvl) (2 * off + 1)%nat (skipn n w)) as IH1. cbv zeta in IH1.
    rewrite <- Hm1, <- Hb2 in IH1. specialize (IH1 ltac:(lia) ltac:(rewrite pow2_succ; lia) ltac:(rewrite skipn_length; lia)).
    fold lo' in IH0. fold hi' in IH1.
    assert (Hp : 2 ^ Z.of_nat (S dp) = 2 * 2 ^ Z.of_nat dp) by (rewrite Nat2Z.inj_succ, Z.pow_succ_r by lia; reflexivity).
    replace (kscale (2 ^ Z.of_nat (S dp)) w) with (kscale (2 ^ Z.of_nat (S dp)) (firstn n w ++ skipn n w)) by (rewrite firstn_skipn; reflexivity).
    rewrite kscale_app. apply Forall2_app'.
    + eapply Forall2_congQ_trans; [apply NTT_rec_cong; exact F1|].
      eapply Forall2_congQ_trans; [apply NTT_rec_kscale|].
      eapply Forall2_congQ_trans; [apply kscale_cong; exact IH0|].
      rewrite Hp. unfold kscale. rewrite map_map. apply Forall2_refl_eq_map. intros x. ring.
    + eapply Forall2_congQ_trans; [apply NTT_rec_cong; exact F2|].
      eapply Forall2_congQ_trans; [apply NTT_rec_kscale|].
      eapply Forall2_congQ_trans; [apply kscale_cong; exact IH1|].
      rewrite Hp. unfold kscale. rewrite map_map. apply Forall2_refl_eq_map. intros x. ring.
Qed.

Theorem NTT_invNTT x : length x = 256%nat -> Forall (fun v => 0 <= v < Q) x -> NTT (invNTT x) = x.
Proof.
  intros Hl Hr.
  assert (Hx : map modq x = x).
  { clear - Hr. induction Hr as [|v l Hv Hr IH]; [reflexivity|]. cbn [map]. rewrite IH. f_equal. apply Z.mod_small. exact Hv. }
  unfold invNTT. rewrite Hx. unfold NTT.
  pose proof (NTT_rec_invNTT_rec 8 0 0 x eq_refl ltac:(cbn; lia) Hl) as H. cbv zeta in H.
  change (Z.of_nat (Nat.pow 2 0) + Z.of_nat 0) with 1 in H. change (Z.of_nat (Nat.pow 2 0)) with 1 in H. change (2 ^ Z.of_nat 8) with 256 in H.
  apply Forall2_cong_eq; [|apply NTT_rec_range, modq_range|exact Hr].
  set (y := invNTT_rec 8 1 1 x) in *.
  eapply Forall2_congQ_trans; [apply NTT_rec_cong with (w' := kscale f_inv256 y)|].
  { unfold pscale, kscale. clear. induction y as [|a y IH]; cbn [map]; constructor; [|exact IH].
    unfold modq. rewrite q_eq. eapply congQ_trans; [apply congQ_mod|]. apply congQ_mod. }
  eapply Forall2_congQ_trans; [apply NTT_rec_kscale|].
  eapply Forall2_congQ_trans; [apply kscale_cong; exact H|].
  unfold kscale. rewrite map_map. clear. induction x as [|a x IH]; cbn [map]; constructor; [|exact IH].
  replace (f_inv256 * (256 * a)) with (f_inv256 * 256 * a) by ring.
  eapply congQ_trans; [apply congQ_mul; [exact f256|reflexivity]|]. rewrite Z.mul_1_l. reflexivity.
Qed.

Lemma invNTT_length x : length x = 256%nat -> length (invNTT x) = 256%nat.
Proof. intros Hl. unfold invNTT. rewrite pscale_length, invNTT_rec_length; rewrite map_length; exact Hl. Qed.

(* product with an operand given in the NTT domain (the matrix A_hat of ML-DSA) *)
Theorem ntt_domain_product a_hat s : length a_hat = 256%nat -> Forall (fun v => 0 <= v < Q) a_hat -> length s = 256%nat ->
  invNTT (MultiplyNTT a_hat (NTT s)) = negacyclic (invNTT a_hat) s.
Proof.
  intros Hl Hr Hs. rewrite <- (NTT_invNTT a_hat Hl Hr) at 1. apply ntt_ring; [apply invNTT_length; exact Hl|exact Hs].
Qed.

Lemma invNTT_cong a b : Forall2 congQ a b -> invNTT a = invNTT b.
Proof.
  intros H. unfold invNTT. f_equal. f_equal. induction H as [|x y a b Hxy H IH]; [reflexivity|]. cbn [map]. rewrite IH. f_equal. exact Hxy.
Qed.
