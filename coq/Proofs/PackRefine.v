(* The crate's encoders equal FIPS 204 Algorithms 17, 22, 24 (BitPack, pkEncode, skEncode). *)
Require Import List ZArith Lia Bool. Import ListNotations.
Require Import F204.Base.Util F204.Base.Mach F204.Base.Bits F204.Base.ListLemmas F204.Gen.Params
  F204.Impl.Helpers F204.Impl.Conversion F204.Impl.Encodings
  F204.Proofs.BitPackProofs F204.Proofs.SkDecodeProofs F204.Proofs.SpecBits F204.Proofs.RelMap F204.Proofs.KeyRoundTrip.
Require F204.Spec.SpecConv.
Open Scope Z_scope.
Ltac Zify.zify_post_hook ::= Z.div_mod_to_equations.

Theorem bit_pack_is_Spec a b (w : list Z) : valid_ab a b -> 0 < a -> length w = 256%nat -> is_in_range w a b = true ->
  bit_pack w a b (32 * bitlen (a + b)) = Ok (SpecConv.BitPack w a b).
Proof.
  intros Hab Ha Hl Hr. pose proof (proj1 (in_range_forall _ _ _) Hr) as HrF.
  destruct (bit_pack_unpack a b w Hab Hl Hr) as (v & Ep & _ & Hbv & Hlv).
  rewrite Ep. f_equal.
  destruct (bitlen_ab a b Hab) as [Hc Hlt].
  set (c := SpecConv.bitlen (a + b)).
  assert (Hcz : Z.of_nat c = bitlen (a + b)) by (apply bitlen_spec_nat; destruct Hab; lia).
  assert (HB : SpecConv.BitPack w a b = SpecConv.SimpleBitPack (map (fun x => b - x) w) (a + b)).
  { unfold SpecConv.BitPack, SpecConv.SimpleBitPack. f_equal. rewrite flat_map_concat_map, flat_map_concat_map, map_map. reflexivity. }
  rewrite HB.
  assert (Hw : digits_ok (Z.of_nat c) (map (fun x => b - x) w)).
  { unfold digits_ok. rewrite Forall_map. eapply Forall_impl; [|exact HrF]. cbn beta. intros x Hx. rewrite Hcz. lia. }
  destruct (SimpleBitPack_value (map (fun x => b - x) w) (a + b) c eq_refl Hw) as (S1 & S2 & S3).
  { rewrite map_length, Hl. replace (c * 256)%nat with (8 * (c * 32))%nat by lia. rewrite Nat.mul_comm. apply Nat.mod_mul. lia. }
  apply le_int_inj; try assumption.
  - rewrite S2, map_length, Hl. replace (c * 256)%nat with ((c * 32) * 8)%nat by lia. rewrite Nat.div_mul by lia. lia.
  - rewrite S1.
    unfold bit_pack in Ep.
    repeat (match type of Ep with context [guard ?g _] => destruct g; cbn [guard bind] in Ep; try discriminate end).
    injection Ep as Ev.
    assert (Hwe : Forall (fun x => 0 <= enc a b x < 2 ^ bitlen (a + b)) w).
    { eapply Forall_impl; [|exact HrF]. cbn beta. intros x Hx. pose proof (enc_range a b x ltac:(lia) Hx). lia. }
    destruct (bit_pack_raw_value a b (bitlen (a + b)) Hc w Hl Hwe) as (ob & Eo & _ & _ & Hvo).
    rewrite (bit_pack_raw_eq w a b ob Eo) in Ev. subst v. rewrite Hvo, Hcz. f_equal.
    apply map_ext_in. intros x Hx. rewrite Forall_forall in HrF. specialize (HrF x Hx). unfold enc.
    replace (0 <? a) with true by (symmetry; apply Z.ltb_lt; lia). lia.
Qed.

Lemma mapM_flat_map {A} (f : A -> res (list Z)) (g : A -> list Z) (P : A -> Prop) l :
  (forall a, P a -> f a = Ok (g a)) -> Forall P l -> (r <- mapM f l ;; Ok (concat r)) = Ok (flat_map g l).
Proof. intros Hf Hl. rewrite (mapM_pure f g P l Hf Hl). cbn [bind]. rewrite flat_map_concat_map. reflexivity. Qed.

(* Algorithm 22 *)
Theorem pk_encode_spec P rho (t1 : list (list Z)) : In P all_params -> rvec 0 1023 (p_k P) t1 ->
  pk_encode P rho t1 = Ok (SpecConv.pkEncode rho t1).
Proof.
  intros HP [R L].
  assert (Hpk : p_pk_len P = 32 + 32 * kz P * BLQD) by (destruct HP as [<-|[<-|[<-|[]]]]; reflexivity).
  unfold pk_encode, SpecConv.pkEncode. change T1MAX with 1023. rewrite (in_range_vec t1 0 1023 R), Hpk, Z.eqb_refl. cbn [guard bind].
  rewrite (mapM_pure (fun t => simple_bit_pack t 1023 (32 * BLQD)) (fun t => SpecConv.SimpleBitPack t 1023) _ t1 (fun p Hp => simple_bit_pack_is_Spec p 1023 ltac:(lia) (proj1 Hp) (proj2 (in_range_forall _ _ _) (proj2 Hp))) R).
  cbn [bind]. rewrite flat_map_concat_map. reflexivity.
Qed.

(* Algorithm 24 *)
Theorem sk_encode_spec P rho k tr (s1 s2 t0 : list (list Z)) : In P all_params ->
  rvec (p_eta P) (p_eta P) (p_l P) s1 -> rvec (p_eta P) (p_eta P) (p_k P) s2 -> rvec 4095 4096 (p_k P) t0 ->
  sk_encode P rho k tr s1 s2 t0 = Ok (SpecConv.skEncode (p_eta P) rho k tr s1 s2 t0).
Proof.
  intros HP [R1 L1] [R2 L2] [R3 L3].
  destruct (params_facts P HP) as (Heta & Hab & _ & Hform & _).
  assert (Hstep : bitlen (2 * p_eta P) = bitlen (p_eta P + p_eta P)) by (f_equal; lia).
  assert (Hab0 : valid_ab 4095 4096) by (unfold valid_ab; lia).
  unfold sk_encode, SpecConv.skEncode.
  replace ((p_eta P =? 2) || (p_eta P =? 4)) with true by (destruct Heta as [E|E]; rewrite E; reflexivity).
  change (TOP - 1) with 4095. change TOP with 4096.
  rewrite (in_range_vec _ _ _ R1), (in_range_vec _ _ _ R2), (in_range_vec _ _ _ R3), Hform, Z.eqb_refl. cbn [guard bind].
  rewrite Hstep.
  assert (He0 : 0 < p_eta P) by (destruct Heta as [E|E]; rewrite E; lia).
  rewrite (mapM_pure (fun p => bit_pack p (p_eta P) (p_eta P) (32 * bitlen (p_eta P + p_eta P))) (fun p => SpecConv.BitPack p (p_eta P) (p_eta P)) _ s1
             (fun p Hp => bit_pack_is_Spec _ _ p Hab He0 (proj1 Hp) (proj2 (in_range_forall _ _ _) (proj2 Hp))) R1). cbn [bind].
  rewrite (mapM_pure (fun p => bit_pack p (p_eta P) (p_eta P) (32 * bitlen (p_eta P + p_eta P))) (fun p => SpecConv.BitPack p (p_eta P) (p_eta P)) _ s2
             (fun p Hp => bit_pack_is_Spec _ _ p Hab He0 (proj1 Hp) (proj2 (in_range_forall _ _ _) (proj2 Hp))) R2). cbn [bind].
  change (32 * D) with (32 * bitlen (4095 + 4096)).
  rewrite (mapM_pure (fun p => bit_pack p 4095 4096 (32 * bitlen (4095 + 4096))) (fun p => SpecConv.BitPack p 4095 4096) _ t0
             (fun p Hp => bit_pack_is_Spec _ _ p Hab0 ltac:(lia) (proj1 Hp) (proj2 (in_range_forall _ _ _) (proj2 Hp))) R3). cbn [bind].
  rewrite !flat_map_concat_map. reflexivity.
Qed.
