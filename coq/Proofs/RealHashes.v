(* Non-vacuity of the hash hypotheses: the executable Keccak / SHA-2 models used to RUN the models
   (Hash/Keccak.v, Hash/Sha2.v, packed in HashIface.real_hashes) satisfy HashLaws - output lengths, the
   XOF prefix law and byte range.  Hence every theorem quantified over (H, HashLaws H) applies to the
   instance the correspondence harness executes. *)
From Coq Require Import NArith ZArith List Lia Bool.
Import ListNotations.
Require Import F204.Base.Util F204.Base.ListLemmas F204.Hash.Keccak F204.Hash.Sha2 F204.Hash.HashIface.

(* ---------- Keccak: the permutation itself ---------- *)
Lemma round_length rc s : length s = 25%nat -> length (Keccak.round rc s) = 25%nat.
Proof.
  intros E. do 25 (destruct s as [|? s]; [discriminate|]). destruct s; [|discriminate]. unfold Keccak.round. cbv zeta. reflexivity.
Qed.
Lemma keccak_f_length s : length s = 25%nat -> length (Keccak.keccak_f s) = 25%nat.
Proof.
  unfold Keccak.keccak_f. generalize Keccak.RC. intros rcs. revert s. induction rcs as [|rc rcs IH]; intros s Hs; [exact Hs|].
  cbn [fold_left]. apply IH. apply round_length. exact Hs.
Qed.

(* ---------- the sponge over an arbitrary permutation f of 25-lane states (so that no proof below ever
   unfolds Keccak-f) ---------- *)
Section Sponge.
Variable f : list N -> list N.
Hypothesis f_len : forall s, length s = 25%nat -> length (f s) = 25%nat.

Fixpoint fiter (n : nat) (s : list N) : list N := match n with O => s | S n' => fiter n' (f s) end.

Lemma xor_into_length s blk : length (Keccak.xor_into s blk) = length s.
Proof. revert blk. induction s as [|a s IH]; intros blk; [destruct blk; reflexivity|]. destruct blk; [reflexivity|]. cbn. rewrite IH. reflexivity. Qed.
Lemma absorb_length rate nb : forall s msg, length s = 25%nat -> length (Keccak.absorb_g f rate nb s msg) = 25%nat.
Proof. induction nb as [|nb IH]; intros s msg Hs; [exact Hs|]. cbn [Keccak.absorb_g]. apply IH. apply f_len. rewrite xor_into_length. exact Hs. Qed.
Lemma fiter_length n : forall s, length s = 25%nat -> length (fiter n s) = 25%nat.
Proof. induction n as [|n IH]; intros s Hs; [exact Hs|]. cbn [fiter]. apply IH. apply f_len. exact Hs. Qed.

Lemma bytes_of_lane_length n x : length (Keccak.bytes_of_lane n x) = n.
Proof. revert x. induction n as [|n IH]; intros x; [reflexivity|]. cbn. rewrite IH. reflexivity. Qed.
Lemma flat_lanes_length (s : list N) : length (flat_map (Keccak.bytes_of_lane 8) s) = (8 * length s)%nat.
Proof. induction s as [|x s IH]; [reflexivity|]. cbn [flat_map]. rewrite app_length, bytes_of_lane_length, IH. cbn [length]. lia. Qed.
Lemma state_bytes_length rate s : length s = 25%nat -> (rate <= 200)%nat -> length (Keccak.state_bytes rate s) = rate.
Proof. intros Hs Hr. unfold Keccak.state_bytes. rewrite firstn_length, flat_lanes_length, Hs. lia. Qed.
Lemma squeeze_length rate nb : (rate <= 200)%nat -> forall s, length s = 25%nat -> length (Keccak.squeeze_g f rate nb s) = (nb * rate)%nat.
Proof.
  intros Hr. induction nb as [|nb IH]; intros s Hs; [reflexivity|]. cbn [Keccak.squeeze_g]. rewrite app_length, state_bytes_length, IH by (try apply f_len; assumption). lia.
Qed.
Lemma squeeze_prefix rate nb : forall j s, Keccak.squeeze_g f rate (nb + j) s = Keccak.squeeze_g f rate nb s ++ Keccak.squeeze_g f rate j (fiter nb s).
Proof.
  induction nb as [|nb IH]; intros j s; [reflexivity|]. cbn [Nat.add Keccak.squeeze_g fiter]. rewrite IH, <- app_assoc. reflexivity.
Qed.

Lemma blocks_enough outlen rate : (0 < rate)%nat -> (outlen <= Nat.div (outlen + rate - 1) rate * rate)%nat.
Proof. intros Hr. pose proof (Nat.div_mod (outlen + rate - 1) rate ltac:(lia)) as Hd. pose proof (Nat.mod_upper_bound (outlen + rate - 1) rate ltac:(lia)). nia. Qed.

Lemma sponge_length rate suffix msg outlen : (0 < rate <= 200)%nat -> length (Keccak.sponge_g f rate suffix msg outlen) = outlen.
Proof.
  intros Hr. unfold Keccak.sponge_g. cbv zeta. rewrite firstn_length, squeeze_length; [|lia|apply absorb_length; reflexivity].
  pose proof (blocks_enough outlen rate ltac:(lia)). lia.
Qed.
Lemma sponge_prefix rate suffix msg n k : (0 < rate <= 200)%nat ->
  firstn n (Keccak.sponge_g f rate suffix msg (n + k)) = Keccak.sponge_g f rate suffix msg n.
Proof.
  intros Hr. unfold Keccak.sponge_g. cbv zeta. set (s := Keccak.absorb_g f rate _ Keccak.zero_state _).
  assert (Hs : length s = 25%nat) by (unfold s; apply absorb_length; reflexivity).
  rewrite firstn_firstn. replace (Nat.min n (n + k)) with n by lia.
  set (nb := Nat.div (n + rate - 1) rate). set (nb' := Nat.div (n + k + rate - 1) rate).
  assert (Hle : (nb <= nb')%nat) by (unfold nb, nb'; apply Nat.div_le_mono; lia).
  replace nb' with (nb + (nb' - nb))%nat by lia. rewrite squeeze_prefix. rewrite firstn_app.
  rewrite squeeze_length by (try exact Hs; lia).
  replace (n - nb * rate)%nat with 0%nat by (pose proof (blocks_enough n rate ltac:(lia)) as Hbe; fold nb in Hbe; lia).
  cbn [firstn]. apply app_nil_r.
Qed.

Lemma bytes_of_lane_range n : forall x, Forall (fun b => (b < 256)%N) (Keccak.bytes_of_lane n x).
Proof.
  induction n as [|n IH]; intros x; [constructor|]. cbn [Keccak.bytes_of_lane]. constructor; [|apply IH].
  change 255%N with (N.ones 8). rewrite N.land_ones. apply N.mod_lt. discriminate.
Qed.
Lemma squeeze_range rate nb : forall s, Forall (fun b => (b < 256)%N) (Keccak.squeeze_g f rate nb s).
Proof.
  induction nb as [|nb IH]; intros s; [constructor|]. cbn [Keccak.squeeze_g]. apply Forall_app. split; [|apply IH].
  unfold Keccak.state_bytes. apply Forall_firstn. induction s as [|x s IHs]; [constructor|]. cbn [flat_map]. apply Forall_app. split; [apply bytes_of_lane_range|exact IHs].
Qed.
Lemma all_bytes_of_N (l : list N) : Forall (fun b => (b < 256)%N) l -> all_bytes (map Z.of_N l) = true.
Proof.
  intros Hl. unfold all_bytes. apply forallb_forall. intros z Hz. apply in_map_iff in Hz as (b & <- & Hb).
  rewrite Forall_forall in Hl. specialize (Hl b Hb). unfold is_byte. apply andb_true_intro. split; [apply Z.leb_le|apply Z.ltb_lt]; lia.
Qed.

Lemma sponge_range rate suffix msg outlen : Forall (fun b => (b < 256)%N) (Keccak.sponge_g f rate suffix msg outlen).
Proof. unfold Keccak.sponge_g. cbv zeta. apply Forall_firstn. apply squeeze_range. Qed.
End Sponge.

(* ---------- SHA-2 ---------- *)
Lemma be_bytes_length n x : length (Sha2.be_bytes n x) = n.
Proof. induction n as [|n IH]; [reflexivity|]. cbn [Sha2.be_bytes length]. rewrite IH. reflexivity. Qed.
Lemma be_bytes_range n x : Forall (fun b => (b < 256)%N) (Sha2.be_bytes n x).
Proof.
  induction n as [|n IH]; [constructor|]. cbn [Sha2.be_bytes]. constructor; [|exact IH].
  change 255%N with (N.ones 8). rewrite N.land_ones. apply N.mod_lt. discriminate.
Qed.
Lemma flat_be_length n (l : list N) : length (flat_map (Sha2.be_bytes n) l) = (n * length l)%nat.
Proof. induction l as [|x l IH]; [cbn; lia|]. cbn [flat_map]. rewrite app_length, be_bytes_length, IH. cbn [length]. lia. Qed.
Lemma flat_be_range n (l : list N) : Forall (fun b => (b < 256)%N) (flat_map (Sha2.be_bytes n) l).
Proof. induction l as [|x l IH]; [constructor|]. cbn [flat_map]. apply Forall_app. split; [apply be_bytes_range|exact IH]. Qed.

Section Blocks.
Variable g : list N -> list N -> list N.
Hypothesis g_len : forall h w, length h = 8%nat -> length (g h w) = 8%nat.
Lemma blocks_length block wb nb : forall h m, length h = 8%nat -> length (Sha2.blocks block wb nb g h m) = 8%nat.
Proof. induction nb as [|nb IH]; intros h m Hh; [exact Hh|]. cbn [Sha2.blocks]. apply IH. apply g_len. exact Hh. Qed.
End Blocks.

Lemma step_length wbits s0a s0b s0c s1a s1b s1c st kw : length st = 8%nat ->
  length (Sha2.step wbits s0a s0b s0c s1a s1b s1c st kw) = 8%nat.
Proof. intros E. do 8 (destruct st as [|? st]; [discriminate|]). destruct st; [reflexivity|discriminate]. Qed.
Lemma compress_length wbits s0a s0b s0c s1a s1b s1c g0a g0b g0c g1a g1b g1c K h w : length h = 8%nat ->
  length (Sha2.compress wbits s0a s0b s0c s1a s1b s1c g0a g0b g0c g1a g1b g1c K h w) = 8%nat.
Proof.
  intros Hh. unfold Sha2.compress. rewrite map_length, combine_length.
  assert (Hf : forall kws st, length st = 8%nat -> length (fold_left (Sha2.step wbits s0a s0b s0c s1a s1b s1c) kws st) = 8%nat).
  { induction kws as [|kw kws IH]; intros st Hst; [exact Hst|]. cbn [fold_left]. apply IH. apply step_length. exact Hst. }
  rewrite Hf by exact Hh. rewrite Hh. reflexivity.
Qed.

(* ---------- the instance ---------- *)
Theorem real_hashes_laws : HashLaws real_hashes.
Proof.
  constructor; cbn [h_shake256 h_shake128 h_sha256 h_sha512 real_hashes].
  - intros m n. unfold Keccak.shake256, Keccak.shake256_N, Keccak.sponge. rewrite map_length. apply (sponge_length _ keccak_f_length); lia.
  - intros m n. unfold Keccak.shake128, Keccak.shake128_N, Keccak.sponge. rewrite map_length. apply (sponge_length _ keccak_f_length); lia.
  - intros m n k. unfold Keccak.shake256, Keccak.shake256_N, Keccak.sponge. rewrite firstn_map. f_equal. apply (sponge_prefix _ keccak_f_length); lia.
  - intros m n k. unfold Keccak.shake128, Keccak.shake128_N, Keccak.sponge. rewrite firstn_map. f_equal. apply (sponge_prefix _ keccak_f_length); lia.
  - intros m n. unfold Keccak.shake256, Keccak.shake256_N, Keccak.sponge. apply all_bytes_of_N, sponge_range.
  - intros m n. unfold Keccak.shake128, Keccak.shake128_N, Keccak.sponge. apply all_bytes_of_N, sponge_range.
  - intros m. unfold Sha2.sha256, Sha2.sha256_N. cbv zeta. rewrite map_length, flat_be_length.
    rewrite (blocks_length Sha2.compress256); [reflexivity| |reflexivity]. intros h w Hh. apply compress_length. exact Hh.
  - intros m. unfold Sha2.sha512, Sha2.sha512_N. cbv zeta. rewrite map_length, flat_be_length.
    rewrite (blocks_length Sha2.compress512); [reflexivity| |reflexivity]. intros h w Hh. apply compress_length. exact Hh.
  - intros m. unfold Sha2.sha256, Sha2.sha256_N. apply all_bytes_of_N, flat_be_range.
  - intros m. unfold Sha2.sha512, Sha2.sha512_N. apply all_bytes_of_N, flat_be_range.
Qed.
Print Assumptions real_hashes_laws.
