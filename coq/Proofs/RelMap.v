(* Relational versions of the monadic maps: a checked coefficient-wise operation carries a relation
   between machine values and specification values through vectors of polynomials. *)
Require Import List ZArith Lia. Import ListNotations.
Require Import F204.Base.Util F204.Base.Mach F204.Base.ListLemmas F204.Impl.Helpers.

Lemma mapM_rel {A B X Y} (f : A -> res B) (g : X -> Y) (RA : A -> X -> Prop) (RB : B -> Y -> Prop) :
  (forall a x, RA a x -> exists b, f a = Ok b /\ RB b (g x)) ->
  forall l xs, Forall2 RA l xs -> exists r, mapM f l = Ok r /\ Forall2 RB r (map g xs).
Proof.
  intros Hf l xs H. induction H as [|a x l xs Hax H (r & Er & Rr)].
  - exists []. split; [reflexivity|constructor].
  - destruct (Hf a x Hax) as (b & Eb & Rb). exists (b :: r). cbn [mapM map]. rewrite Eb. cbn [bind]. rewrite Er. cbn [bind].
    split; [reflexivity|constructor; assumption].
Qed.
Lemma mapM_rel_id {A B X} (f : A -> res B) (RA : A -> X -> Prop) (RB : B -> X -> Prop) :
  (forall a x, RA a x -> exists b, f a = Ok b /\ RB b x) ->
  forall l xs, Forall2 RA l xs -> exists r, mapM f l = Ok r /\ Forall2 RB r xs.
Proof.
  intros Hf l xs H. destruct (mapM_rel f (fun x => x) RA RB Hf l xs H) as (r & E & R). rewrite map_id in R. exists r. split; assumption.
Qed.
Lemma map2M_rel {A B C X Y W} (f : A -> B -> res C) (g : X -> Y -> W) (RA : A -> X -> Prop) (RB : B -> Y -> Prop) (RC : C -> W -> Prop) :
  (forall a b x y, RA a x -> RB b y -> exists c, f a b = Ok c /\ RC c (g x y)) ->
  forall l1 xs, Forall2 RA l1 xs -> forall l2 ys, Forall2 RB l2 ys -> exists r, map2M f l1 l2 = Ok r /\ Forall2 RC r (map2 g xs ys).
Proof.
  intros Hf l1 xs H1. induction H1 as [|a x l1 xs Hax H1 IH]; intros l2 ys H2.
  - exists []. split; [reflexivity|constructor].
  - destruct H2 as [|b y l2 ys Hby H2]; [exists []; split; [reflexivity|constructor]|].
    destruct (Hf a b x y Hax Hby) as (c & Ec & Rc). destruct (IH l2 ys H2) as (r & Er & Rr).
    exists (c :: r). cbn [map2M map2]. rewrite Ec. cbn [bind]. rewrite Er. cbn [bind]. split; [reflexivity|constructor; assumption].
Qed.
Lemma map3M_rel {A B C D X Y Z' W} (f : A -> B -> C -> res D) (g : X -> Y -> Z' -> W)
  (RA : A -> X -> Prop) (RB : B -> Y -> Prop) (RC : C -> Z' -> Prop) (RD : D -> W -> Prop) :
  (forall a b c x y z, RA a x -> RB b y -> RC c z -> exists d, f a b c = Ok d /\ RD d (g x y z)) ->
  forall l1 xs, Forall2 RA l1 xs -> forall l2 ys, Forall2 RB l2 ys -> forall l3 zs, Forall2 RC l3 zs ->
  exists r, map3M f l1 l2 l3 = Ok r /\ Forall2 RD r (map3 g xs ys zs).
Proof.
  intros Hf l1 xs H1. induction H1 as [|a x l1 xs Hax H1 IH]; intros l2 ys H2 l3 zs H3.
  - exists []. split; [reflexivity|constructor].
  - destruct H2 as [|b y l2 ys Hby H2]; [exists []; split; [reflexivity|constructor]|].
    destruct H3 as [|c z l3 zs Hcz H3]; [exists []; split; [reflexivity|constructor]|].
    destruct (Hf a b c x y z Hax Hby Hcz) as (d & Ed & Rd). destruct (IH l2 ys H2 l3 zs H3) as (r & Er & Rr).
    exists (d :: r). cbn [map3M map3]. rewrite Ed. cbn [bind]. rewrite Er. cbn [bind]. split; [reflexivity|constructor; assumption].
Qed.

(* vectors of polynomials *)
Lemma vmapM_rel {A B X Y} (f : A -> res B) (g : X -> Y) (RA : A -> X -> Prop) (RB : B -> Y -> Prop) :
  (forall a x, RA a x -> exists b, f a = Ok b /\ RB b (g x)) ->
  forall v xs, Forall2 (Forall2 RA) v xs -> exists r, mapM (mapM f) v = Ok r /\ Forall2 (Forall2 RB) r (map (map g) xs).
Proof. intros Hf. apply mapM_rel. intros p ps Hp. apply (mapM_rel f g RA RB Hf). exact Hp. Qed.
Lemma vmapM_rel_id {A B X} (f : A -> res B) (RA : A -> X -> Prop) (RB : B -> X -> Prop) :
  (forall a x, RA a x -> exists b, f a = Ok b /\ RB b x) ->
  forall v xs, Forall2 (Forall2 RA) v xs -> exists r, mapM (mapM f) v = Ok r /\ Forall2 (Forall2 RB) r xs.
Proof. intros Hf. apply mapM_rel_id. intros p ps Hp. apply (mapM_rel_id f RA RB Hf). exact Hp. Qed.
Lemma vmap2M_rel {A B C X Y W} (f : A -> B -> res C) (g : X -> Y -> W) (RA : A -> X -> Prop) (RB : B -> Y -> Prop) (RC : C -> W -> Prop) :
  (forall a b x y, RA a x -> RB b y -> exists c, f a b = Ok c /\ RC c (g x y)) ->
  forall l1 xs, Forall2 (Forall2 RA) l1 xs -> forall l2 ys, Forall2 (Forall2 RB) l2 ys ->
  exists r, map2M (map2M f) l1 l2 = Ok r /\ Forall2 (Forall2 RC) r (map2 (map2 g) xs ys).
Proof. intros Hf. apply map2M_rel. intros p p2 ps ps2 Hp Hp2. apply (map2M_rel f g RA RB RC Hf); assumption. Qed.
Lemma vmap3M_rel {A B C D X Y Z' W} (f : A -> B -> C -> res D) (g : X -> Y -> Z' -> W)
  (RA : A -> X -> Prop) (RB : B -> Y -> Prop) (RC : C -> Z' -> Prop) (RD : D -> W -> Prop) :
  (forall a b c x y z, RA a x -> RB b y -> RC c z -> exists d, f a b c = Ok d /\ RD d (g x y z)) ->
  forall l1 xs, Forall2 (Forall2 RA) l1 xs -> forall l2 ys, Forall2 (Forall2 RB) l2 ys -> forall l3 zs, Forall2 (Forall2 RC) l3 zs ->
  exists r, map3M (map3M f) l1 l2 l3 = Ok r /\ Forall2 (Forall2 RD) r (map3 (map3 g) xs ys zs).
Proof. intros Hf. apply map3M_rel. intros p p2 p3 ps ps2 ps3 Hp Hp2 Hp3. apply (map3M_rel f g RA RB RC RD Hf); assumption. Qed.

(* relation with equality on the right collapses to equality of lists *)
Lemma Forall2_eq {A} (l1 l2 : list A) : Forall2 eq l1 l2 -> l1 = l2.
Proof. intros H. induction H; [reflexivity|]. subst. reflexivity. Qed.
Lemma Forall2_eq2 {A} (l1 l2 : list (list A)) : Forall2 (Forall2 eq) l1 l2 -> l1 = l2.
Proof. intros H. induction H as [|a b l1 l2 Hab H IH]; [reflexivity|]. rewrite (Forall2_eq a b Hab), IH. reflexivity. Qed.
(* a unary predicate as a relation with itself *)
Lemma Forall_Forall2_diag {A} (P : A -> Prop) l : Forall P l -> Forall2 (fun a x => a = x /\ P a) l l.
Proof. intros H. induction H; constructor; auto. Qed.
Lemma Forall2_and {A B} (R S : A -> B -> Prop) l1 l2 : Forall2 R l1 l2 -> Forall2 S l1 l2 -> Forall2 (fun a b => R a b /\ S a b) l1 l2.
Proof. intros H. induction H; intros HS; inversion HS; subst; constructor; auto. Qed.
Lemma Forall2_Forall_l {A B} (R : A -> B -> Prop) (P : A -> Prop) l1 l2 : (forall a b, R a b -> P a) -> Forall2 R l1 l2 -> Forall P l1.
Proof. intros Hi H. induction H; constructor; eauto. Qed.
Lemma Forall2_map_r {A B C} (R : A -> C -> Prop) (g : B -> C) l1 l2 : Forall2 (fun a b => R a (g b)) l1 l2 -> Forall2 R l1 (map g l2).
Proof. intros H. induction H; cbn; constructor; auto. Qed.
Lemma Forall2_map_r_inv {A B C} (R : A -> C -> Prop) (g : B -> C) l1 l2 : Forall2 R l1 (map g l2) -> Forall2 (fun a b => R a (g b)) l1 l2.
Proof. revert l1. induction l2 as [|b l2 IH]; intros l1 H; inversion H; subst; constructor; auto. Qed.
