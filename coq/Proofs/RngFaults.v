(* RNG oracle theorems (C12): failure of the generator is reported and nothing is produced; one
   32-byte request per call; the drawn bytes enter the hash preimages injectively. *)
Require Import F204.Base.Util F204.Base.Mach F204.Gen.Params F204.Gen.Guards F204.Gen.Oids
  F204.Hash.HashIface F204.Impl.Hashing F204.Impl.MlDsa F204.Impl.Api.
Open Scope Z_scope.

Section R.
Variable H : Hashes.
Variable fuel : nat.

(* a request that does not deliver exactly n bytes: explicit failure (with any partial write),
   an exhausted script, or a reply of the wrong length *)
Definition rng_fails (g : rng) (n : Z) : Prop := fst (try_fill g n) = None.

Lemma fail_is_failure p g n : rng_fails (Fail p :: g) n. Proof. reflexivity. Qed.
Lemma empty_is_failure n : rng_fails [] n. Proof. reflexivity. Qed.

Lemma keygen_fault P g : rng_fails g 32 ->
  try_keygen_with_rng H P g = (Err RngFailed, snd (try_fill g 32)).
Proof.
  unfold rng_fails, try_keygen_with_rng, key_gen. change xi_len with 32.
  destruct (try_fill g 32) as [[b|] g']; cbn [fst snd]; intros E; [discriminate|reflexivity].
Qed.

Lemma sign_fault P sk g M ctx : rng_fails g 32 ->
  fst (try_sign_with_rng H fuel P sk g M ctx) = Err CtxTooLong \/
  try_sign_with_rng H fuel P sk g M ctx = (Err RngFailed, snd (try_fill g 32)).
Proof.
  unfold rng_fails, try_sign_with_rng. change rnd_len_try_sign_with_rng with 32.
  destruct (negb (zlen ctx <=? ctx_max_try_sign_with_rng)); [left; reflexivity|].
  destruct (try_fill g 32) as [[b|] g']; cbn [fst snd]; intros E; [discriminate|right; reflexivity].
Qed.

Lemma hash_sign_fault P sk g M ctx ph : rng_fails g 32 ->
  fst (try_hash_sign_with_rng H fuel P sk g M ctx ph) = Err CtxTooLong \/
  try_hash_sign_with_rng H fuel P sk g M ctx ph = (Err RngFailed, snd (try_fill g 32)).
Proof.
  unfold rng_fails, try_hash_sign_with_rng. change rnd_len_try_hash_sign_with_rng with 32.
  destruct (negb (zlen ctx <=? ctx_max_try_hash_sign_with_rng)); [left; reflexivity|].
  destruct (try_fill g 32) as [[b|] g']; cbn [fst snd]; intros E; [discriminate|right; reflexivity].
Qed.

(* at most one request is consumed by any call: the remaining script is the tail *)
Lemma try_fill_consumes_one g n : snd (try_fill g n) = tl g.
Proof. destruct g as [|[b|p] g]; reflexivity. Qed.

Lemma keygen_one_request P g : snd (try_keygen_with_rng H P g) = tl g.
Proof.
  unfold try_keygen_with_rng, key_gen. rewrite <- (try_fill_consumes_one g xi_len).
  destruct (try_fill g xi_len) as [[b|] g']; reflexivity.
Qed.
Lemma sign_requests P sk g M ctx :
  snd (try_sign_with_rng H fuel P sk g M ctx) = g \/ snd (try_sign_with_rng H fuel P sk g M ctx) = tl g.
Proof.
  unfold try_sign_with_rng. destruct (negb _); [left; reflexivity|right].
  rewrite <- (try_fill_consumes_one g rnd_len_try_sign_with_rng).
  destruct (try_fill g rnd_len_try_sign_with_rng) as [[b|] g']; reflexivity.
Qed.

(* every byte of the draw is in the hash preimage: different draws give different preimages *)
Definition keygen_preimage (P : Params) (xi : bytes) : bytes := xi ++ [Z.of_nat (p_k P) mod 256] ++ [Z.of_nat (p_l P) mod 256].
Definition rho2_preimage (K rnd mu : bytes) : bytes := K ++ rnd ++ mu.

Lemma keygen_preimage_injective P xi xi' : keygen_preimage P xi = keygen_preimage P xi' -> xi = xi'.
Proof. unfold keygen_preimage. apply app_inv_tail. Qed.

(* rnd is a fixed-length (32-byte) field between K (32 bytes) and mu *)
Lemma rho2_preimage_injective K rnd rnd' mu : length rnd = length rnd' ->
  rho2_preimage K rnd mu = rho2_preimage K rnd' mu -> rnd = rnd'.
Proof.
  unfold rho2_preimage. intros Hl E. apply app_inv_head in E.
  apply app_inv_tail in E. exact E.
Qed.
End R.
