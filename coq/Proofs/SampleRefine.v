(* The rejection samplers and SampleInBall of hashing.rs equal FIPS 204 Algorithms 29-32 (Spec/SpecSample.v)
   on every XOF output; running out of the finite XOF prefix (OutOfFuel / None) coincides too. *)
Require Import F204.Base.Util F204.Base.Mach F204.Base.Bits F204.Base.ListLemmas F204.Gen.Params F204.Hash.HashIface
  F204.Impl.Helpers F204.Impl.Conversion F204.Impl.Encodings F204.Impl.Hashing
  F204.Spec.SpecConv F204.Spec.SpecSample F204.Proofs.KernelLemmas F204.Proofs.HintProofs.
Open Scope Z_scope.
Arguments Z.mul : simpl never.
Arguments Z.add : simpl never.
Arguments Z.sub : simpl never.

(* outcome correspondence between the model monad and the specification's option *)
Definition res_fuel {A} (o : option A) : res A := match o with Some a => Ok a | None => OutOfFuel end.

(* ---------- Algorithm 30 ---------- *)
Lemma rej_ntt_loop_spec_n : forall n s need acc, (length s <= n)%nat -> bytes_ok s ->
  rej_ntt_loop false s need acc = res_fuel (RejNTTPoly_loop s need acc).
Proof.
  induction n as [|n IH]; intros s need acc Hn Hb.
  - destruct s; [|cbn in Hn; lia]. destruct need; reflexivity.
  - destruct need as [|need'].
    + destruct s; reflexivity.
    + destruct s as [|b0 [|b1 [|b2 r]]]; try reflexivity.
      inversion Hb as [|? ? H0 Hb1]; subst. inversion Hb1 as [|? ? H1 Hb2]; subst. inversion Hb2 as [|? ? H2 Hb3]; subst.
      cbn [rej_ntt_loop RejNTTPoly_loop]. rewrite coeff_from_three_bytes_spec by assumption.
      destruct (CoeffFromThreeBytes b0 b1 b2) as [z|]; cbn [res_of_option]; apply IH; try assumption; cbn in Hn; lia.
Qed.
Lemma rej_ntt_loop_spec s need acc : bytes_ok s -> rej_ntt_loop false s need acc = res_fuel (RejNTTPoly_loop s need acc).
Proof. apply (rej_ntt_loop_spec_n (length s)). lia. Qed.

Lemma with_fuel_first_some {A} (f : nat -> res A) (g : nat -> option A) fuels :
  (forall n, f n = res_fuel (g n)) -> with_fuel f fuels = res_fuel (first_some g fuels).
Proof.
  intros Hfg. induction fuels as [|n fuels IH]; [reflexivity|]. cbn [with_fuel first_some]. rewrite Hfg.
  destruct (g n); cbn [res_fuel]; [reflexivity|exact IH].
Qed.

Section S.
Variable H : Hashes.
Hypothesis HL : HashLaws H.

Lemma shake128_ok m n : bytes_ok (h_shake128 H m n).
Proof.
  pose proof (shake128_bytes H HL m n) as Hb. unfold all_bytes in Hb. rewrite forallb_forall in Hb.
  apply Forall_forall. intros b Hin. specialize (Hb b Hin). unfold is_byte in Hb. apply andb_prop in Hb as [B1 B2].
  apply Z.leb_le in B1. apply Z.ltb_lt in B2. lia.
Qed.
Lemma shake256_ok m n : bytes_ok (h_shake256 H m n).
Proof.
  pose proof (shake256_bytes H HL m n) as Hb. unfold all_bytes in Hb. rewrite forallb_forall in Hb.
  apply Forall_forall. intros b Hin. specialize (Hb b Hin). unfold is_byte in Hb. apply andb_prop in Hb as [B1 B2].
  apply Z.leb_le in B1. apply Z.ltb_lt in B2. lia.
Qed.

Theorem rej_ntt_poly_spec seed : zlen seed = 34 -> rej_ntt_poly H false seed = res_fuel (RejNTTPoly H seed).
Proof.
  intros Hl. unfold rej_ntt_poly, RejNTTPoly. rewrite Hl. cbn [guard bind Z.eqb Pos.eqb].
  apply with_fuel_first_some. intros n. apply rej_ntt_loop_spec. apply shake128_ok.
Qed.

(* Algorithm 32 *)
Lemma mapM_res_fuel {A B} (f : A -> res B) (g : A -> option B) l :
  (forall a, In a l -> f a = res_fuel (g a)) -> mapM f l = res_fuel (option_all (map g l)).
Proof.
  induction l as [|a l IH]; intros Hfg; [reflexivity|]. cbn [mapM map option_all].
  rewrite (Hfg a (or_introl eq_refl)). destruct (g a) as [b|]; cbn [res_fuel bind]; [|reflexivity].
  rewrite IH by (intros x Hx; apply Hfg; right; exact Hx). destruct (option_all (map g l)); reflexivity.
Qed.

Theorem expand_a_spec P rho : In P all_params -> zlen rho = 32 -> expand_a H false P rho = res_fuel (ExpandA H P rho).
Proof.
  intros HP Hl. unfold expand_a, ExpandA. apply mapM_res_fuel. intros r Hr. apply mapM_res_fuel. intros s Hs.
  apply in_seq in Hr, Hs.
  assert (Hk : (p_k P <= 8)%nat /\ (p_l P <= 7)%nat) by (destruct HP as [<-|[<-|[<-|[]]]]; cbn; lia).
  cbn [IntegerToBytes]. rewrite !(Z.mod_small _ 256) by lia.
  apply rej_ntt_poly_spec. unfold zlen in *. rewrite !app_length. cbn [length]. lia.
Qed.
End S.
