(* sample_in_ball of hashing.rs (normal mode) equals FIPS 204 SampleInBall (Alg 29) on every XOF output,
   and its two hamming-weight self-checks never fire. *)
Require Import F204.Base.Util F204.Base.Mach F204.Base.Bits F204.Base.ListLemmas F204.Gen.Params F204.Hash.HashIface
  F204.Impl.Helpers F204.Impl.Conversion F204.Impl.Hashing
  F204.Spec.SpecConv F204.Spec.SpecSample F204.Proofs.HintProofs F204.Proofs.SampleRefine.
Open Scope Z_scope.
Arguments Z.mul : simpl never.
Arguments Z.add : simpl never.
Arguments Z.sub : simpl never.

(* ---------- list updates and additive measures ---------- *)
Lemma nth_upd_same (l : list Z) n v : (n < length l)%nat -> nth n (upd l n v) 0 = v.
Proof. revert n. induction l as [|x l IH]; intros [|n] H; cbn in *; try lia; try reflexivity. apply IH; lia. Qed.
Lemma nth_upd_other (l : list Z) n m v : n <> m -> nth m (upd l n v) 0 = nth m l 0.
Proof.
  revert n m. induction l as [|x l IH]; intros [|n] [|m] H; cbn; try reflexivity; try lia. apply IH. lia.
Qed.
Lemma upd_length (l : list Z) n v : length (upd l n v) = length l.
Proof. revert n. induction l as [|x l IH]; intros [|n]; cbn; try reflexivity. rewrite IH. reflexivity. Qed.

Definition measure (g : Z -> Z) (l : list Z) : Z := sumZ (map g l).
Lemma measure_upd g (l : list Z) n v : (n < length l)%nat -> measure g (upd l n v) = measure g l - g (nth n l 0) + g v.
Proof.
  unfold measure. revert n. induction l as [|x l IH]; intros [|n] H; cbn [length] in H; try lia; cbn [upd map sumZ fold_right nth].
  - fold (sumZ (map g l)). lia.
  - fold (sumZ (map g (upd l n v))). fold (sumZ (map g l)). rewrite IH by lia. lia.
Qed.

Lemma znth_zupd_same (l : list Z) i v : 0 <= i < zlen l -> znth (zupd l i v) i = v.
Proof. intros H. unfold znth, zupd, zlen in *. apply nth_upd_same. lia. Qed.
Lemma znth_zupd_other (l : list Z) i j v : 0 <= i -> 0 <= j -> i <> j -> znth (zupd l i v) j = znth l j.
Proof. intros Hi Hj H. unfold znth, zupd. apply nth_upd_other. lia. Qed.
Lemma zlen_zupd (l : list Z) i v : zlen (zupd l i v) = zlen l.
Proof. unfold zlen, zupd. rewrite upd_length. reflexivity. Qed.
Lemma measure_zupd g (l : list Z) i v : 0 <= i < zlen l -> measure g (zupd l i v) = measure g l - g (znth l i) + g v.
Proof. intros H. unfold zupd, znth, zlen in *. apply measure_upd. lia. Qed.

(* ---------- squeezing an index ---------- *)
Lemma sib_find_spec i s : sib_find i s = res_fuel (sib_squeeze i s).
Proof. induction s as [|j r IH]; cbn [sib_find sib_squeeze]; [reflexivity|]. destruct (i <? j); [exact IH|reflexivity]. Qed.
Lemma sib_squeeze_range i s j s' : bytes_ok s -> sib_squeeze i s = Some (j, s') -> 0 <= j <= i /\ bytes_ok s'.
Proof.
  intros Hb. induction Hb as [|x s Hx Hb IH]; cbn [sib_squeeze]; [discriminate|].
  destruct (i <? x) eqn:E; [exact IH|]. apply Z.ltb_ge in E. intros Eq. injection Eq as <- <-. split; [lia|exact Hb].
Qed.

(* ---------- the sign bits ---------- *)
Definition bit_ok (byte j : Z) : bool := Z.land (shr byte j) 1 =? Z.b2z (nth (Z.to_nat j) (IntegerToBits byte 8) false).
Lemma bit_sweep : forallb (fun byte => forallb (bit_ok byte) (map Z.of_nat (seq 0 8))) (map Z.of_nat (seq 0 256)) = true.
Proof. vm_compute. reflexivity. Qed.
Lemma bit_of_byte byte j : 0 <= byte < 256 -> 0 <= j < 8 ->
  Z.land (shr byte j) 1 = Z.b2z (nth (Z.to_nat j) (IntegerToBits byte 8) false).
Proof.
  intros Hb Hj. apply Z.eqb_eq.
  assert (H1 : In byte (map Z.of_nat (seq 0 256))) by (apply in_map_iff; exists (Z.to_nat byte); split; [lia|apply in_seq; lia]).
  assert (H2 : In j (map Z.of_nat (seq 0 8))) by (apply in_map_iff; exists (Z.to_nat j); split; [lia|apply in_seq; lia]).
  pose proof (proj1 (forallb_forall _ _) bit_sweep byte H1) as Hs. exact (proj1 (forallb_forall _ _) Hs j H2).
Qed.
Lemma itb8_length x : length (IntegerToBits x 8) = 8%nat. Proof. reflexivity. Qed.
Lemma nth_bytes_to_bits : forall (v : list Z) (i j : nat), (i < length v)%nat -> (j < 8)%nat ->
  nth (8 * i + j) (BytesToBits v) false = nth j (IntegerToBits (nth i v 0) 8) false.
Proof.
  unfold BytesToBits. induction v as [|b v IH]; intros i j Hi Hj; [cbn in Hi; lia|].
  cbn [flat_map]. destruct i as [|i].
  - rewrite app_nth1 by (rewrite itb8_length; lia). replace (8 * 0 + j)%nat with j by lia. reflexivity.
  - rewrite app_nth2 by (rewrite itb8_length; lia). rewrite itb8_length.
    replace (8 * S i + j - 8)%nat with (8 * i + j)%nat by lia. cbn [nth]. apply IH; [cbn in Hi; lia|exact Hj].
Qed.

Lemma sign_bit (h8 : list Z) index : bytes_ok h8 -> zlen h8 = 8 -> 0 <= index < 64 ->
  Z.land (shr (znth h8 (index / 8)) (Z.land index 7)) 1 = Z.b2z (nth (Z.to_nat index) (BytesToBits h8) false).
Proof.
  intros Hb Hl Hi. change 7 with (Z.ones 3). rewrite Z.land_ones by lia. change (2 ^ 3) with 8.
  rewrite bit_of_byte; [|apply znth_range; [exact Hb|lia]|apply Z.mod_pos_bound; lia].
  f_equal. replace (Z.to_nat index) with (8 * Z.to_nat (index / 8) + Z.to_nat (index mod 8))%nat by lia.
  rewrite nth_bytes_to_bits; [reflexivity|unfold zlen in Hl; lia|lia].
Qed.

(* ---------- one step, and the loop, with the weight invariant ---------- *)
Definition g_nz (e : Z) : Z := if e =? 0 then 0 else 1.
Definition g_odd (e : Z) : Z := Z.land e 1.

Definition sib_inv (tau : Z) (c : list Z) (f : Z) : Prop :=
  zlen c = 256 /\ (forall p, f <= p < 256 -> znth c p = 0) /\
  measure g_nz c = f - (256 - tau) /\ measure g_odd c = f - (256 - tau).

Lemma sib_step_spec tau h8 c s i :
  bytes_ok h8 -> zlen h8 = 8 -> 0 <= tau <= 64 -> 256 - tau <= i <= 255 -> bytes_ok s -> sib_inv tau c i ->
  match sib_squeeze i s with
  | None => sib_step false tau h8 (c, s) i = OutOfFuel
  | Some (j, s') =>
      let sign := if nth (Z.to_nat (i + tau - 256)) (BytesToBits h8) false then (-1) else 1 in
      let c' := zupd (zupd c i (znth c j)) j sign in
      sib_step false tau h8 (c, s) i = Ok (c', s') /\ sib_inv tau c' (i + 1) /\ bytes_ok s'
  end.
Proof.
  intros Hh Hhl Htau Hi Hs (Hlc & Hz & Ma & Mb). unfold sib_step. rewrite sib_find_spec.
  destruct (sib_squeeze i s) as [[j s']|] eqn:Esq; cbn [res_fuel bind]; [|reflexivity].
  destruct (sib_squeeze_range i s j s' Hs Esq) as [Hj Hs'].
  rewrite (get_byte_ok c j) by lia. cbn [bind].
  replace (i <? zlen c) with true by (symmetry; apply Z.ltb_lt; lia). cbn [guard bind].
  rewrite (get_byte_ok h8 ((i + tau - 256) / 8)) by lia. cbn [bind].
  rewrite sign_bit by (try assumption; lia).
  set (bit := nth (Z.to_nat (i + tau - 256)) (BytesToBits h8) false).
  unfold mul32, sub32. rewrite chk32_ok by (unfold i32_min, i32_max; destruct bit; cbn; lia). cbn [bind].
  rewrite chk32_ok by (unfold i32_min, i32_max; destruct bit; cbn; lia). cbn [bind].
  assert (Esign : 1 - 2 * Z.b2z bit = (if bit then -1 else 1)) by (destruct bit; reflexivity).
  rewrite Esign. set (sign := if bit then -1 else 1). split; [reflexivity|]. split; [|exact Hs'].
  assert (Hci : znth c i = 0) by (apply Hz; lia).
  assert (Hgs_a : g_nz sign = 1) by (unfold sign; destruct bit; reflexivity).
  assert (Hgs_b : g_odd sign = 1) by (unfold sign; destruct bit; reflexivity).
  set (c1 := zupd c i (znth c j)).
  assert (Hl1 : zlen c1 = 256) by (unfold c1; rewrite zlen_zupd; exact Hlc).
  assert (Hc1j : znth c1 j = znth c j).
  { unfold c1. destruct (Z.eq_dec i j) as [->|Hne]; [apply znth_zupd_same; lia|apply znth_zupd_other; lia]. }
  repeat split.
  - rewrite zlen_zupd. exact Hl1.
  - intros p Hp. rewrite znth_zupd_other by lia. unfold c1. rewrite znth_zupd_other by lia. apply Hz. lia.
  - rewrite measure_zupd by lia. rewrite Hc1j. unfold c1. rewrite measure_zupd by lia. rewrite Hci. change (g_nz 0) with 0. lia.
  - rewrite measure_zupd by lia. rewrite Hc1j. unfold c1. rewrite measure_zupd by lia. rewrite Hci. change (g_odd 0) with 0. lia.
Qed.

Lemma sib_loop_spec tau h8 : bytes_ok h8 -> zlen h8 = 8 -> 0 <= tau <= 64 ->
  forall (n : nat) i c s, i + Z.of_nat n = 256 -> 256 - tau <= i -> bytes_ok s -> sib_inv tau c i ->
  match SampleInBall_loop tau (BytesToBits h8) (map (fun k => i + Z.of_nat k) (seq 0 n)) c s with
  | None => foldM (sib_step false tau h8) (map (fun k => i + Z.of_nat k) (seq 0 n)) (c, s) = OutOfFuel
  | Some c' => exists s', foldM (sib_step false tau h8) (map (fun k => i + Z.of_nat k) (seq 0 n)) (c, s) = Ok (c', s')
                          /\ sib_inv tau c' 256
  end.
Proof.
  intros Hh Hhl Htau. induction n as [|n IH]; intros i c s Hin Hi Hs Hinv.
  - cbn [seq map SampleInBall_loop foldM]. exists s. replace i with 256 in Hinv by lia. split; [reflexivity|exact Hinv].
  - cbn [seq map SampleInBall_loop foldM]. replace (i + Z.of_nat 0) with i by lia.
    pose proof (sib_step_spec tau h8 c s i Hh Hhl Htau ltac:(lia) Hs Hinv) as Hst.
    destruct (sib_squeeze i s) as [[j s1]|]; [|rewrite Hst; reflexivity].
    cbv zeta in Hst. destruct Hst as (E & Hinv' & Hs1). rewrite E. cbn [bind].
    rewrite <- seq_shift, map_map.
    assert (Hm : map (fun k => i + Z.of_nat (S k)) (seq 0 n) = map (fun k => (i + 1) + Z.of_nat k) (seq 0 n)) by (apply map_ext; intros; lia).
    rewrite Hm. apply IH; try assumption; lia.
Qed.

Lemma filter_nz_measure (c : list Z) : zlen (filter (fun e => negb (e =? 0)) c) = measure g_nz c.
Proof.
  unfold measure, zlen. induction c as [|x c IH]; [reflexivity|]. cbn [filter map sumZ fold_right]. unfold g_nz at 1.
  destruct (x =? 0); cbn [negb length]; fold (sumZ (map g_nz c)); lia.
Qed.

Theorem sample_in_ball_from_spec tau stream : 0 <= tau <= 64 -> bytes_ok stream ->
  sample_in_ball_from false tau stream = res_fuel (SampleInBall_from tau stream).
Proof.
  intros Htau Hb. unfold sample_in_ball_from, SampleInBall_from.
  replace (0 <=? tau) with true by (symmetry; apply Z.leb_le; lia).
  replace (tau <=? 256) with true by (symmetry; apply Z.leb_le; lia). cbn [guard bind].
  destruct (zlen stream <? 8) eqn:El; cbn [bind]; [reflexivity|]. apply Z.ltb_ge in El.
  set (h8 := ztake 8 stream).
  assert (Hh : bytes_ok h8) by (unfold h8, ztake; apply Forall_firstn; exact Hb).
  assert (Hhl : zlen h8 = 8) by (unfold h8, ztake, zlen in *; rewrite firstn_length; lia).
  assert (Hinv0 : sib_inv tau (zeros 256) (256 - tau)).
  { unfold sib_inv. repeat split.
    - intros p Hp. unfold znth, zeros. apply nth_repeat.
    - unfold measure, zeros. replace (256 - tau - (256 - tau)) with 0 by lia. generalize 256%nat. induction n; [reflexivity|cbn; exact IHn].
    - unfold measure, zeros. replace (256 - tau - (256 - tau)) with 0 by lia. generalize 256%nat. induction n; [reflexivity|cbn; exact IHn]. }
  pose proof (sib_loop_spec tau h8 Hh Hhl Htau (Z.to_nat tau) (256 - tau) (zeros 256) (zdrop 8 stream) ltac:(lia) ltac:(lia)
                ltac:(unfold zdrop; apply Forall_skipn; exact Hb) Hinv0) as Hloop.
  destruct (SampleInBall_loop tau (BytesToBits h8) (map (fun k => 256 - tau + Z.of_nat k) (seq 0 (Z.to_nat tau))) (zeros 256) (zdrop 8 stream)) as [c'|].
  - destruct Hloop as (s' & E & (Hl & _ & Ma & Mb)). rewrite E. cbn [bind].
    rewrite filter_nz_measure, Ma. replace (256 - (256 - tau) =? tau) with true by (symmetry; apply Z.eqb_eq; lia). cbn [guard bind].
    change (sumZ (map (fun e => Z.land e 1) c')) with (measure g_odd c'). rewrite Mb. replace (256 - (256 - tau) =? tau) with true by (symmetry; apply Z.eqb_eq; lia). reflexivity.
  - rewrite Hloop. reflexivity.
Qed.

Section S.
Variable H : Hashes.
Hypothesis HL : HashLaws H.
Theorem sample_in_ball_spec tau rho : 0 <= tau <= 64 -> sample_in_ball H false tau rho = res_fuel (SampleInBall H tau rho).
Proof.
  intros Htau. unfold sample_in_ball, SampleInBall. apply with_fuel_first_some. intros n.
  apply sample_in_ball_from_spec; [exact Htau|apply (shake256_ok H HL)].
Qed.
End S.

(* ---------- shape of the specification's sampler outputs ---------- *)
Lemma upd_small (c : list Z) n v : Z.abs v <= 1 -> Forall (fun x => Z.abs x <= 1) c -> Forall (fun x => Z.abs x <= 1) (upd c n v).
Proof.
  intros Hv. revert n. induction c as [|x c IH]; intros n H; [destruct n; constructor|].
  inversion H; subst. destruct n; cbn; constructor; auto.
Qed.
Lemma nth_small (c : list Z) n : Forall (fun x => Z.abs x <= 1) c -> Z.abs (nth n c 0) <= 1.
Proof.
  revert n. induction c as [|x c IH]; intros n H; [destruct n; cbn; lia|].
  inversion H; subst. destruct n; cbn; auto.
Qed.
Lemma SampleInBall_loop_shape tau hbits : forall is c s c',
  length c = 256%nat -> Forall (fun x => Z.abs x <= 1) c -> SampleInBall_loop tau hbits is c s = Some c' ->
  length c' = 256%nat /\ Forall (fun x => Z.abs x <= 1) c'.
Proof.
  induction is as [|i is IH]; intros c s c' Hl Hs E; cbn [SampleInBall_loop] in E.
  - injection E as <-. split; assumption.
  - destruct (sib_squeeze i s) as [[j s']|]; [|discriminate].
    apply IH in E; [exact E| |].
    + unfold zupd. rewrite !upd_length. exact Hl.
    + unfold zupd. apply upd_small; [destruct (nth _ hbits false); cbn; lia|]. apply upd_small; [|exact Hs]. unfold znth. apply nth_small. exact Hs.
Qed.
Lemma first_some_inv {A} (f : nat -> option A) fuels a : first_some f fuels = Some a -> exists n, f n = Some a.
Proof. induction fuels as [|n r IH]; cbn; [discriminate|]. destruct (f n) eqn:E; [intros Eq; injection Eq as <-; exists n; exact E|exact IH]. Qed.
Lemma SampleInBall_shape H tau rho c : SampleInBall H tau rho = Some c -> length c = 256%nat /\ Forall (fun x => Z.abs x <= 1) c.
Proof.
  unfold SampleInBall. intros E. apply first_some_inv in E as (n & E). unfold SampleInBall_from in E.
  destruct (zlen _ <? 8); [discriminate|]. apply SampleInBall_loop_shape in E; [exact E|apply repeat_length|].
  apply Forall_forall. intros x Hx. apply repeat_spec in Hx. subst. cbn. lia.
Qed.

Lemma RejNTTPoly_loop_shape : forall n s need acc r, (length s <= n)%nat -> bytes_ok s ->
  Forall (fun x => 0 <= x < Q) acc -> RejNTTPoly_loop s need acc = Some r ->
  Forall (fun x => 0 <= x < Q) r /\ length r = (length acc + need)%nat.
Proof.
  induction n as [|n IH]; intros s need acc r Hn Hb Hacc E.
  - destruct s; [|cbn in Hn; lia]. destruct need; cbn in E; [|discriminate]. injection E as <-. split; [apply Forall_rev; exact Hacc|rewrite rev_length; lia].
  - destruct need as [|need'].
    + destruct s; cbn in E; injection E as <-; (split; [apply Forall_rev; exact Hacc|rewrite rev_length; lia]).
    + destruct s as [|b0 [|b1 [|b2 t]]]; cbn [RejNTTPoly_loop] in E; try discriminate.
      inversion Hb as [|? ? H0 Hb1]; subst. inversion Hb1 as [|? ? H1 Hb2]; subst. inversion Hb2 as [|? ? H2 Hb3]; subst.
      unfold CoeffFromThreeBytes in E.
      destruct (65536 * (if 127 <? b2 then b2 - 128 else b2) + 256 * b1 + b0 <? q) eqn:Eq.
      * apply IH in E; [|cbn in Hn; lia|exact Hb3|].
        -- destruct E as [E1 E2]. split; [exact E1|cbn [length] in E2; lia].
        -- constructor; [|exact Hacc]. apply Z.ltb_lt in Eq. unfold q in Eq. split; [|exact Eq]. destruct (127 <? b2) eqn:E7; [apply Z.ltb_lt in E7|]; lia.
      * apply IH in E; [exact E|cbn in Hn; lia|exact Hb3|exact Hacc].
Qed.

Section Shapes.
Variable H : Hashes.
Hypothesis HL : HashLaws H.
Lemma RejNTTPoly_shape seed r : RejNTTPoly H seed = Some r -> Forall (fun x => 0 <= x < Q) r /\ length r = 256%nat.
Proof.
  unfold RejNTTPoly. intros E. apply first_some_inv in E as (n & E).
  apply (RejNTTPoly_loop_shape (length (h_shake128 H seed n))) in E; [exact E|lia|apply (shake128_ok H HL)|constructor].
Qed.
Lemma option_all_map_inv {A B} (g : A -> option B) (l : list A) r : option_all (map g l) = Some r -> Forall2 (fun x b => g x = Some b) l r.
Proof.
  revert r. induction l as [|x l IH]; intros r E; cbn in E; [injection E as <-; constructor|].
  destruct (g x) as [b|] eqn:Eg; [|discriminate]. destruct (option_all (map g l)) as [rs|]; [|discriminate]. injection E as <-. constructor; [exact Eg|apply IH; reflexivity].
Qed.
Lemma ExpandA_shape P rho A : ExpandA H P rho = Some A ->
  length A = p_k P /\ Forall (fun row => Forall (fun p => Forall (fun x => 0 <= x < Q) p) row /\ length row = p_l P /\ Forall (fun p => length p = 256%nat) row) A.
Proof.
  unfold ExpandA. intros E. apply option_all_map_inv in E.
  split; [apply Forall2_length in E; rewrite seq_length in E; lia|].
  induction E as [|r row rs A Hrow E IH]; constructor; [|exact IH].
  apply option_all_map_inv in Hrow.
  split; [|split; [apply Forall2_length in Hrow; rewrite seq_length in Hrow; lia|]].
  - clear - Hrow HL. induction Hrow as [|s p ss row Hp Hrow IHr]; constructor; [|exact IHr]. apply RejNTTPoly_shape in Hp. apply Hp.
  - clear - Hrow HL. induction Hrow as [|s p ss row Hp Hrow IHr]; constructor; [|exact IHr]. apply RejNTTPoly_shape in Hp. apply Hp.
Qed.
End Shapes.
