(* Signatures are canonical: every byte string that sig_decode accepts re-encodes to itself (C08), and a
   signature built by sig_encode decodes to its components (used for C01). *)
Require Import List ZArith Lia Bool. Import ListNotations.
Require Import F204.Spec.SpecConv.
Require Import F204.Base.Util F204.Base.Mach F204.Base.ListLemmas F204.Gen.Params F204.Impl.Helpers F204.Impl.Conversion F204.Impl.Encodings
  F204.Proofs.BitPackProofs F204.Proofs.SkDecodeProofs F204.Proofs.HintProofs F204.Proofs.DecodeRefine F204.Proofs.VerifyParts
  F204.Proofs.KeyRoundTrip F204.Proofs.HintPack F204.Proofs.HintCanon.
Open Scope Z_scope.
Ltac Zify.zify_post_hook ::= Z.div_mod_to_equations.
Arguments Z.mul : simpl never. Arguments Z.add : simpl never. Arguments Z.sub : simpl never.

Lemma res_of_opt_Ok {A} (o : option A) a : res_of_opt o = Ok a -> o = Some a.
Proof. destruct o; cbn; [intros [= ->]; reflexivity|discriminate]. Qed.

Theorem sig_reencode P sigma c z h : In P all_params -> BitPackProofs.bytes_ok sigma -> zlen sigma = p_sig_len P ->
  sig_decode P sigma = Ok (c, z, h) -> sig_encode false P c z h = Ok sigma.
Proof.
  intros HP Hb Hlen Hd. destruct (sig_params P HP) as (Hg & Hform & Hl & Hk & Hom & Homk & Hld).
  unfold sig_decode in Hd. rewrite Hform, Z.eqb_refl in Hd. cbn [guard bind] in Hd.
  set (g1 := p_gamma1 P) in *. set (ld4 := p_lambda_div4 P) in *.
  assert (Hab : valid_ab (g1 - 1) g1) by (unfold valid_ab; destruct Hg as [E|E]; rewrite E; lia).
  assert (Hstep : 32 * (Helpers.bitlen (g1 - 1) + 1) = 32 * Helpers.bitlen (g1 - 1 + g1)) by (destruct Hg as [E|E]; rewrite E; reflexivity).
  assert (Hstep' : 32 * (1 + Helpers.bitlen (g1 - 1)) = 32 * Helpers.bitlen (g1 - 1 + g1)) by (destruct Hg as [E|E]; rewrite E; reflexivity).
  rewrite Hstep in Hd. set (st := 32 * Helpers.bitlen (g1 - 1 + g1)) in *.
  assert (Hst : st = 576 \/ st = 640) by (unfold st; destruct Hg as [E|E]; rewrite E; [left|right]; reflexivity).
  assert (Hsl : zlen sigma = ld4 + lz P * st + p_omega P + kz P).
  { rewrite Hlen, Hform. unfold sig_len_formula. fold g1 ld4. rewrite <- (Z.mul_assoc (lz P) 32), Hstep'. fold st. rewrite Z.abs_eq by lia. lia. }
  match type of Hd with context [mapM ?f (seq 0 (p_l P))] => destruct (mapM f (seq 0 (p_l P))) as [z'| | |] eqn:E1; cbn [bind] in Hd; try discriminate end.
  destruct (hint_bit_unpack (p_k P) (p_omega P) (zdrop (ld4 + lz P * st) sigma)) as [h'| | |] eqn:E2; cbn [bind] in Hd; try discriminate.
  injection Hd as <- <- <-.
  destruct (section_roundtrip sigma ld4 (g1 - 1) g1 (p_l P) z' Hab Hb E1) as (P1 & R1 & L1). fold st in P1.
  set (y := zdrop (ld4 + lz P * st) sigma) in *.
  assert (Hyl : zlen y = p_omega P + Z.of_nat (p_k P)).
  { unfold y, zdrop, zlen in *. rewrite skipn_length. unfold lz, kz in *. destruct Hst as [E|E]; rewrite E in *; lia. }
  assert (Hyb : HintProofs.bytes_ok y) by (unfold y, zdrop; apply Forall_skipn; exact Hb).
  rewrite (hint_bit_unpack_spec (p_k P) (p_omega P) y Hom Homk Hyl Hyb) in E2. apply res_of_opt_Ok in E2.
  destruct (HintBitUnpack_shape (p_omega P) (p_k P) y h' Hom Hyb Hyl E2) as [Rh Hw].
  pose proof (HintBitPack_Unpack (p_omega P) (p_k P) y h' Hom Hyb Hyl E2) as Hpack.
  unfold sig_encode. fold g1 ld4. rewrite (in_range_vec _ _ _ R1), (in_range_vec _ _ _ (proj1 Rh)), Hform, Z.eqb_refl. cbn [guard bind].
  rewrite Hstep'. fold st. rewrite P1. cbn [bind].
  replace (sig_len_formula P - (ld4 + lz P * st)) with (p_omega P + Z.of_nat (p_k P)).
  2:{ rewrite <- Hform, <- Hlen, Hsl. unfold kz. lia. }
  rewrite (hint_bit_pack_spec (p_omega P) (p_k P) h' Hom Homk Rh Hw). cbn [bind]. rewrite Hpack. f_equal.
  rewrite concat_chunks by (destruct Hst; lia). fold (lz P).
  assert (Hy : y = zslice (ld4 + lz P * st) (zlen sigma) sigma).
  { unfold y, zslice, ztake, zdrop. symmetry. apply firstn_all2. rewrite skipn_length. unfold zlen. lia. }
  rewrite Hy. rewrite !zslice_app by (destruct Hst as [E|E]; rewrite E in *; lia). apply zslice_all.
Qed.

(* decoding what sig_encode produced *)
Theorem sig_decode_encode P c (z h : list (list Z)) sigma : In P all_params ->
  zlen c = p_lambda_div4 P -> BitPackProofs.bytes_ok c ->
  rvec (p_gamma1 P - 1) (p_gamma1 P) (p_l P) z -> rvec 0 1 (p_k P) h -> sumZ (map sumZ h) <= p_omega P ->
  sig_encode false P c z h = Ok sigma ->
  BitPackProofs.bytes_ok sigma /\ zlen sigma = p_sig_len P /\ sig_decode P sigma = Ok (c, z, h).
Proof.
  intros HP Lc Bc [Rz Lz] Rh Hw He. destruct (sig_params P HP) as (Hg & Hform & Hl & Hk & Hom & Homk & Hld).
  unfold sig_encode in He. set (g1 := p_gamma1 P) in *. set (ld4 := p_lambda_div4 P) in *.
  assert (Hab : valid_ab (g1 - 1) g1) by (unfold valid_ab; destruct Hg as [E|E]; rewrite E; lia).
  assert (Hstep : 32 * (Helpers.bitlen (g1 - 1) + 1) = 32 * Helpers.bitlen (g1 - 1 + g1)) by (destruct Hg as [E|E]; rewrite E; reflexivity).
  assert (Hstep' : 32 * (1 + Helpers.bitlen (g1 - 1)) = 32 * Helpers.bitlen (g1 - 1 + g1)) by (destruct Hg as [E|E]; rewrite E; reflexivity).
  rewrite (in_range_vec _ _ _ Rz), (in_range_vec _ _ _ (proj1 Rh)), Hform, Z.eqb_refl in He. cbn [guard bind] in He.
  rewrite Hstep' in He. set (st := 32 * Helpers.bitlen (g1 - 1 + g1)) in *.
  assert (Hst : st = 576 \/ st = 640) by (unfold st; destruct Hg as [E|E]; rewrite E; [left|right]; reflexivity).
  destruct (section_encode (g1 - 1) g1 z Hab Rz) as (bs & E1 & N1 & C1 & D1). fold st in E1, C1, D1.
  rewrite E1 in He. cbn [bind] in He.
  replace (sig_len_formula P - (ld4 + lz P * st)) with (p_omega P + Z.of_nat (p_k P)) in He.
  2:{ unfold sig_len_formula. fold g1 ld4. rewrite <- (Z.mul_assoc (lz P) 32), Hstep'. fold st. rewrite Z.abs_eq by lia. unfold kz. lia. }
  rewrite (hint_bit_pack_spec (p_omega P) (p_k P) h Hom Homk Rh Hw) in He. cbn [bind] in He. injection He as <-.
  destruct (HintBitUnpack_Pack (p_omega P) (p_k P) h Hom ltac:(unfold kz in *; lia) Rh Hw) as (Eu & Lh & Bh).
  set (hb := HintBitPack (p_omega P) h) in *.
  assert (Zc : zlen (concat bs) = lz P * st).
  { rewrite (concat_zlen bs st) by (eapply Forall_impl; [|exact C1]; intros x Hx; apply Hx). rewrite N1, Lz. reflexivity. }
  assert (Hlen : zlen (c ++ concat bs ++ hb) = p_sig_len P).
  { rewrite Hform. unfold sig_len_formula. fold g1 ld4. rewrite <- (Z.mul_assoc (lz P) 32), Hstep'. fold st. rewrite Z.abs_eq by lia.
    unfold zlen in *. rewrite !app_length. unfold kz. lia. }
  split; [|split; [exact Hlen|]].
  - apply Forall_app. split; [exact Bc|]. apply Forall_app. split; [|exact Bh].
    apply concat_bytes_ok. eapply Forall_impl; [|exact C1]. intros x Hx. apply Hx.
  - unfold sig_decode. fold g1 ld4. rewrite Hform, Z.eqb_refl. cbn [guard bind]. rewrite Hstep. fold st.
    match goal with |- context [mapM ?f (seq 0 (p_l P))] => assert (M1 : mapM f (seq 0 (p_l P)) = Ok z) end.
    { rewrite <- Lz. apply (D1 c hb ld4 Lc). }
    rewrite M1. cbn [bind].
    assert (Hy : zdrop (ld4 + lz P * st) (c ++ concat bs ++ hb) = hb).
    { unfold zdrop. rewrite app_assoc. rewrite skipn_app. rewrite skipn_all2 by (unfold zlen in *; rewrite app_length; lia).
      cbn [app]. replace (Z.to_nat (ld4 + lz P * st) - length (c ++ concat bs))%nat with 0%nat by (unfold zlen in *; rewrite app_length; lia). reflexivity. }
    rewrite Hy. rewrite (hint_bit_unpack_spec (p_k P) (p_omega P) hb Hom Homk Lh Bh), Eu. cbn [res_of_opt bind].
    f_equal. f_equal. f_equal. rewrite zslice_app_l by lia. rewrite <- Lc. apply zslice_all.
Qed.
