(* C03: sign_internal (and the three signing entry points) equal FIPS 204 ML-DSA.Sign_internal /
   Sign / HashML-DSA.Sign (Algorithms 7, 2, 4) for the rnd supplied, byte for byte. *)
Require Import List ZArith Lia Bool. Import ListNotations.
Require Import F204.Spec.SpecConv F204.Spec.SpecRound F204.Spec.SpecNtt F204.Spec.SpecSample F204.Spec.SpecMLDSA.
Require Import F204.Base.Util F204.Base.Mach F204.Base.Bits F204.Base.ListLemmas F204.Gen.Params F204.Gen.Guards F204.Hash.HashIface
  F204.Impl.Helpers F204.Impl.Ntt F204.Impl.HighLow F204.Impl.Conversion F204.Impl.Encodings F204.Impl.Hashing F204.Impl.MlDsa F204.Impl.Api
  F204.Proofs.KernelLemmas F204.Proofs.NttRefine F204.Proofs.NttRing F204.Proofs.NttPipeline F204.Proofs.BitPackProofs F204.Proofs.SpecBits
  F204.Proofs.SkDecodeProofs F204.Proofs.SampleRefine F204.Proofs.SibRefine F204.Proofs.VerifyParts F204.Proofs.VerifyRefine F204.Proofs.RelMap
  F204.Proofs.KeyRoundTrip F204.Proofs.PackRefine F204.Proofs.KeygenRefine F204.Proofs.DecodeRefine F204.Proofs.HintPack.
Open Scope Z_scope.
Ltac Zify.zify_post_hook ::= Z.div_mod_to_equations.
Arguments Z.mul : simpl never. Arguments Z.add : simpl never. Arguments Z.sub : simpl never.

(* ---------- functions of FIPS 204 that only see their argument mod q ---------- *)
Lemma Decompose_cong g r r' : congQ r r' -> Decompose g r = Decompose g r'.
Proof. intros Hc. unfold Decompose. unfold congQ in Hc. rewrite q_eq, Hc. reflexivity. Qed.
Lemma HighBits_cong g r r' : congQ r r' -> HighBits g r = HighBits g r'.
Proof. intros Hc. unfold HighBits. rewrite (Decompose_cong g r r' Hc). reflexivity. Qed.
Lemma LowBits_cong g r r' : congQ r r' -> LowBits g r = LowBits g r'.
Proof. intros Hc. unfold LowBits. rewrite (Decompose_cong g r r' Hc). reflexivity. Qed.
Lemma MakeHint_cong g z z' r r' : congQ z z' -> congQ r r' -> MakeHint g z r = MakeHint g z' r'.
Proof.
  intros Hz Hr. unfold MakeHint. rewrite (HighBits_cong g r r' Hr), (HighBits_cong g (r + z) (r' + z')); [reflexivity|].
  apply congQ_add; assumption.
Qed.
Lemma mod_pm_cong x y : congQ x y -> mod_pm x q = mod_pm y q.
Proof. intros Hc. unfold mod_pm. unfold congQ in Hc. rewrite q_eq, Hc. reflexivity. Qed.
Lemma infnorm_cong (v w : list (list Z)) : Forall2 (Forall2 congQ) v w -> infnorm v = infnorm w.
Proof.
  intros H. unfold infnorm. f_equal. induction H as [|p p' v w Hp H IH]; [reflexivity|]. cbn [map]. rewrite IH. f_equal.
  unfold infnorm_poly. f_equal. clear - Hp. induction Hp as [|x y p p' Hx Hp IH]; [reflexivity|]. cbn [map]. rewrite IH, (mod_pm_cong x y Hx). reflexivity.
Qed.
Lemma infnorm_small (v : list (list Z)) : Forall (bounded 4190208) v -> infnorm v = maxZ (map (fun p => maxZ (map Z.abs p)) v).
Proof.
  intros H. unfold infnorm. f_equal. induction H as [|p v Hp H IH]; [reflexivity|]. cbn [map]. rewrite IH. f_equal.
  unfold infnorm_poly. f_equal. clear - Hp. induction Hp as [|x p Hx Hp IH]; [reflexivity|]. cbn [map]. rewrite IH, mod_pm_small by exact Hx. reflexivity.
Qed.

(* ---------- list plumbing ---------- *)
Lemma map3_as_map2 {A B C D E F'} (f : A -> B -> C -> D) (h : A -> B -> E) (k : E -> C -> F') (g : C -> F' -> D) :
  (forall a b c, f a b c = g c (k (h a b) c)) ->
  forall l1 l2 l3, map3 f l1 l2 l3 = map2 g l3 (map2 k (map2 h l1 l2) l3).
Proof.
  intros Hf. induction l1 as [|a l1 IH]; intros l2 l3; [destruct l3; reflexivity|].
  destruct l2 as [|b l2]; [destruct l3; reflexivity|]. destruct l3 as [|c l3]; [reflexivity|].
  cbn [map3 map2]. rewrite Hf, IH. reflexivity.
Qed.
Lemma map2_map_l {A A' B C} (f : A' -> B -> C) (m : A -> A') l1 l2 : map2 f (map m l1) l2 = map2 (fun a b => f (m a) b) l1 l2.
Proof. revert l2. induction l1 as [|a l1 IH]; intros l2; [reflexivity|]. destruct l2; [reflexivity|]. cbn [map map2]. rewrite IH. reflexivity. Qed.
Lemma map2_ext_in {A B C} (f g : A -> B -> C) l1 l2 : (forall a b, In a l1 -> In b l2 -> f a b = g a b) -> map2 f l1 l2 = map2 g l1 l2.
Proof.
  revert l2. induction l1 as [|a l1 IH]; intros l2 H; [reflexivity|]. destruct l2 as [|b l2]; [reflexivity|]. cbn [map2].
  rewrite H by (left; reflexivity). rewrite IH; [reflexivity|]. intros a' b' Ha Hb. apply H; right; assumption.
Qed.
Lemma Forall2_diag {A} (P : A -> Prop) (l : list A) : Forall P l -> Forall2 (fun a x => a = x /\ P a) l l.
Proof. intros H. induction H; constructor; auto. Qed.
Lemma Forall2_diag2 {A} (P : A -> Prop) (v : list (list A)) : Forall (Forall P) v -> Forall2 (Forall2 (fun a x => a = x /\ P a)) v v.
Proof. intros H. induction H as [|p v Hp H IH]; constructor; [apply Forall2_diag; exact Hp|exact IH]. Qed.

Lemma map_map2 {A B C D} (f : C -> D) (g : A -> B -> C) l1 l2 : map f (map2 g l1 l2) = map2 (fun a b => f (g a b)) l1 l2.
Proof. revert l2. induction l1 as [|a l1 IH]; intros l2; [reflexivity|]. destruct l2; [reflexivity|]. cbn [map map2]. rewrite IH. reflexivity. Qed.
Lemma vadd_modq (y cs : list (list Z)) : vadd (map (map modq) y) cs = map2 (map2 (fun x c => (modq x + c) mod q)) y cs.
Proof.
  unfold vadd. rewrite map2_map_l. revert cs. induction y as [|p y IH]; intros cs; [reflexivity|]. destruct cs as [|pc cs]; [reflexivity|].
  cbn [map2]. rewrite IH. f_equal. unfold padd. apply map2_map_l.
Qed.
Lemma vsub_map (F : Z -> Z) (w cs : list (list Z)) : map (map F) (vsub w cs) = map2 (map2 (fun a b => F ((a - b) mod q))) w cs.
Proof.
  unfold vsub. rewrite map_map2. revert cs. induction w as [|p w IH]; intros cs; [reflexivity|]. destruct cs as [|pc cs]; [reflexivity|].
  cbn [map2]. rewrite IH. f_equal. unfold psub. apply map_map2.
Qed.
Lemma Forall_inner {A} (P : A -> Prop) (Q' : list A -> Prop) (v : list (list A)) : Forall (fun p => Q' p /\ Forall P p) v -> Forall (Forall P) v.
Proof. intros H. eapply Forall_impl; [|exact H]. intros p [_ Hp]. exact Hp. Qed.

Section S.
Variable H : Hashes.
Hypothesis HL : HashLaws H.
Variable P : Params.
Hypothesis HP : In P all_params.

Lemma sign_params : (p_gamma1 P = 131072 \/ p_gamma1 P = 524288) /\ valid_gamma2 (p_gamma2 P) /\ 0 <= p_tau P <= 64
  /\ (4 <= p_l P <= 7)%nat /\ (4 <= p_k P <= 8)%nat /\ 0 < p_beta P < 200 /\ p_beta P < p_gamma2 P /\ 0 <= p_omega P <= 80.
Proof. destruct HP as [<-|[<-|[<-|[]]]]; cbn; unfold valid_gamma2, G44, G65; repeat split; try lia; auto. Qed.

(* ---------- Algorithm 34 ---------- *)
Theorem expand_mask_spec rho kappa : 0 <= kappa -> kappa + lz P < 65536 ->
  expand_mask H P rho kappa = Ok (ExpandMask H P rho kappa)
  /\ rvec (p_gamma1 P - 1) (p_gamma1 P) (p_l P) (ExpandMask H P rho kappa).
Proof.
  intros Hk0 Hk. destruct sign_params as (Hg1 & _ & _ & Hl & _).
  unfold expand_mask, ExpandMask.
  set (g1 := p_gamma1 P) in *. set (c := 1 + Helpers.bitlen (g1 - 1)).
  assert (Hc : (c = 18 /\ (1 + SpecConv.bitlen (g1 - 1))%nat = 18%nat) \/ (c = 20 /\ (1 + SpecConv.bitlen (g1 - 1))%nat = 20%nat)).
  { unfold c. destruct Hg1 as [E|E]; rewrite E; [left|right]; split; reflexivity. }
  assert (Hcb : Helpers.bitlen (g1 - 1 + g1) = c) by (unfold c; destruct Hg1 as [E|E]; rewrite E; reflexivity).
  assert (Hab : valid_ab (g1 - 1) g1) by (unfold valid_ab; destruct Hg1 as [E|E]; rewrite E; lia).
  assert (Hfull : g1 - 1 + g1 + 1 = 2 ^ Helpers.bitlen (g1 - 1 + g1)) by (destruct Hg1 as [E|E]; rewrite E; reflexivity).
  replace ((c =? 18) || (c =? 20)) with true by (destruct Hc as [[E _]|[E _]]; rewrite E; reflexivity).
  replace (lz P <? 65536) with true by (symmetry; apply Z.ltb_lt; unfold lz; lia). cbn [guard bind].
  assert (Hrow : forall r, In r (seq 0 (p_l P)) ->
     let v := h_shake256 H (rho ++ IntegerToBytes (kappa + Z.of_nat r) 2) (32 * (1 + SpecConv.bitlen (g1 - 1))) in
     (_ <- guard (kappa + Z.of_nat r <? 65536) "u16 add overflow" ;;
      match bit_unpack (h_shake256 H (rho ++ le2 (kappa + Z.of_nat r)) (Z.to_nat (32 * c))) (g1 - 1) g1 with
      | Err _ => Panic "Alg 34: try_from2 fail" | x => x end) = Ok (BitUnpack v (g1 - 1) g1)
     /\ length (BitUnpack v (g1 - 1) g1) = 256%nat /\ Forall (fun e => - (g1 - 1) <= e <= g1) (BitUnpack v (g1 - 1) g1)).
  { intros r Hr. apply in_seq in Hr. cbv zeta.
    replace (kappa + Z.of_nat r <? 65536) with true by (symmetry; apply Z.ltb_lt; unfold lz in Hk; lia). cbn [guard bind].
    assert (Hle : le2 (kappa + Z.of_nat r) = IntegerToBytes (kappa + Z.of_nat r) 2) by reflexivity. rewrite Hle.
    assert (Hn : Z.to_nat (32 * c) = (32 * (1 + SpecConv.bitlen (g1 - 1)))%nat) by (destruct Hc as [[E1 E2]|[E1 E2]]; rewrite E1, E2; reflexivity).
    rewrite Hn. set (v := h_shake256 H _ _).
    assert (Hbv : bytes_ok v) by apply (shake256_ok H HL).
    assert (Hlv : Z.of_nat (length v) = 32 * Helpers.bitlen (g1 - 1 + g1)).
    { unfold v. rewrite (shake256_len H HL), <- Hn, Hcb. destruct Hc as [[E _]|[E _]]; rewrite E; reflexivity. }
    destruct (bit_unpack_total (g1 - 1) g1 v Hab Hfull Hbv Hlv) as (w & Ew & Lw & Rw).
    rewrite Ew. rewrite <- (bit_unpack_is_BitUnpack (g1 - 1) g1 v w Hab ltac:(destruct Hg1 as [E|E]; rewrite E; lia) Hbv Ew).
    repeat split; [exact Lw|apply in_range_forall; exact Rw]. }
  assert (Hm : mapM (fun r : nat =>
        _ <- guard (kappa + Z.of_nat r <? 65536) "u16 add overflow" ;;
        match bit_unpack (h_shake256 H (rho ++ le2 (kappa + Z.of_nat r)) (Z.to_nat (32 * c))) (g1 - 1) g1 with
        | Err _ => Panic "Alg 34: try_from2 fail" | x => x end) (seq 0 (p_l P))
     = Ok (map (fun r => BitUnpack (h_shake256 H (rho ++ IntegerToBytes (kappa + Z.of_nat r) 2) (32 * (1 + SpecConv.bitlen (g1 - 1)))) (g1 - 1) g1) (seq 0 (p_l P)))).
  { apply mapM_ok. intros r Hr. apply (Hrow r Hr). }
  assert (Hshape : rvec (g1 - 1) g1 (p_l P) (map (fun r => BitUnpack (h_shake256 H (rho ++ IntegerToBytes (kappa + Z.of_nat r) 2) (32 * (1 + SpecConv.bitlen (g1 - 1)))) (g1 - 1) g1) (seq 0 (p_l P)))).
  { split; [|rewrite map_length, seq_length; reflexivity]. apply Forall_forall. intros p Hp. apply in_map_iff in Hp as (r & <- & Hr). apply (Hrow r Hr). }
  split; [|exact Hshape].
  rewrite Hm. cbn [bind]. rewrite (in_range_vec _ _ _ (proj1 Hshape)). reflexivity.
Qed.

(* ---------- c * v for a Montgomery-form NTT-domain vector, back in the coefficient domain ---------- *)
Lemma scalar_mul_inv_k {B} (c_hat nc : list Z) (vm s : list (list Z)) (k : list (list Z) -> res B) :
  Forall2 (crel NTT_OUT) c_hat nc -> length nc = 256%nat ->
  Forall2 (Forall2 mrel) vm (vNTT s) -> Forall (fun p => length p = 256%nat) s ->
  (x <- scalar_mul c_hat vm ;; r <- inv_ntt x ;; k r) = k (vinvNTT (ScalarVectorNTT nc (vNTT s))).
Proof.
  intros Hc Lc Hv Ls.
  assert (Hx : exists x, scalar_mul c_hat vm = Ok x /\ Forall2 (Forall2 (crel Q)) x (ScalarVectorNTT nc (vNTT s))).
  { unfold scalar_mul, ScalarVectorNTT.
    apply (mapM_rel (fun p => map2M mul_mont_coef c_hat p) (pmul nc) (Forall2 mrel) (Forall2 (crel Q))); [|exact Hv].
    intros p ps Hp. unfold pmul.
    apply (map2M_rel mul_mont_coef (fun x y => (x * y) mod q) (crel NTT_OUT) mrel (crel Q)); [|exact Hc|exact Hp].
    intros a b x y [Hax Hab] [Hby Hbb]. destruct (mul_mont_ok2 a b Hab Hbb) as (E & Hcg & Hm).
    eexists. split; [exact E|]. split; [|lia]. rewrite q_eq. eapply congQ_trans; [|apply congQ_sym, congQ_mod].
    apply congQ_cancel_R. eapply congQ_trans; [exact Hcg|]. replace (x * y * 4294967296) with (x * (y * 4294967296)) by ring.
    apply congQ_mul; assumption. }
  destruct Hx as (x & Ex & Rx). rewrite Ex. cbn [bind].
  assert (Lr : Forall (fun p => length p = 256%nat) (ScalarVectorNTT nc (vNTT s))).
  { unfold ScalarVectorNTT. rewrite Forall_map. pose proof (vNTT_rows s Ls) as Lv. eapply Forall_impl; [|exact Lv].
    intros p Lp. cbn beta in *. unfold pmul. rewrite map2_length. lia. }
  destruct (crel_poly256 Q (PR32_BOUND - 1) x _ ltac:(unfold Q, PR32_BOUND; lia) Rx Lr) as [Px Cx].
  rewrite (inv_ntt_vec_ok x Px). cbn [bind]. rewrite (vinvNTT_cong _ _ Cx). reflexivity.
Qed.

Lemma ScalarVector_shape nc (s : list (list Z)) : length nc = 256%nat -> Forall (fun p => length p = 256%nat) s ->
  Forall (fun p => length p = 256%nat /\ Forall (fun x => 0 <= x < Q) p) (vinvNTT (ScalarVectorNTT nc (vNTT s)))
  /\ length (vinvNTT (ScalarVectorNTT nc (vNTT s))) = length s.
Proof.
  intros Lc Ls.
  assert (Lr : Forall (fun p => length p = 256%nat) (ScalarVectorNTT nc (vNTT s))).
  { unfold ScalarVectorNTT. rewrite Forall_map. pose proof (vNTT_rows s Ls) as Lv. eapply Forall_impl; [|exact Lv].
    intros p Lp. cbn beta in *. unfold pmul. rewrite map2_length. lia. }
  destruct (vinvNTT_shape _ Lr) as [Sv Lv]. split; [exact Sv|]. rewrite Lv. unfold ScalarVectorNTT, vNTT. rewrite !map_length. reflexivity.
Qed.

(* ---------- one iteration of the rejection loop of Algorithm 7 ---------- *)
(* None: a sampler ran out of squeeze buffer; Some None: the candidate is rejected;
   Some (Some (c~, z, h)): accepted, with z as residues in [0, q) (before the final mod+-) *)
Definition Spec_attempt (A_hat : list (list (list Z))) (s1 s2 t0 : list (list Z)) (mu rho'' : bytes) (kappa : Z)
  : option (option (bytes * list (list Z) * list (list Z))) :=
  let g1 := p_gamma1 P in let g2 := p_gamma2 P in let beta := p_beta P in
  let y := ExpandMask H P rho'' kappa in
  let w := vinvNTT (MatrixVectorNTT A_hat (vNTT y)) in
  let w1 := map (map (HighBits g2)) w in
  let c_tilde := h_shake256 H (mu ++ w1Encode P w1) (Z.to_nat (p_lambda_div4 P)) in
  match SampleInBall H (p_tau P) c_tilde with
  | None => None
  | Some c =>
      let c_hat := NTT c in
      let cs1 := vinvNTT (ScalarVectorNTT c_hat (vNTT s1)) in
      let cs2 := vinvNTT (ScalarVectorNTT c_hat (vNTT s2)) in
      let z := vadd (map (map modq) y) cs1 in
      let r0 := map (map (LowBits g2)) (vsub w cs2) in
      if (g1 - beta <=? infnorm z) || (g2 - beta <=? maxZ (map (fun p => maxZ (map Z.abs p)) r0)) then Some None
      else
        let ct0 := vinvNTT (ScalarVectorNTT c_hat (vNTT t0)) in
        let h := map2 (map2 (fun a b => Z.b2z (MakeHint g2 ((- a) mod q) b))) ct0 (vadd (vsub w cs2) ct0) in
        if (g2 <=? infnorm ct0) || (p_omega P <? weight h) then Some None
        else Some (Some (c_tilde, z, h))
  end.

Lemma Sign_loop_step f A_hat s1 s2 t0 mu rho'' kappa :
  Sign_loop H (S f) P A_hat (vNTT s1) (vNTT s2) (vNTT t0) mu rho'' kappa =
    match Spec_attempt A_hat s1 s2 t0 mu rho'' kappa with
    | None => None
    | Some None => Sign_loop H f P A_hat (vNTT s1) (vNTT s2) (vNTT t0) mu rho'' (kappa + Z.of_nat (p_l P))
    | Some (Some (c_tilde, z, h)) => Some (c_tilde, map (map (fun x => mod_pm x q)) z, h)
    end.
Proof.
  unfold Spec_attempt. cbn [Sign_loop]. cbv zeta.
  destruct (SampleInBall H (p_tau P) _) as [c|]; [|reflexivity].
  destruct (_ || _); [reflexivity|]. destruct (_ || _); reflexivity.
Qed.

Definition attempt_rel (r : res (option (bytes * list (list Z) * list (list Z))))
  (s : option (option (bytes * list (list Z) * list (list Z)))) : Prop :=
  match s with
  | None => r = OutOfFuel
  | Some None => r = Ok None
  | Some (Some (ct, zraw, h)) => exists z, r = Ok (Some (ct, z, h)) /\ Forall2 (Forall2 (crel PR32_OUT)) z zraw
                                           /\ rvec 0 1 (p_k P) h /\ weight h <= p_omega P /\ infnorm zraw < p_gamma1 P - p_beta P
                                           /\ Forall (fun p => length p = 256%nat) zraw /\ length zraw = p_l P
  end.

Theorem sign_attempt_refines sk rho K tr s1 s2 t0 A mu rho'' kappa :
  sk_repr P sk rho K tr s1 s2 t0 -> ExpandA H P rho = Some A -> 0 <= kappa -> kappa + lz P < 65536 ->
  attempt_rel (sign_attempt H false P sk A mu rho'' kappa) (Spec_attempt A s1 s2 t0 mu rho'' kappa).
Proof.
  intros (_ & _ & _ & M1 & M2 & M3 & R1 & R2 & R3) EA Hk0 Hk.
  destruct sign_params as (Hg1 & Hg2 & Htau & Hl & Hkk & Hbeta & Hbg & Hom).
  destruct (ExpandA_shape H HL P _ _ EA) as [LA RA].
  destruct (expand_mask_spec rho'' kappa Hk0 Hk) as [Ey Ry].
  unfold sign_attempt, Spec_attempt. cbv zeta. rewrite Ey. cbn [bind].
  set (y := ExpandMask H P rho'' kappa) in *.
  assert (Ly : Forall (fun p => length p = 256%nat) y) by (eapply Forall_impl; [|apply Ry]; intros p Hp; apply Hp).
  rewrite ntt_pipeline_k; [|destruct Ry as [_ ->]; exact RA| |destruct Ry as [_ ->]; lia].
  2:{ apply (range_poly256 y (p_gamma1 P - 1) (p_gamma1 P) NTT_IN); [unfold NTT_IN; destruct Hg1 as [E|E]; rewrite E; lia..|apply Ry]. }
  destruct (MatrixVectorNTT_rows (p_l P) A (vNTT y) ltac:(exact RA) (vNTT_rows _ Ly)) as [Lm Lml].
  destruct (vinvNTT_shape _ Lm) as [Sw Lw].
  set (w := vinvNTT (MatrixVectorNTT A (vNTT y))) in *.
  (* w1 = HighBits w and its encoding *)
  assert (Ew1 : mapM (mapM (high_bits (p_gamma2 P))) w = Ok (map (map (HighBits (p_gamma2 P))) w)).
  { apply mapM_pure with (P := fun p => length p = 256%nat /\ Forall (fun x => 0 <= x < Q) p); [|exact Sw]. intros p [_ Rp].
    apply mapM_pure with (P := fun x => 0 <= x < Q); [|exact Rp]. intros x Hx. apply high_bits_spec; [exact Hg2|unfold PR32_BOUND, Q in *; lia]. }
  rewrite Ew1. cbn [bind].
  rewrite w1_encode_spec; [|exact HP|rewrite map_length, Lw, Lml; exact LA|].
  2:{ rewrite Forall_map. eapply Forall_impl; [|exact Sw]. intros p [Lp Rp]. split; [rewrite map_length; exact Lp|].
      apply in_range_forall. rewrite Forall_map. apply Forall_forall. intros x _. unfold HighBits.
      pose proof (Decompose_range (p_gamma2 P) x Hg2) as Hd. destruct (Decompose (p_gamma2 P) x) as [r1 r0]. cbn [fst]. rewrite q_eq in Hd. lia. }
  cbn [bind]. set (c_tilde := h_shake256 H _ _).
  rewrite (sample_in_ball_spec H HL (p_tau P) c_tilde Htau).
  destruct (SampleInBall H (p_tau P) c_tilde) as [c|] eqn:Ec; cbn [res_fuel bind attempt_rel]; [|reflexivity].
  destruct (SampleInBall_shape H _ _ _ Ec) as [Lc Bc].
  destruct (ntt_poly_callsite c Lc) as (c_hat & Ech & Cch & Bch & Lch).
  { eapply Forall_impl; [|exact Bc]. cbn beta. unfold NTT_IN. intros; lia. }
  rewrite Ech. cbn [bind].
  assert (Rc : Forall2 (crel NTT_OUT) c_hat (NTT c)).
  { clear - Cch Bch. induction Cch; inversion Bch; subst; constructor; [split; assumption|auto]. }
  pose proof (NTT_length c Lc) as Lnc.
  assert (Ls1 : Forall (fun p => length p = 256%nat) s1) by (eapply Forall_impl; [|apply R1]; intros p Hp; apply Hp).
  assert (Ls2 : Forall (fun p => length p = 256%nat) s2) by (eapply Forall_impl; [|apply R2]; intros p Hp; apply Hp).
  assert (Lt0 : Forall (fun p => length p = 256%nat) t0) by (eapply Forall_impl; [|apply R3]; intros p Hp; apply Hp).
  rewrite (scalar_mul_inv_k c_hat (NTT c) _ s1 _ Rc Lnc M1 Ls1).
  rewrite (scalar_mul_inv_k c_hat (NTT c) _ s2 _ Rc Lnc M2 Ls2).
  destruct (ScalarVector_shape (NTT c) s1 Lnc Ls1) as [S1 L1]. destruct (ScalarVector_shape (NTT c) s2 Lnc Ls2) as [S2 L2].
  set (cs1 := vinvNTT (ScalarVectorNTT (NTT c) (vNTT s1))) in *. set (cs2 := vinvNTT (ScalarVectorNTT (NTT c) (vNTT s2))) in *.
  set (g1 := p_gamma1 P) in *. set (g2 := p_gamma2 P) in *. set (beta := p_beta P) in *.
  assert (By : Forall (Forall (fun a => - (g1 - 1) <= a <= g1)) y) by (apply (Forall_inner _ (fun p => length p = 256%nat)); apply Ry).
  assert (Bw : Forall (Forall (fun x => 0 <= x < Q)) w) by (apply (Forall_inner _ (fun p => length p = 256%nat)); exact Sw).
  assert (B1 : Forall (Forall (fun x => 0 <= x < Q)) cs1) by (apply (Forall_inner _ (fun p => length p = 256%nat)); exact S1).
  assert (B2 : Forall (Forall (fun x => 0 <= x < Q)) cs2) by (apply (Forall_inner _ (fun p => length p = 256%nat)); exact S2).
  (* z = y + c s1 *)
  assert (Hz : exists z, map2M (map2M (fun a b => s <- add32 a b ;; partial_reduce32 s)) y cs1 = Ok z
                 /\ Forall2 (Forall2 (crel PR32_OUT)) z (vadd (map (map modq) y) cs1)).
  { rewrite vadd_modq.
    apply (vmap2M_rel (fun a b => s <- add32 a b ;; partial_reduce32 s) (fun x c => (modq x + c) mod q)
             (fun a x => a = x /\ - (g1 - 1) <= a <= g1) (fun a x => a = x /\ 0 <= a < Q) (crel PR32_OUT));
      [|apply Forall2_diag2; exact By|apply Forall2_diag2; exact B1].
    intros a b x c0 [<- Ha] [<- Hb]. unfold add32. rewrite chk32_ok by (unfold i32_min, i32_max, Q in *; destruct Hg1 as [E|E]; rewrite E in Ha; lia).
    cbn [bind]. destruct (pr32_ok (a + b)) as (E & C & Bd); [unfold PR32_BOUND, Q in *; destruct Hg1 as [E|E]; rewrite E in Ha; lia|].
    eexists. split; [exact E|]. split; [|exact Bd]. rewrite q_eq. eapply congQ_trans; [exact C|]. eapply congQ_trans; [|apply congQ_sym, congQ_mod].
    apply congQ_add; [unfold modq; rewrite q_eq; apply congQ_sym, congQ_mod|reflexivity]. }
  destruct Hz as (z & Ez & Rz). rewrite Ez. cbn [bind].
  (* r0 = LowBits (w - c s2) *)
  assert (Er0 : map2M (map2M (fun a b => s <- sub32 a b ;; p <- partial_reduce32 s ;; low_bits g2 p)) w cs2
                = Ok (map (map (LowBits g2)) (vsub w cs2))).
  { rewrite vsub_map.
    destruct (vmap2M_rel (fun a b => s <- sub32 a b ;; p <- partial_reduce32 s ;; low_bits g2 p) (fun a b => LowBits g2 ((a - b) mod q))
             (fun a x => a = x /\ 0 <= a < Q) (fun a x => a = x /\ 0 <= a < Q) eq) with (l1 := w) (xs := w) (l2 := cs2) (ys := cs2) as (r & Er & Rr);
      [|apply Forall2_diag2; exact Bw|apply Forall2_diag2; exact B2|rewrite Er; f_equal; apply Forall2_eq2; exact Rr].
    intros a b x c0 [<- Ha] [<- Hb]. unfold sub32. rewrite chk32_ok by (unfold i32_min, i32_max, Q in *; lia). cbn [bind].
    destruct (pr32_ok (a - b)) as (E & C & Bd); [unfold PR32_BOUND, Q in *; lia|]. rewrite E. cbn [bind].
    rewrite low_bits_spec by (try exact Hg2; unfold PR32_BOUND, PR32_OUT in *; lia).
    eexists. split; [reflexivity|]. apply LowBits_cong. rewrite q_eq. eapply congQ_trans; [exact C|apply congQ_sym, congQ_mod]. }
  rewrite Er0. cbn [bind].
  (* norms *)
  assert (Lz : Forall (fun p => length p = 256%nat) z /\ length z = p_l P /\ Forall (bounded (PR32_BOUND - 1)) z /\ Forall2 (Forall2 congQ) z (vadd (map (map modq) y) cs1)).
  { assert (Lspec : Forall (fun p => length p = 256%nat) (vadd (map (map modq) y) cs1) /\ length (vadd (map (map modq) y) cs1) = p_l P).
    { unfold vadd. split.
      - apply (map2_Forall padd (fun p => length p = 256%nat) (fun p => length p = 256%nat /\ Forall (fun x => 0 <= x < Q) p)).
        + intros a b La [Lb _]. apply padd_length; assumption.
        + rewrite Forall_map. eapply Forall_impl; [|exact Ly]. intros p Lp. rewrite map_length. exact Lp.
        + exact S1.
      - rewrite map2_length, map_length, L1. destruct Ry as [_ ->]. destruct R1 as [_ ->]. lia. }
    destruct (crel_poly256 PR32_OUT (PR32_BOUND - 1) z _ ltac:(unfold PR32_OUT, PR32_BOUND; lia) Rz (proj1 Lspec)) as [Pz Cz].
    split; [apply (poly256_rows _ _ Pz)|]. split; [rewrite (Forall2_length _ _ _ Rz); apply Lspec|]. split; [|exact Cz].
    eapply Forall_impl; [|exact Pz]. intros p [Hb _]. exact Hb. }
  destruct Lz as (Lz256 & Lzl & Bz & Cz).
  rewrite (infinity_norm_spec z Bz) by (apply concat_nonempty; [lia|exact Lz256]). cbn [bind].
  rewrite (infnorm_cong _ _ Cz).
  assert (Br0 : Forall (bounded 4190208) (map (map (LowBits g2)) (vsub w cs2))).
  { rewrite Forall_map. apply Forall_forall. intros p _. unfold bounded. rewrite Forall_map. apply Forall_forall. intros x _.
    unfold LowBits. pose proof (Decompose_range g2 x Hg2) as Hd. destruct (Decompose g2 x) as [r1 r0]. cbn [snd].
    destruct Hg2 as [E|E]; unfold g2 in *; rewrite E in Hd; unfold G44, G65 in Hd; lia. }
  assert (Lr0 : Forall (fun p => length p = 256%nat) (map (map (LowBits g2)) (vsub w cs2)) /\ (1 <= length (map (map (LowBits g2)) (vsub w cs2)))%nat).
  { split.
    - rewrite Forall_map. unfold vsub. apply (map2_Forall psub (fun p => length p = 256%nat /\ Forall (fun x => 0 <= x < Q) p) (fun p => length p = 256%nat /\ Forall (fun x => 0 <= x < Q) p)); [|exact Sw|exact S2].
      intros a b [La _] [Lb _]. rewrite map_length. unfold psub. rewrite map2_length. lia.
    - rewrite map_length. unfold vsub. rewrite map2_length, Lw, Lml, LA, L2. destruct R2 as [_ ->]. lia. }
  rewrite (infinity_norm_spec _ (Forall_impl _ (fun p Hp => bounded_mono 4190208 (PR32_BOUND - 1) p ltac:(unfold PR32_BOUND; lia) Hp) Br0))
    by (apply concat_nonempty; apply Lr0).
  cbn [bind]. rewrite (infnorm_small _ Br0). cbn [negb andb].
  destruct ((g1 - beta <=? infnorm (vadd (map (map modq) y) cs1)) || (g2 - beta <=? maxZ (map (fun p => maxZ (map Z.abs p)) (map (map (LowBits g2)) (vsub w cs2))))) eqn:Erej1;
    [reflexivity|].
  apply orb_false_elim in Erej1 as [Erz Err0]. apply Z.leb_gt in Erz.
  (* c t0 and the hint *)
  rewrite (scalar_mul_inv_k c_hat (NTT c) _ t0 _ Rc Lnc M3 Lt0).
  destruct (ScalarVector_shape (NTT c) t0 Lnc Lt0) as [S3 L3].
  set (ct0 := vinvNTT (ScalarVectorNTT (NTT c) (vNTT t0))) in *.
  assert (B3 : Forall (Forall (fun x => 0 <= x < Q)) ct0) by (apply (Forall_inner _ (fun p => length p = 256%nat)); exact S3).
  set (G := fun a b : Z => Z.b2z (MakeHint g2 (- a mod q) b)).
  assert (Eh : map3M (map3M (fun wv cs0 ct0 : Z =>
                 a <- sub32 Q ct0 ;; s <- sub32 wv cs0 ;; s0 <- add32 s ct0 ;; p <- partial_reduce32 s0 ;;
                 b <- make_hint g2 a p ;; Ok (Z.b2z b))) w cs2 ct0
               = Ok (map2 (map2 G) ct0 (vadd (vsub w cs2) ct0))).
  { destruct (vmap3M_rel (fun wv cs0 ct0 : Z =>
                 a <- sub32 Q ct0 ;; s <- sub32 wv cs0 ;; s0 <- add32 s ct0 ;; p <- partial_reduce32 s0 ;;
                 b <- make_hint g2 a p ;; Ok (Z.b2z b))
               (fun wv c2 c0 => G c0 (((wv - c2) mod q + c0) mod q))
               (fun a x => a = x /\ 0 <= a < Q) (fun a x => a = x /\ 0 <= a < Q) (fun a x => a = x /\ 0 <= a < Q) eq)
      with (l1 := w) (xs := w) (l2 := cs2) (ys := cs2) (l3 := ct0) (zs := ct0) as (r & Er & Rr);
      [|apply Forall2_diag2; exact Bw|apply Forall2_diag2; exact B2|apply Forall2_diag2; exact B3|].
    - intros a b c0 xa xb xc [<- Ha] [<- Hb] [<- Hc]. unfold sub32, add32.
      rewrite chk32_ok by (unfold i32_min, i32_max, Q in *; lia). cbn [bind].
      rewrite chk32_ok by (unfold i32_min, i32_max, Q in *; lia). cbn [bind].
      rewrite chk32_ok by (unfold i32_min, i32_max, Q in *; lia). cbn [bind].
      destruct (pr32_ok (a - b + c0)) as (E & C & Bd); [unfold PR32_BOUND, Q in *; lia|]. rewrite E. cbn [bind].
      rewrite make_hint_spec by (try exact Hg2; unfold PR32_BOUND, PR32_OUT, Q in *; lia). cbn [bind].
      eexists. split; [reflexivity|]. unfold G. f_equal. apply MakeHint_cong.
      + rewrite q_eq. eapply congQ_trans; [|apply congQ_sym, congQ_mod]. unfold congQ. replace (Q - c0) with (- c0 + 1 * Q) by ring. apply Z.mod_add. unfold Q; lia.
      + rewrite q_eq. eapply congQ_trans; [exact C|]. eapply congQ_trans; [|apply congQ_sym, congQ_mod].
        apply congQ_add; [apply congQ_sym, congQ_mod|reflexivity].
    - rewrite Er. f_equal. rewrite (Forall2_eq2 _ _ Rr). unfold vadd, vsub.
      apply (map3_as_map2 _ psub padd (map2 G)). intros a b c0. unfold psub, padd.
      apply (map3_as_map2 _ (fun x y => (x - y) mod q) (fun e c1 => (e + c1) mod q) G). reflexivity. }
  rewrite Eh. cbn [bind].
  rewrite (infinity_norm_spec ct0).
  2:{ eapply Forall_impl; [|exact B3]. intros p Hp. eapply Forall_impl; [|exact Hp]. cbn beta. unfold PR32_BOUND, Q. intros; lia. }
  2:{ apply concat_nonempty; [rewrite L3; destruct R3 as [_ ->]; lia|eapply Forall_impl; [|exact S3]; intros p Hp; apply Hp]. }
  cbn [bind]. change (sum_hints (map2 (map2 G) ct0 (vadd (vsub w cs2) ct0))) with (weight (map2 (map2 G) ct0 (vadd (vsub w cs2) ct0))).
  destruct ((g2 <=? infnorm ct0) || (p_omega P <? weight (map2 (map2 G) ct0 (vadd (vsub w cs2) ct0)))) eqn:Erej2; [reflexivity|].
  apply orb_false_elim in Erej2 as [_ Ew]. apply Z.ltb_ge in Ew.
  cbn [attempt_rel]. exists z. split; [reflexivity|]. split; [exact Rz|]. split; [|split; [exact Ew|split; [exact Erz|]]].
  - (* shape of the hint *)
    assert (Lx : Forall (fun p => length p = 256%nat) (vadd (vsub w cs2) ct0) /\ length (vadd (vsub w cs2) ct0) = p_k P).
    { unfold vadd, vsub. split.
      - apply (map2_Forall padd (fun p => length p = 256%nat) (fun p => length p = 256%nat /\ Forall (fun x => 0 <= x < Q) p)); [| |exact S3].
        + intros a b La [Lb _]. apply padd_length; assumption.
        + apply (map2_Forall psub (fun p => length p = 256%nat /\ Forall (fun x => 0 <= x < Q) p) (fun p => length p = 256%nat /\ Forall (fun x => 0 <= x < Q) p)); [|exact Sw|exact S2].
          intros a b [La _] [Lb _]. unfold psub. rewrite map2_length. lia.
      - rewrite !map2_length, Lw, Lml, LA, L2, L3. destruct R2 as [_ ->]. destruct R3 as [_ ->]. lia. }
    split.
    + apply (map2_Forall (map2 G) (fun p => length p = 256%nat /\ Forall (fun x => 0 <= x < Q) p) (fun p => length p = 256%nat)); [|exact S3|apply Lx].
      intros a b [La _] Lb. split; [rewrite map2_length; lia|].
      apply (map2_Forall G (fun _ => True) (fun _ => True)); [|apply Forall_forall; auto|apply Forall_forall; auto].
      intros xa xb _ _. unfold G. destruct (MakeHint g2 (- xa mod q) xb); cbn; lia.
    + rewrite map2_length, L3. destruct Lx as [_ ->]. destruct R3 as [_ ->]. lia.
  - unfold vadd. split.
    + apply (map2_Forall padd (fun p => length p = 256%nat) (fun p => length p = 256%nat /\ Forall (fun x => 0 <= x < Q) p)); [| |exact S1].
      * intros a b La [Lb _]. apply padd_length; assumption.
      * rewrite Forall_map. eapply Forall_impl; [|exact Ly]. intros p Lp. rewrite map_length. exact Lp.
    + rewrite map2_length, map_length, L1. destruct Ry as [_ ->]. destruct R1 as [_ ->]. lia.
Qed.

(* ---------- Algorithm 26 ---------- *)
Theorem sig_encode_spec c_tilde (z h : list (list Z)) :
  rvec (p_gamma1 P - 1) (p_gamma1 P) (p_l P) z -> rvec 0 1 (p_k P) h -> weight h <= p_omega P ->
  sig_encode false P c_tilde z h = Ok (sigEncode P c_tilde z h).
Proof.
  intros [Rz Lz] Rh Hw. destruct (sig_params P HP) as (Hg & Hform & Hl & Hk & Hom & Homk & Hld).
  unfold sig_encode, sigEncode. set (g1 := p_gamma1 P) in *.
  assert (Hab : valid_ab (g1 - 1) g1) by (unfold valid_ab; destruct Hg as [E|E]; rewrite E; lia).
  assert (Hstep : 32 * (1 + Helpers.bitlen (g1 - 1)) = 32 * Helpers.bitlen (g1 - 1 + g1)) by (destruct Hg as [E|E]; rewrite E; reflexivity).
  rewrite (in_range_vec _ _ _ Rz), (in_range_vec _ _ _ (proj1 Rh)), Hform, Z.eqb_refl. cbn [guard bind]. rewrite Hstep.
  rewrite (mapM_pure (fun p => bit_pack p (g1 - 1) g1 (32 * Helpers.bitlen (g1 - 1 + g1))) (fun p => BitPack p (g1 - 1) g1) _ z
             (fun p Hp => bit_pack_is_Spec _ _ p Hab ltac:(destruct Hg as [E|E]; rewrite E; lia) (proj1 Hp) (proj2 (in_range_forall _ _ _) (proj2 Hp))) Rz).
  cbn [bind].
  replace (sig_len_formula P - (p_lambda_div4 P + lz P * (32 * Helpers.bitlen (g1 - 1 + g1)))) with (p_omega P + Z.of_nat (p_k P)).
  2:{ unfold sig_len_formula. fold g1. rewrite <- Hstep. rewrite Z.abs_eq by lia. unfold kz. lia. }
  rewrite (hint_bit_pack_spec (p_omega P) (p_k P) h Hom Homk Rh Hw). cbn [bind]. rewrite flat_map_concat_map. reflexivity.
Qed.

(* ---------- the rejection loop ---------- *)
Lemma maxZ_ge x l : In x l -> x <= maxZ l.
Proof. induction l as [|a l IH]; intros Hin; [destruct Hin|]. cbn [maxZ fold_right]. fold (maxZ l). destruct Hin as [<-|Hin]; [lia|specialize (IH Hin); lia]. Qed.
Lemma infnorm_lt B (v : list (list Z)) : infnorm v < B -> Forall (Forall (fun x => Z.abs (mod_pm x q) < B)) v.
Proof.
  intros Hn. apply Forall_forall. intros p Hp. apply Forall_forall. intros x Hx.
  assert (H1 : infnorm_poly p <= infnorm v) by (apply maxZ_ge, in_map; exact Hp).
  assert (H2 : Z.abs (mod_pm x q) <= infnorm_poly p) by (unfold infnorm_poly; apply maxZ_ge; apply (in_map (fun x0 => Z.abs (mod_pm x0 q))); exact Hx).
  lia.
Qed.

Lemma accepted_facts (z zraw : list (list Z)) : Forall2 (Forall2 (crel PR32_OUT)) z zraw ->
  infnorm zraw < p_gamma1 P - p_beta P -> Forall (fun p => length p = 256%nat) zraw -> length zraw = p_l P ->
  mapM (mapM center_mod) z = Ok (map (map (fun x => mod_pm x q)) zraw)
  /\ rvec (p_gamma1 P - 1) (p_gamma1 P) (p_l P) (map (map (fun x => mod_pm x q)) zraw).
Proof.
  intros Rz Hn Lz256 Lzl. destruct sign_params as (Hg1 & Hg2 & Htau & Hl & Hkk & Hbeta & Hbg & Hom). split.
  - destruct (vmapM_rel center_mod (fun x => mod_pm x q) (crel PR32_OUT) eq) with (v := z) (xs := zraw) as (r & Er' & Rr); [|exact Rz|].
    + intros a x [Hax Hb]. rewrite center_mod_spec by (unfold PR32_BOUND, PR32_OUT in *; lia). eexists. split; [reflexivity|]. apply mod_pm_cong. exact Hax.
    + rewrite Er'. f_equal. apply Forall2_eq2. exact Rr.
  - pose proof (infnorm_lt _ _ Hn) as Hb. split; [|rewrite map_length; exact Lzl].
    rewrite Forall_map. apply Forall_forall. intros p Hp. split.
    + rewrite map_length. rewrite Forall_forall in Lz256. apply Lz256. exact Hp.
    + rewrite Forall_map. rewrite Forall_forall in Hb. specialize (Hb p Hp). eapply Forall_impl; [|exact Hb]. cbn beta. intros x Hx. lia.
Qed.

Definition loop_rel (r : res (bytes * list (list Z) * list (list Z))) (s : option (bytes * list (list Z) * list (list Z))) : Prop :=
  match s with
  | None => r = OutOfFuel
  | Some (ct, zs, h) => exists z, r = Ok (ct, z, h) /\ mapM (mapM center_mod) z = Ok zs
                                  /\ rvec (p_gamma1 P - 1) (p_gamma1 P) (p_l P) zs /\ rvec 0 1 (p_k P) h /\ weight h <= p_omega P
  end.

Theorem sign_loop_refines sk rho K tr s1 s2 t0 A mu rho'' :
  sk_repr P sk rho K tr s1 s2 t0 -> ExpandA H P rho = Some A ->
  forall fuel kappa, 0 <= kappa -> kappa + (Z.of_nat fuel + 1) * lz P <= 65535 ->
  loop_rel (sign_loop H fuel false P sk A mu rho'' kappa) (Sign_loop H fuel P A (vNTT s1) (vNTT s2) (vNTT t0) mu rho'' kappa).
Proof.
  intros Hrep EA. destruct sign_params as (Hg1 & Hg2 & Htau & Hl & Hkk & Hbeta & Hbg & Hom).
  induction fuel as [|f IH]; intros kappa Hk0 Hk; [reflexivity|].
  assert (Hk1 : kappa + lz P < 65536) by (unfold lz in *; nia).
  pose proof (sign_attempt_refines sk rho K tr s1 s2 t0 A mu rho'' kappa Hrep EA Hk0 Hk1) as Hat.
  rewrite Sign_loop_step. cbn [sign_loop].
  destruct (Spec_attempt A s1 s2 t0 mu rho'' kappa) as [[[[ct zraw] h]|]|]; cbn [attempt_rel] in Hat.
  - destruct Hat as (z & Er & Rz & Rh & Hw & Hn & Lz256 & Lzl). rewrite Er. cbn [bind loop_rel].
    destruct (accepted_facts z zraw Rz Hn Lz256 Lzl) as [Ec Rzs].
    exists z. split; [reflexivity|]. split; [exact Ec|]. split; [exact Rzs|]. split; [exact Rh|exact Hw].
  - rewrite Hat. cbn [bind].
    replace (lz P <? 65536) with true by (symmetry; apply Z.ltb_lt; unfold lz; lia). cbn [guard bind].
    replace (kappa <=? 65535 - 2 * lz P) with true by (symmetry; apply Z.leb_le; unfold lz in *; nia).
    apply IH; [unfold lz; lia|unfold lz in *; lia].
  - rewrite Hat. reflexivity.
Qed.

(* the loop never panics, whatever the budget: the loop limit answers Err before the 16-bit counter can overflow *)
Theorem sign_loop_no_panic sk rho K tr s1 s2 t0 A mu rho'' :
  sk_repr P sk rho K tr s1 s2 t0 -> ExpandA H P rho = Some A ->
  forall fuel kappa, 0 <= kappa <= 65535 - lz P -> is_panic (sign_loop H fuel false P sk A mu rho'' kappa) = false.
Proof.
  intros Hrep EA. destruct sign_params as (Hg1 & Hg2 & Htau & Hl & Hkk & Hbeta & Hbg & Hom).
  induction fuel as [|f IH]; intros kappa Hk; [reflexivity|].
  pose proof (sign_attempt_refines sk rho K tr s1 s2 t0 A mu rho'' kappa Hrep EA ltac:(lia) ltac:(lia)) as Hat.
  cbn [sign_loop].
  destruct (Spec_attempt A s1 s2 t0 mu rho'' kappa) as [[[[ct zraw] h]|]|]; cbn [attempt_rel] in Hat.
  - destruct Hat as (z & Er & _). rewrite Er. reflexivity.
  - rewrite Hat. cbn [bind].
    replace (lz P <? 65536) with true by (symmetry; apply Z.ltb_lt; unfold lz; lia). cbn [guard bind].
    destruct (kappa <=? 65535 - 2 * lz P) eqn:E; [|reflexivity]. apply Z.leb_le in E. apply IH. unfold lz in *. lia.
  - rewrite Hat. reflexivity.
Qed.

Lemma sign_loop_ok_facts sk rho K tr s1 s2 t0 A mu rho'' ct z h :
  sk_repr P sk rho K tr s1 s2 t0 -> ExpandA H P rho = Some A ->
  forall fuel kappa, 0 <= kappa <= 65535 - lz P -> sign_loop H fuel false P sk A mu rho'' kappa = Ok (ct, z, h) ->
  exists zs, mapM (mapM center_mod) z = Ok zs /\ rvec (p_gamma1 P - 1) (p_gamma1 P) (p_l P) zs /\ rvec 0 1 (p_k P) h /\ weight h <= p_omega P.
Proof.
  intros Hrep EA. destruct sign_params as (Hg1 & Hg2 & Htau & Hl & Hkk & Hbeta & Hbg & Hom).
  induction fuel as [|f IH]; intros kappa Hk E; [discriminate|].
  pose proof (sign_attempt_refines sk rho K tr s1 s2 t0 A mu rho'' kappa Hrep EA ltac:(lia) ltac:(lia)) as Hat.
  cbn [sign_loop] in E.
  destruct (Spec_attempt A s1 s2 t0 mu rho'' kappa) as [[[[ct' zraw] h']|]|]; cbn [attempt_rel] in Hat.
  - destruct Hat as (z' & Er & Rz & Rh & Hw & Hn & Lz256 & Lzl). rewrite Er in E. cbn [bind] in E. injection E as <- <- <-.
    destruct (accepted_facts z' zraw Rz Hn Lz256 Lzl) as [Ec Rzs]. eexists. split; [exact Ec|]. split; [exact Rzs|]. split; assumption.
  - rewrite Hat in E. cbn [bind] in E.
    replace (lz P <? 65536) with true in E by (symmetry; apply Z.ltb_lt; unfold lz; lia). cbn [guard bind] in E.
    destruct (kappa <=? 65535 - 2 * lz P) eqn:El; [|discriminate]. apply Z.leb_le in El. apply (IH (kappa + lz P)); [unfold lz in *; lia|exact E].
  - rewrite Hat in E. discriminate.
Qed.

Theorem sign_internal_no_panic fuel sk rho K tr s1 s2 t0 m ctx oid phm rnd nist :
  sk_repr P sk rho K tr s1 s2 t0 -> zlen rho = 32 ->
  is_panic (sign_internal H fuel false P sk m ctx oid phm rnd nist) = false.
Proof.
  intros Hrep Lr. pose proof Hrep as (Er & Ek & Et & _). destruct sign_params as (Hg1 & Hg2 & Htau & Hl & Hkk & Hbeta & Hbg & Hom).
  unfold sign_internal. rewrite Er, Ek, Et.
  rewrite (expand_a_spec H HL P rho HP Lr). destruct (ExpandA H P rho) as [A|] eqn:EA; cbn [res_fuel bind]; [|reflexivity].
  set (mu := mu_of H tr _ m ctx). set (rho'' := h_shake256 H _ 64).
  pose proof (sign_loop_no_panic sk rho K tr s1 s2 t0 A mu rho'' Hrep EA fuel 0 ltac:(unfold lz; lia)) as Hnp.
  destruct (sign_loop H fuel false P sk A mu rho'' 0) as [[[ct z] h]| e | site |] eqn:EL; cbn [bind]; try reflexivity; [|discriminate].
  destruct (sign_loop_ok_facts sk rho K tr s1 s2 t0 A mu rho'' ct z h Hrep EA fuel 0 ltac:(unfold lz; lia) EL) as (zs & Ec & Rz & Rh & Hw).
  rewrite Ec. cbn [bind]. rewrite (sig_encode_spec ct zs h Rz Rh Hw). reflexivity.
Qed.

(* ---------- Algorithm 25: the crate's sk_decode returns FIPS 204 skDecode ---------- *)
Lemma section_is_spec sk start a b n (v : list (list Z)) (cn : nat) : valid_ab a b -> 0 < a -> BitPackProofs.bytes_ok sk -> 0 <= start ->
  Z.of_nat cn = 32 * Helpers.bitlen (a + b) ->
  mapM (fun i => let i := Z.of_nat i in
          bit_unpack (zslice (start + i * (32 * Helpers.bitlen (a + b))) (start + (i + 1) * (32 * Helpers.bitlen (a + b))) sk) a b) (seq 0 n) = Ok v ->
  v = map (fun y => BitUnpack y a b) (chunks cn n (zdrop start sk)).
Proof.
  intros Hab Ha Hb Hs Hcn Hm. rewrite (chunks_zslice sk start cn n Hs), map_map. apply mapM_Ok_inv in Hm. cbv zeta in Hm. rewrite Hcn.
  induction Hm as [|i p is v Hip Hm IH]; [reflexivity|]. cbn [map]. rewrite IH. f_equal.
  apply (bit_unpack_is_BitUnpack a b _ p Hab Ha (zslice_bytes_ok _ _ _ Hb) Hip).
Qed.

Theorem sk_decode_spec skb rho K tr s1 s2 t0 : BitPackProofs.bytes_ok skb ->
  sk_decode P skb = Ok (rho, K, tr, s1, s2, t0) -> skDecode P skb = (rho, K, tr, s1, s2, t0).
Proof.
  intros Hb Hd. destruct (params_facts P HP) as (Heta & Hab & _ & Hform & Hl & Hk & Htot).
  assert (Hstep : Helpers.bitlen (2 * p_eta P) = Helpers.bitlen (p_eta P + p_eta P)) by (f_equal; lia).
  assert (Hsn : Z.of_nat (32 * SpecConv.bitlen (2 * p_eta P)) = 32 * Helpers.bitlen (p_eta P + p_eta P)) by (destruct Heta as [E|E]; rewrite E; reflexivity).
  assert (He0 : 0 < p_eta P) by (destruct Heta as [E|E]; rewrite E; lia).
  unfold sk_decode in Hd.
  replace ((p_eta P =? 2) || (p_eta P =? 4)) with true in Hd by (destruct Heta as [E|E]; rewrite E; reflexivity).
  rewrite Hform, Z.eqb_refl in Hd. cbn [guard bind] in Hd. rewrite Hstep in Hd.
  match type of Hd with context [mapM ?f (seq 0 (p_l P))] => destruct (mapM f (seq 0 (p_l P))) as [s1'| | |] eqn:E1; cbn [bind] in Hd; try discriminate end.
  match type of Hd with context [mapM ?f (seq 0 (p_k P))] => destruct (mapM f (seq 0 (p_k P))) as [s2'| | |] eqn:E2; cbn [bind] in Hd; try discriminate end.
  match type of Hd with context [mapM ?f (seq 0 (p_k P))] => destruct (mapM f (seq 0 (p_k P))) as [t0'| | |] eqn:E3; cbn [bind] in Hd; try discriminate end.
  match type of Hd with context [guard ?c _] => destruct c; cbn [guard bind] in Hd; try discriminate end.
  injection Hd as <- <- <- <- <- <-.
  set (st := 32 * Helpers.bitlen (p_eta P + p_eta P)) in *.
  assert (Hst : 0 <= st) by (unfold st; pose proof (bitlen_ab _ _ Hab); lia).
  apply (section_is_spec skb 128 _ _ _ _ (32 * SpecConv.bitlen (2 * p_eta P)) Hab He0 Hb ltac:(lia) Hsn) in E1.
  assert (Hs2 : 0 <= 128 + lz P * st) by (unfold lz; nia).
  apply (section_is_spec skb _ _ _ _ _ (32 * SpecConv.bitlen (2 * p_eta P)) Hab He0 Hb Hs2 Hsn) in E2.
  assert (Hab0 : valid_ab (TOP - 1) TOP) by (change (TOP - 1) with 4095; change TOP with 4096; unfold valid_ab; lia).
  change (32 * D) with (32 * Helpers.bitlen (TOP - 1 + TOP)) in E3.
  assert (Ht0 : 0 < TOP - 1) by (change (TOP - 1) with 4095; lia).
  assert (Hs3 : 0 <= 128 + lz P * st + kz P * st) by (unfold lz, kz; nia).
  apply (section_is_spec skb _ (TOP - 1) TOP _ _ (Z.to_nat (32 * d)) Hab0 Ht0 Hb Hs3 ltac:(reflexivity)) in E3.
  unfold skDecode. cbv zeta. rewrite E1, E2, E3.
  assert (D2 : skipn (32 * SpecConv.bitlen (2 * p_eta P) * p_l P) (zdrop 128 skb) = zdrop (128 + lz P * st) skb).
  { unfold zdrop. rewrite skipn_skipn'. f_equal. apply Nat2Z.inj. rewrite Z2Nat.id by lia. rewrite Nat2Z.inj_add, Nat2Z.inj_mul, Hsn. fold st. unfold lz. lia. }
  assert (D3 : skipn (32 * SpecConv.bitlen (2 * p_eta P) * p_k P) (zdrop (128 + lz P * st) skb) = zdrop (128 + lz P * st + kz P * st) skb).
  { unfold zdrop. rewrite skipn_skipn'. f_equal. apply Nat2Z.inj. rewrite Z2Nat.id by lia. rewrite Nat2Z.inj_add, Nat2Z.inj_mul, Hsn. fold st. rewrite Z2Nat.id by lia. unfold kz. lia. }
  rewrite D2, D3. reflexivity.
Qed.

(* ---------- Algorithm 7 ---------- *)
Definition Sign_core (fuel : nat) (rho K tr : bytes) (s1 s2 t0 : list (list Z)) (M' rnd : bytes) : option bytes :=
  match ExpandA H P rho with
  | None => None
  | Some A_hat =>
      let mu := h_shake256 H (tr ++ M') 64 in
      let rho'' := h_shake256 H (K ++ rnd ++ mu) 64 in
      match Sign_loop H fuel P A_hat (vNTT s1) (vNTT s2) (vNTT t0) mu rho'' 0 with
      | None => None
      | Some (c_tilde, z, h) => Some (sigEncode P c_tilde z h)
      end
  end.
Lemma Sign_internal_core fuel skb M' rnd :
  Sign_internal H fuel P skb M' rnd = let '(rho, K, tr, s1, s2, t0) := skDecode P skb in Sign_core fuel rho K tr s1 s2 t0 M' rnd.
Proof. unfold Sign_internal, Sign_core. destruct (skDecode P skb) as [[[[[rho K] tr] s1] s2] t0]. reflexivity. Qed.

Theorem sign_internal_refines fuel sk rho K tr s1 s2 t0 m ctx oid phm rnd nist :
  sk_repr P sk rho K tr s1 s2 t0 -> zlen rho = 32 -> (Z.of_nat fuel + 1) * lz P <= 65535 ->
  sign_internal H fuel false P sk m ctx oid phm rnd nist
    = res_fuel (Sign_core fuel rho K tr s1 s2 t0 (Mprime (mode_of nist oid phm) m ctx) rnd).
Proof.
  intros Hrep Lr Hf. pose proof Hrep as (Er & Ek & Et & _).
  unfold sign_internal, Sign_core. rewrite Er, Ek, Et.
  rewrite (expand_a_spec H HL P rho HP Lr). destruct (ExpandA H P rho) as [A|] eqn:EA; cbn [res_fuel bind]; [|reflexivity].
  rewrite mu_of_Mprime. set (mu := h_shake256 H _ 64). set (rho'' := h_shake256 H _ 64).
  pose proof (sign_loop_refines sk rho K tr s1 s2 t0 A mu rho'' Hrep EA fuel 0 ltac:(lia) ltac:(lia)) as Hloop.
  destruct (Sign_loop H fuel P A (vNTT s1) (vNTT s2) (vNTT t0) mu rho'' 0) as [[[ct zs] h]|]; cbn [loop_rel] in Hloop.
  - destruct Hloop as (z & Er' & Ec & Rz & Rh & Hw). rewrite Er'. cbn [bind]. rewrite Ec. cbn [bind res_fuel].
    apply (sig_encode_spec ct zs h Rz Rh Hw).
  - rewrite Hloop. reflexivity.
Qed.

(* a private key that deserialisation accepted: the struct represents skDecode of its bytes *)
Theorem accepted_key_repr skb sk : BitPackProofs.bytes_ok skb -> zlen skb = p_sk_len P -> sk_try_from_bytes P skb = Ok sk ->
  exists rho K tr s1 s2 t0, skDecode P skb = (rho, K, tr, s1, s2, t0) /\ sk_repr P sk rho K tr s1 s2 t0 /\ zlen rho = 32.
Proof.
  intros Hb Hl E. destruct (expand_private_repr P skb sk HP Hb Hl E) as (rho & K & tr & s1 & s2 & t0 & Ed & Hrep).
  exists rho, K, tr, s1, s2, t0. split; [apply (sk_decode_spec skb _ _ _ _ _ _ Hb Ed)|]. split; [exact Hrep|].
  apply (sk_decode_byte_fields P skb rho K tr s1 s2 t0 HP Hl Ed).
Qed.

Definition res_sign (r : sign_result) : res bytes :=
  match r with SR_ctx_too_long => Err CtxTooLong | SR_out_of_fuel => OutOfFuel | SR_sig s => Ok s end.

(* the three signing entry points, for a key given by its byte string *)
Section API.
Variable fuel : nat.
Hypothesis Hfuel : (Z.of_nat fuel + 1) * lz P <= 65535.
Variables (skb : bytes) (sk : PrivateKey).
Hypothesis Hb : BitPackProofs.bytes_ok skb.
Hypothesis Hl : zlen skb = p_sk_len P.
Hypothesis Hsk : sk_try_from_bytes P skb = Ok sk.

Lemma sign_internal_bytes m ctx oid phm rnd nist :
  sign_internal H fuel false P sk m ctx oid phm rnd nist
    = res_fuel (Sign_internal H fuel P skb (Mprime (mode_of nist oid phm) m ctx) rnd).
Proof.
  destruct (accepted_key_repr skb sk Hb Hl Hsk) as (rho & K & tr & s1 & s2 & t0 & Ed & Hrep & Lr).
  rewrite Sign_internal_core, Ed. apply (sign_internal_refines fuel sk rho K tr s1 s2 t0 m ctx oid phm rnd nist Hrep Lr Hfuel).
Qed.

(* ML-DSA.Sign (Algorithm 2) with the 32 bytes the caller's generator returned *)
Theorem try_sign_refines rnd g M ctx : zlen rnd = 32 ->
  try_sign_with_rng H fuel P sk (Fill rnd :: g) M ctx = (res_sign (Sign H fuel P skb M ctx rnd), if 255 <? zlen ctx then Fill rnd :: g else g).
Proof.
  intros Lrnd. unfold try_sign_with_rng, Sign. change ctx_max_try_sign_with_rng with 255. rewrite Z.leb_antisym.
  destruct (255 <? zlen ctx); cbn [negb]; [reflexivity|].
  unfold try_fill. change rnd_len_try_sign_with_rng with 32. rewrite Lrnd. cbn [Z.eqb Pos.eqb].
  rewrite (sign_internal_bytes M ctx [] [] rnd false). cbn [mode_of Mprime].
  destruct (Sign_internal H fuel P skb (M_pure M ctx) rnd); reflexivity.
Qed.

(* HashML-DSA.Sign (Algorithm 4) *)
Theorem try_hash_sign_refines rnd g M ctx ph : zlen rnd = 32 ->
  try_hash_sign_with_rng H fuel P sk (Fill rnd :: g) M ctx ph
    = (res_sign (HashSign H fuel P skb M ctx (ph_to_spec ph) rnd), if 255 <? zlen ctx then Fill rnd :: g else g).
Proof.
  intros Lrnd. unfold try_hash_sign_with_rng, HashSign. change ctx_max_try_hash_sign_with_rng with 255. rewrite Z.leb_antisym.
  destruct (255 <? zlen ctx); cbn [negb]; [reflexivity|].
  unfold try_fill. change rnd_len_try_hash_sign_with_rng with 32. rewrite Lrnd. cbn [Z.eqb Pos.eqb].
  rewrite (prehash_table H HL). rewrite (sign_internal_bytes M ctx _ _ rnd false). cbn [mode_of].
  destruct (OID (ph_to_spec ph)) as [|o oid] eqn:Eo; [destruct ph; discriminate|]. cbn [Mprime]. unfold M_hash. rewrite Eo.
  destruct (Sign_internal H fuel P skb _ rnd); reflexivity.
Qed.

(* ML-DSA.Sign_internal (Algorithm 7) through the deprecated internal entry point *)
Theorem internal_sign_refines rnd M ctx : zlen ctx <= 255 ->
  internal_sign H fuel P sk M ctx rnd = res_fuel (Sign_internal H fuel P skb M rnd).
Proof.
  intros Hc. unfold internal_sign. change ctx_max_internal_sign with 255.
  replace (zlen ctx <=? 255) with true by (symmetry; apply Z.leb_le; exact Hc). cbn [negb].
  apply (sign_internal_bytes M ctx [] [] rnd true).
Qed.
End API.

(* no signing entry point panics, for any loop budget and any behaviour of the caller's generator *)
Theorem sign_api_no_panic fuel skb sk g M ctx ph rnd : BitPackProofs.bytes_ok skb -> zlen skb = p_sk_len P -> sk_try_from_bytes P skb = Ok sk ->
  is_panic (fst (try_sign_with_rng H fuel P sk g M ctx)) = false /\
  is_panic (fst (try_hash_sign_with_rng H fuel P sk g M ctx ph)) = false /\
  is_panic (internal_sign H fuel P sk M ctx rnd) = false.
Proof.
  intros Hb Hl Hsk. destruct (accepted_key_repr skb sk Hb Hl Hsk) as (rho & K & tr & s1 & s2 & t0 & _ & Hrep & Lr).
  split; [|split].
  - unfold try_sign_with_rng. destruct (negb _); [reflexivity|]. destruct (try_fill g _) as [[b|] g']; cbn [fst]; [|reflexivity].
    apply (sign_internal_no_panic fuel sk rho K tr s1 s2 t0 _ _ _ _ _ _ Hrep Lr).
  - unfold try_hash_sign_with_rng. destruct (negb _); [reflexivity|]. destruct (try_fill g _) as [[b|] g']; cbn [fst]; [|reflexivity].
    destruct (hash_message H M ph) as [oid phm]. cbn [fst]. apply (sign_internal_no_panic fuel sk rho K tr s1 s2 t0 _ _ _ _ _ _ Hrep Lr).
  - unfold internal_sign. destruct (negb _); [reflexivity|]. apply (sign_internal_no_panic fuel sk rho K tr s1 s2 t0 _ _ _ _ _ _ Hrep Lr).
Qed.
End S.
