(* Private-key deserialisation (C10): sk_try_from_bytes accepts exactly the byte strings whose s1/s2
   fields are all at most 2*eta, answers Err Malformed otherwise, and never panics. *)
Require Import F204.Base.Util F204.Base.Mach F204.Base.Bits F204.Base.ListLemmas F204.Gen.Params F204.Hash.HashIface
  F204.Impl.Helpers F204.Impl.Ntt F204.Impl.Conversion F204.Impl.Encodings F204.Impl.MlDsa F204.Impl.Api
  F204.Proofs.KernelLemmas F204.Proofs.NttRefine F204.Proofs.NttRing F204.Proofs.NttPipeline F204.Proofs.BitPackProofs.
Open Scope Z_scope.
Arguments Z.mul : simpl never.
Arguments Z.add : simpl never.
Arguments Z.pow : simpl never.

(* the 256 fields of c bits of a packed polynomial: base-2^c digits of its little-endian value *)
Fixpoint digits (c : Z) (n : nat) (N : Z) : list Z :=
  match n with O => [] | S n' => N mod 2 ^ c :: digits c n' (N / 2 ^ c) end.
Definition fields (c : Z) (v : bytes) : list Z := digits c 256 (le_int v).

Lemma digits_dval c ds : 0 < c -> digits_ok c ds -> digits c (length ds) (dval c ds) = ds.
Proof.
  intros Hc H. assert (Hp : 0 < 2 ^ c) by (apply Z.pow_pos_nonneg; lia).
  induction H as [|d ds Hd H IH]; [reflexivity|]. cbn [length digits dval].
  assert (E1 : (d + 2 ^ c * dval c ds) mod 2 ^ c = d).
  { replace (d + 2 ^ c * dval c ds) with (d + dval c ds * 2 ^ c) by ring. rewrite Z_mod_plus_full. apply Z.mod_small. exact Hd. }
  assert (E2 : (d + 2 ^ c * dval c ds) / 2 ^ c = dval c ds).
  { replace (d + 2 ^ c * dval c ds) with (d + dval c ds * 2 ^ c) by ring. rewrite Z.div_add by lia. rewrite Z.div_small by exact Hd. lia. }
  rewrite E1, E2, IH. reflexivity.
Qed.

Lemma bit_unpack_fields a b v : valid_ab a b -> bytes_ok v -> Z.of_nat (length v) = 32 * bitlen (a + b) ->
  (Forall (fun d => d <= a + b) (fields (bitlen (a + b)) v) -> bit_unpack v a b = Ok (map (dec a b) (fields (bitlen (a + b)) v)))
  /\ (Exists (fun d => a + b < d) (fields (bitlen (a + b)) v) -> bit_unpack v a b = Err Malformed).
Proof.
  intros Hab Hbv Hlen. destruct (bit_unpack_accepts_iff a b v Hab Hbv Hlen) as (ds & Hd & Hl & Hv & Hacc & Hrej).
  destruct (bitlen_ab a b Hab) as [Hc _].
  assert (E : fields (bitlen (a + b)) v = ds).
  { unfold fields. rewrite <- Hv. rewrite <- Hl. apply digits_dval; [lia|exact Hd]. }
  rewrite E. split; assumption.
Qed.

(* monadic maps: all succeed, or the first failure is returned *)
Lemma mapM_all_ok {A B} (f : A -> res B) (g : A -> B) l : (forall x, In x l -> f x = Ok (g x)) -> mapM f l = Ok (map g l).
Proof. intros H. apply mapM_ok. exact H. Qed.
Lemma mapM_err {A B} (f : A -> res B) (g : A -> B) e l :
  (forall x, In x l -> f x = Ok (g x) \/ f x = Err e) -> (exists x, In x l /\ f x = Err e) -> mapM f l = Err e.
Proof.
  induction l as [|a l IH]; intros Hall [x [Hin Hx]]; [contradiction|]. cbn [mapM].
  destruct (Hall a (or_introl eq_refl)) as [Ea|Ea]; rewrite Ea; cbn [bind]; [|reflexivity].
  destruct Hin as [->|Hin]; [congruence|].
  rewrite IH; [reflexivity| |exists x; split; assumption]. intros y Hy. apply Hall. right. exact Hy.
Qed.

Lemma zslice_length {A} (l : list A) a b : 0 <= a <= b -> b <= zlen l -> Z.of_nat (length (zslice a b l)) = b - a.
Proof.
  intros Ha Hb. unfold zslice, ztake, zdrop, zlen in *. rewrite firstn_length, skipn_length. lia.
Qed.
Lemma zslice_bytes_ok l a b : bytes_ok l -> bytes_ok (zslice a b l).
Proof. intros H. unfold zslice, ztake, zdrop. apply Forall_firstn, Forall_skipn. exact H. Qed.

(* the chunk of the i-th polynomial of a section starting at [start] with [step] bytes per polynomial *)
Definition chunk (sk : bytes) (start step : Z) (i : nat) : bytes := zslice (start + Z.of_nat i * step) (start + (Z.of_nat i + 1) * step) sk.

Lemma digits_range cw : 0 < cw -> forall n N, Forall (fun d => 0 <= d < 2 ^ cw) (digits cw n N).
Proof.
  intros Hc. assert (Hp : 0 < 2 ^ cw) by (apply Z.pow_pos_nonneg; lia).
  induction n as [|n IH]; intros N; cbn [digits]; constructor; [apply Z.mod_pos_bound; lia|apply IH].
Qed.
Lemma digits_length cw n N : length (digits cw n N) = n.
Proof. revert N. induction n as [|n IH]; intros N; cbn [digits length]; [reflexivity|]. rewrite IH. reflexivity. Qed.

Lemma forall_or_exists (bound : Z) (l : list Z) : Forall (fun d => d <= bound) l \/ Exists (fun d => bound < d) l.
Proof.
  induction l as [|d l [IH|IH]]; [left; constructor| |right; apply Exists_cons_tl; exact IH].
  destruct (Z.le_gt_cases d bound) as [H|H]; [left; constructor; assumption|right; apply Exists_cons_hd; lia].
Qed.

Section SK.
Variable P : Params.
Hypothesis HP : In P all_params.
Let eta := p_eta P.
Let c := bitlen (2 * eta).
Let step := 32 * c.
Let s1_start := 128.
Let s2_start := 128 + lz P * step.
Let t0_start := 128 + lz P * step + kz P * step.

Definition s_chunks (sk : bytes) : list bytes :=
  map (chunk sk s1_start step) (seq 0 (p_l P)) ++ map (chunk sk s2_start step) (seq 0 (p_k P)).

Lemma params_facts : (eta = 2 \/ eta = 4) /\ valid_ab eta eta /\ c = bitlen (eta + eta)
  /\ p_sk_len P = sk_len_formula P /\ 0 <= lz P <= 7 /\ 0 <= kz P <= 8
  /\ p_sk_len P = t0_start + kz P * (32 * D).
Proof.
  unfold eta, c, t0_start, step, c, eta. destruct HP as [<- | [<- | [<- | []]]]; vm_compute; repeat split; try congruence; auto.
Qed.

Definition chunk_ok (ch : bytes) : Prop := Forall (fun d => d <= 2 * eta) (fields c ch).
Definition chunk_bad (ch : bytes) : Prop := Exists (fun d => 2 * eta < d) (fields c ch).
Lemma chunks_ok_or_bad (l : list bytes) : Forall chunk_ok l \/ Exists chunk_bad l.
Proof.
  induction l as [|ch l [IH|IH]]; [left; constructor| |right; apply Exists_cons_tl; exact IH].
  destruct (forall_or_exists (2 * eta) (fields c ch)) as [H|H]; [left; constructor; assumption|right; apply Exists_cons_hd; exact H].
Qed.
Definition dec_s (ch : bytes) : list Z := map (dec eta eta) (fields c ch).
Definition dec_t0 (ch : bytes) : list Z := map (dec 4095 4096) (fields 13 ch).

Lemma section_mapM (sk : bytes) (start : Z) (n : nat) :
  bytes_ok sk -> 0 <= start -> start + Z.of_nat n * step <= zlen sk ->
  (Forall chunk_ok (map (chunk sk start step) (seq 0 n)) ->
     mapM (fun i => let i := Z.of_nat i in bit_unpack (zslice (start + i * step) (start + (i + 1) * step) sk) eta eta) (seq 0 n)
       = Ok (map (fun i => dec_s (chunk sk start step i)) (seq 0 n)))
  /\ (Exists chunk_bad (map (chunk sk start step) (seq 0 n)) ->
     mapM (fun i => let i := Z.of_nat i in bit_unpack (zslice (start + i * step) (start + (i + 1) * step) sk) eta eta) (seq 0 n)
       = Err Malformed).
Proof.
  intros Hb Hs Hend.
  destruct params_facts as (Heta & Hab & Hc & _).
  assert (Hstep : step = 96 \/ step = 128).
  { unfold step, c. destruct Heta as [E|E]; rewrite E; [left|right]; reflexivity. }
  assert (Hchunk : forall i, In i (seq 0 n) ->
            (chunk_ok (chunk sk start step i) -> bit_unpack (chunk sk start step i) eta eta = Ok (dec_s (chunk sk start step i)))
            /\ (chunk_bad (chunk sk start step i) -> bit_unpack (chunk sk start step i) eta eta = Err Malformed)).
  { intros i Hi. apply in_seq in Hi.
    assert (Hl : Z.of_nat (length (chunk sk start step i)) = 32 * bitlen (eta + eta)).
    { unfold chunk. rewrite zslice_length; [rewrite <- Hc; unfold step; lia| destruct Hstep as [E|E]; rewrite E in *; lia | destruct Hstep as [E|E]; rewrite E in *; lia]. }
    pose proof (bit_unpack_fields eta eta (chunk sk start step i) Hab (zslice_bytes_ok _ _ _ Hb) Hl) as [Ha Hr].
    rewrite <- Hc in Ha, Hr. replace (eta + eta) with (2 * eta) in Ha, Hr by lia. split; assumption. }
  split.
  - intros Hall. apply mapM_all_ok. intros i Hi. cbv zeta.
    apply (proj1 (Hchunk i Hi)). rewrite Forall_forall in Hall. apply Hall. apply in_map. exact Hi.
  - intros Hex. apply mapM_err with (g := fun i => dec_s (chunk sk start step i)).
    + intros i Hi. cbv zeta. fold (chunk sk start step i).
      destruct (forall_or_exists (2 * eta) (fields c (chunk sk start step i))) as [Hok|Hbad].
      * left. apply (proj1 (Hchunk i Hi)). exact Hok.
      * right. apply (proj2 (Hchunk i Hi)). exact Hbad.
    + apply Exists_exists in Hex as (ch & Hin & Hbad). apply in_map_iff in Hin as (i & <- & Hi).
      exists i. split; [exact Hi|]. cbv zeta. apply (proj2 (Hchunk i Hi)). exact Hbad.
Qed.

Lemma t0_mapM (sk : bytes) (start : Z) (n : nat) :
  bytes_ok sk -> 0 <= start -> start + Z.of_nat n * (32 * D) <= zlen sk ->
  mapM (fun i => let i := Z.of_nat i in bit_unpack (zslice (start + i * (32 * D)) (start + (i + 1) * (32 * D)) sk) (TOP - 1) TOP) (seq 0 n)
    = Ok (map (fun i => dec_t0 (chunk sk start (32 * D) i)) (seq 0 n)).
Proof.
  intros Hb Hs Hend. apply mapM_all_ok. intros i Hi. cbv zeta. apply in_seq in Hi.
  change (TOP - 1) with 4095. change TOP with 4096. change (32 * D) with 416 in *.
  assert (Hab : valid_ab 4095 4096) by (unfold valid_ab; lia).
  assert (Hl : Z.of_nat (length (chunk sk start 416 i)) = 32 * bitlen (4095 + 4096)).
  { unfold chunk. rewrite zslice_length; [change (bitlen (4095 + 4096)) with 13|..]; lia. }
  fold (chunk sk start 416 i).
  pose proof (bit_unpack_fields 4095 4096 (chunk sk start 416 i) Hab (zslice_bytes_ok _ _ _ Hb) Hl) as [Ha _].
  change (bitlen (4095 + 4096)) with 13 in Ha. apply Ha.
  eapply Forall_impl; [|apply (digits_range 13); lia]. cbn beta. intros d Hd. change (2 ^ 13) with 8192 in Hd. lia.
Qed.

Theorem sk_decode_accepts_iff (sk : bytes) : bytes_ok sk -> zlen sk = p_sk_len P ->
  (Forall chunk_ok (s_chunks sk) ->
     sk_decode P sk = Ok (zslice 0 32 sk, zslice 32 64 sk, zslice 64 128 sk,
                          map (fun i => dec_s (chunk sk s1_start step i)) (seq 0 (p_l P)),
                          map (fun i => dec_s (chunk sk s2_start step i)) (seq 0 (p_k P)),
                          map (fun i => dec_t0 (chunk sk t0_start (32 * D) i)) (seq 0 (p_k P))))
  /\ (Exists chunk_bad (s_chunks sk) -> sk_decode P sk = Err Malformed).
Proof.
  intros Hb Hlen.
  destruct params_facts as (Heta & Hab & Hc & Hform & Hl & Hk & Htot).
  assert (Hstep : step = 96 \/ step = 128).
  { unfold step, c. destruct Heta as [E|E]; rewrite E; [left|right]; reflexivity. }
  assert (HlzP : lz P = Z.of_nat (p_l P)) by reflexivity. assert (HkzP : kz P = Z.of_nat (p_k P)) by reflexivity.
  assert (Hpre : forall X, (_ <- guard ((p_eta P =? 2) || (p_eta P =? 4)) "Alg 25: incorrect eta" ;;
                             _ <- guard (p_sk_len P =? sk_len_formula P) "Alg 25: bad sk/config size" ;; X) = X :> res (bytes * bytes * bytes * list (list Z) * list (list Z) * list (list Z))).
  { intros X. fold eta. replace ((eta =? 2) || (eta =? 4)) with true by (destruct Heta as [E|E]; rewrite E; reflexivity).
    rewrite Hform, Z.eqb_refl. reflexivity. }
  assert (B1 : s1_start + Z.of_nat (p_l P) * step <= zlen sk) by (unfold s1_start; rewrite Hlen, Htot; unfold t0_start; change (32 * D) with 416; destruct Hstep as [E|E]; rewrite E in *; lia).
  assert (B2 : s2_start + Z.of_nat (p_k P) * step <= zlen sk) by (unfold s2_start; rewrite Hlen, Htot; unfold t0_start; change (32 * D) with 416; destruct Hstep as [E|E]; rewrite E in *; lia).
  assert (B3 : t0_start + Z.of_nat (p_k P) * (32 * D) <= zlen sk) by (rewrite Hlen, Htot; lia).
  assert (P2 : 0 <= s2_start) by (unfold s2_start; destruct Hstep as [E|E]; rewrite E; lia).
  assert (P3 : 0 <= t0_start) by (unfold t0_start; destruct Hstep as [E|E]; rewrite E; lia).
  destruct (section_mapM sk s1_start (p_l P) Hb ltac:(unfold s1_start; lia) B1) as [A1 R1].
  destruct (section_mapM sk s2_start (p_k P) Hb P2 B2) as [A2 R2].
  pose proof (t0_mapM sk t0_start (p_k P) Hb P3 B3) as A3.
  unfold sk_decode. rewrite Hpre. unfold s_chunks.
  unfold s1_start, s2_start, t0_start, step, c, eta in *. cbv zeta in *. split.
  - intros Hall. apply Forall_app in Hall as [H1 H2].
    rewrite (A1 H1). cbn [bind]. rewrite (A2 H2). cbn [bind]. rewrite A3. cbn [bind].
    match goal with |- context [guard (?x =? zlen sk) _] => replace (x =? zlen sk) with true by (symmetry; apply Z.eqb_eq; rewrite Hlen, Htot; reflexivity) end.
    reflexivity.
  - intros Hex. apply Exists_app in Hex. destruct Hex as [H1|H2].
    + rewrite (R1 H1). reflexivity.
    + destruct (chunks_ok_or_bad (map (chunk sk s1_start step) (seq 0 (p_l P)))) as [Hok|Hbad].
      * rewrite (A1 Hok). cbn [bind]. rewrite (R2 H2). reflexivity.
      * rewrite (R1 Hbad). reflexivity.
Qed.
End SK.

(* ---------- from sk_decode to the API: PrivateKey::try_from_bytes ---------- *)
Lemma to_mont_vec_ok v : Forall (poly256 NTT_OUT) v -> exists r, to_mont v = Ok r.
Proof.
  intros H. exists (map (map to_mont_val) v). unfold to_mont.
  apply mapM_pure with (P := poly256 NTT_OUT); [|exact H].
  intros p [Hb _]. apply to_mont_poly_ok. eapply bounded_mono; [|exact Hb]. unfold NTT_OUT. lia.
Qed.
Lemma ntt_mont_ok v : Forall (poly256 NTT_IN) v -> exists r, ntt_mont v = Ok r.
Proof.
  intros H. unfold ntt_mont. destruct (ntt_vec_ok v H) as (sh & E & _ & B). rewrite E. cbn [bind]. apply to_mont_vec_ok. exact B.
Qed.

Theorem sk_try_from_bytes_iff (P : Params) (HP : In P all_params) (sk : bytes) : bytes_ok sk -> zlen sk = p_sk_len P ->
  (Forall (chunk_ok P) (s_chunks P sk) -> exists key, sk_try_from_bytes P sk = Ok key)
  /\ (Exists (chunk_bad P) (s_chunks P sk) -> sk_try_from_bytes P sk = Err Malformed).
Proof.
  intros Hb Hlen. destruct (sk_decode_accepts_iff P HP sk Hb Hlen) as [Hacc Hrej].
  destruct (params_facts P HP) as (Heta & _).
  assert (Hcpos : 0 < bitlen (2 * p_eta P)) by (destruct Heta as [E|E]; rewrite E; reflexivity).
  unfold sk_try_from_bytes, expand_private. split.
  - intros Hall. rewrite (Hacc Hall). cbn [bind].
    assert (Hs : forall start n, Forall (chunk_ok P) (map (chunk sk start (32 * bitlen (2 * p_eta P))) (seq 0 n)) ->
                 Forall (poly256 NTT_IN) (map (fun i => dec_s P (chunk sk start (32 * bitlen (2 * p_eta P)) i)) (seq 0 n))).
    { intros start n Hok. apply Forall_forall. intros p Hin. apply in_map_iff in Hin as (i & <- & Hi).
      rewrite Forall_forall in Hok. specialize (Hok _ (in_map _ _ _ Hi)). unfold chunk_ok in Hok.
      unfold dec_s, fields. split; [|rewrite map_length, digits_length; reflexivity].
      apply Forall_forall. intros x Hx. apply in_map_iff in Hx as (d & <- & Hd).
      rewrite Forall_forall in Hok. specialize (Hok d Hd).
      pose proof (digits_range (bitlen (2 * p_eta P)) Hcpos 256 (le_int (chunk sk start (32 * bitlen (2 * p_eta P)) i))) as Hr.
      rewrite Forall_forall in Hr. specialize (Hr d Hd). unfold dec, NTT_IN.
      destruct (p_eta P =? 0) eqn:E0; [apply Z.eqb_eq in E0; destruct Heta; lia|]. destruct Heta as [E|E]; rewrite E in *; lia. }
    unfold s_chunks in Hall. apply Forall_app in Hall as [H1 H2].
    destruct (ntt_mont_ok _ (Hs _ _ H1)) as (r1 & E1). destruct (ntt_mont_ok _ (Hs _ _ H2)) as (r2 & E2).
    assert (H3 : Forall (poly256 NTT_IN) (map (fun i => dec_t0 (chunk sk (128 + lz P * (32 * bitlen (2 * p_eta P)) + kz P * (32 * bitlen (2 * p_eta P))) (32 * D) i)) (seq 0 (p_k P)))).
    { apply Forall_forall. intros p Hin. apply in_map_iff in Hin as (i & <- & Hi). unfold dec_t0, fields.
      split; [|rewrite map_length, digits_length; reflexivity].
      apply Forall_forall. intros x Hx. apply in_map_iff in Hx as (d & <- & Hd).
      pose proof (digits_range 13 ltac:(lia) 256 (le_int (chunk sk (128 + lz P * (32 * bitlen (2 * p_eta P)) + kz P * (32 * bitlen (2 * p_eta P))) (32 * D) i))) as Hr.
      rewrite Forall_forall in Hr. specialize (Hr d Hd). change (2 ^ 13) with 8192 in Hr. unfold dec, NTT_IN. cbn. lia. }
    destruct (ntt_mont_ok _ H3) as (r3 & E3).
    rewrite E1. cbn [bind]. rewrite E2. cbn [bind]. rewrite E3. cbn [bind]. eexists. reflexivity.
  - intros Hex. rewrite (Hrej Hex). reflexivity.
Qed.
