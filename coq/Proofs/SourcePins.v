(* Source pins (translator T2): facts about the text of /repo/src that the model takes for granted, regenerated on every run
   and compared here with the values the model was written against.
   * panic_sites: every explicit panic site of the crate (debug_assert!/assert!/expect/unwrap/panic!...) with its message and the text of the asserted condition.  The
     model has a guard or a Panic outcome for each; a site that is added, removed or reworded is a way to panic (or not) that the
     no-panic theorems do not speak about.
   * lib_impl_methods: the methods each trait impl of lib.rs defines.  The OS-RNG entry points (try_keygen, try_sign,
     try_hash_sign) are the provided methods of traits.rs, i.e. the _with_rng variants applied to OsRng; an override in the impl
     would bypass the context-length guard and the single 32-byte draw the theorems are about. *)
Require Import ZArith List String Bool. Import ListNotations.
Require Import F204.Gen.Guards F204.Gen.Features.
Open Scope string_scope.
Open Scope bool_scope.

Lemma panic_sites_pinned : panic_sites =
[
  ("conversion.rs", "debug_assert", "Alg 15: incorrect eta", "(eta==2)||(eta==4)");
  ("conversion.rs", "debug_assert", "Alg 15: b out of range", "b<16");
  ("conversion.rs", "debug_assert", "Alg 16: b out of range", "(1..1024*1024).contains(&b)");
  ("conversion.rs", "debug_assert", "Alg 16: w out of range", "is_in_range(w,0,b)");
  ("conversion.rs", "debug_assert_eq", "Alg 16: incorrect size of output bytes", "bytes_out.len(),32*bit_length(b)");
  ("conversion.rs", "debug_assert", "Alg 17: a out of range", "(0..(1024*1024)).contains(&a)");
  ("conversion.rs", "debug_assert", "Alg 17: b out of range", "(1..(1024*1024)).contains(&b)");
  ("conversion.rs", "debug_assert", "Alg 17: w out of range", "is_in_range(w,a,b)");
  ("conversion.rs", "debug_assert_eq", "Alg 17: bad output size", "w.0.len()*bit_length(a+b),bytes_out.len()*8");
  ("conversion.rs", "debug_assert", "Alg 18: b out of range", "(1..(1024*1024)).contains(&b)");
  ("conversion.rs", "debug_assert_eq", "Alg 18: bad output size", "v.len(),32*bit_length(b)");
  ("conversion.rs", "debug_assert", "Alg 19: a out of range", "(0..(1024*1024)).contains(&a)");
  ("conversion.rs", "debug_assert", "Alg 19: b out of range", "(1..(1024*1024)).contains(&b)");
  ("conversion.rs", "debug_assert_eq", "Alg 19: bad output size", "v.len(),32*bit_length(a+b)");
  ("conversion.rs", "expect", "Alg 19: try_into fail", "");
  ("conversion.rs", "expect", "Alg 20: try_from fail", "");
  ("conversion.rs", "debug_assert", "Alg 20: omega+K out of range", "(1..256).contains(&(omega_u+K))");
  ("conversion.rs", "debug_assert_eq", "Alg 20: bad output size", "y_bytes.len(),omega_u+K");
  ("conversion.rs", "debug_assert", "Alg 20: h not 0/1", "h.iter().all(|r|is_in_range(r,0,1))");
  ("conversion.rs", "debug_assert", "Alg 20: too many 1's in h", "h.iter().all(|r|r.0.iter().filter(|&e|*e==1).sum::<i32>()<=omega)");
  ("conversion.rs", "expect", "Alg 21: omega try_into fail", "");
  ("conversion.rs", "debug_assert", "Alg 21: omega+K too large", "(1..256).contains(&(omega_u+K))");
  ("conversion.rs", "debug_assert_eq", "Alg 21: bad output size", "y_bytes.len(),omega_u+K");
  ("conversion.rs", "debug_assert", "Alg 21: too many 1's in h", "h.iter().all(|r|r.0.iter().filter(|&&e|e==1).sum::<i32>()<=omega)");
  ("encodings.rs", "debug_assert", "Alg 22: t1 out of range", "t1.iter().all(|t|is_in_range(t,0,(1<<BLQD)-1))");
  ("encodings.rs", "debug_assert_eq", "Alg 22: bad pk/config size", "PK_LEN,32+32*K*BLQD");
  ("encodings.rs", "debug_assert_eq", "Alg 23: incorrect pk length", "pk.len(),32+32*K*BLQD");
  ("encodings.rs", "debug_assert_eq", "Alg 23: bad pk/config size", "PK_LEN,32+32*K*BLQD");
  ("encodings.rs", "expect", "Alg 23: try_from fail", "");
  ("encodings.rs", "debug_assert", "Alg 23: t1 out of range", "t1.iter().all(|t|is_in_range(t,0,(1<<BLQD)-1))");
  ("encodings.rs", "debug_assert", "Alg 24: incorrect eta", "(eta==2)||(eta==4)");
  ("encodings.rs", "debug_assert", "Alg 24: s1 out of range", "s_1.iter().all(|x|is_in_range(x,eta,eta))");
  ("encodings.rs", "debug_assert", "Alg 24: s2 out of range", "s_2.iter().all(|x|is_in_range(x,eta,eta))");
  ("encodings.rs", "debug_assert", "Alg 24: t0 out of range", "t_0.iter().all(|x|is_in_range(x,top-1,top))");
  ("encodings.rs", "debug_assert_eq", "Alg 24: bad sk/config size", "SK_LEN,128+32*((K+L)*bit_length(2*eta)+Dasusize*K)");
  ("encodings.rs", "debug_assert_eq", "Alg 24: length miscalc", "start+K*step,sk.len()");
  ("encodings.rs", "debug_assert", "Alg 25: incorrect eta", "(eta==2)||(eta==4)");
  ("encodings.rs", "debug_assert_eq", "Alg 25: bad sk/config size", "SK_LEN,128+32*((K+L)*bit_length(2*eta)+Dasusize*K)");
  ("encodings.rs", "expect", "Alg 25: try_from1 fail", "");
  ("encodings.rs", "expect", "Alg 25: try_from2 fail", "");
  ("encodings.rs", "expect", "Alg 25: try_from3 fail", "");
  ("encodings.rs", "debug_assert_eq", "Alg 25: length miscalc", "start+K*step,sk.len()");
  ("encodings.rs", "debug_assert", "Alg 26: z out of range", "z.iter().all(|x|is_in_range(x,gamma1-1,gamma1))");
  ("encodings.rs", "debug_assert", "Alg 26: h out of range", "h.iter().all(|x|is_in_range(x,0,1))");
  ("encodings.rs", "debug_assert_eq", "Alg 26: bad sig/config size", "SIG_LEN,LAMBDA_DIV4+L*32*(1+bit_length(gamma1-1))+omega.unsigned_abs()asusize+K");
  ("encodings.rs", "debug_assert_eq", "Alg 27: bad sig/config size", "SIG_LEN,LAMBDA_DIV4+L*32*(1+bit_length(gamma1-1))+omega.unsigned_abs()asusize+K");
  ("encodings.rs", "debug_assert_eq", "Alg 28: bad w1_tilde/config size", "w1_tilde.len(),32*K*bit_length(qm1_d_2g_m1)");
  ("encodings.rs", "debug_assert", "Alg 28: w1 out of range", "w1.iter().all(|r|is_in_range(r,0,qm1_d_2g_m1))");
  ("hashing.rs", "expect", "Alg 29: try_from fail", "");
  ("hashing.rs", "debug_assert", "Alg 29: bad hamming weight (a)", "c.0.iter().map(|&e|usize::from(e!=0)).sum::<usize>()==tau");
  ("hashing.rs", "debug_assert", "Alg 29: bad hamming weight (b)", "c.0.iter().map(|&e|e&1).sum::<i32>()==tau.try_into().expect('cannotfail')");
  ("hashing.rs", "expect", "cannot fail", "");
  ("hashing.rs", "debug_assert_eq", "Alg 30: bad rho size", "rhos.iter().map(|&i|i.len()).sum::<usize>(),272/8");
  ("hashing.rs", "debug_assert_eq", "Alg 31: bad rho size", "rhos.iter().map(|&i|i.len()).sum::<usize>(),528/8");
  ("hashing.rs", "debug_assert", "Alg 33: s1 out of range", "s1.iter().all(|r|is_in_range(r,eta,eta))");
  ("hashing.rs", "debug_assert", "Alg 33: s2 out of range", "s2.iter().all(|r|is_in_range(r,eta,eta))");
  ("hashing.rs", "debug_assert", "Alg 34: illegal c", "(c==18)||(c==20)");
  ("hashing.rs", "expect", "Alg 34: try_from1 fail", "");
  ("hashing.rs", "expect", "Alg 34: try_from2 fail", "");
  ("hashing.rs", "debug_assert", "Alg 34: s coeff out of range", "y.iter().all(|r|is_in_range(r,gamma1-1,gamma1))");
  ("helpers.rs", "debug_assert", "partial_reduce64 input", "a.abs()<(67_058_539<<32)");
  ("helpers.rs", "debug_assert", "partial_reduce64 output", "res.abs()<2*Qasi64");
  ("helpers.rs", "debug_assert", "partial_reduce64b output", "res.abs()<2*Qasi64");
  ("helpers.rs", "debug_assert", "partial_reduce32 input", "a.abs()<2_143_289_344");
  ("helpers.rs", "debug_assert", "partial_reduce32 output", "res.abs()<Q");
  ("helpers.rs", "debug_assert", "full_reduce32 input", "a.abs()<2_143_289_344");
  ("helpers.rs", "debug_assert", "full_reduce32 output", "res<Q");
  ("helpers.rs", "debug_assert", "center_mod input", "m.abs()<2_143_289_344");
  ("helpers.rs", "debug_assert_eq", "center_mod output", "m.rem_euclid(Q),res.rem_euclid(Q)");
  ("helpers.rs", "expect", "infinity norm fails", "");
  ("helpers.rs", "debug_assert", "mont_reduce input (a)", "a>=-17_996_808_479_301_632");
  ("helpers.rs", "debug_assert", "mont_reduce input (b)", "a<=17_996_808_470_921_215");
  ("helpers.rs", "debug_assert", "mont_reduce output 1", "res<(Qasi64)");
  ("helpers.rs", "debug_assert", "mont_reduce output 2", "-(Qasi64)<res");
  ("high_low.rs", "debug_assert", "power2round input", "r.iter().flat_map(|row|row.0).all(|element|(0..Q).contains(&element))");
  ("high_low.rs", "debug_assert", "Alg 35: fails", "{letmutresult=true;forkin0..K{fornin0..256{result&=r[k].0[n]==((r_1[k].0[n]<<D)+r_0[k].0[n]);}}result}");
  ("high_low.rs", "debug_assert_eq", "Alg 36: fails", "r.rem_euclid(Q),(xr1*2*gamma2+xr0).rem_euclid(Q)");
  ("ml_dsa.rs", "expect", "cannot fail; L is static parameter", "");
  ("ml_dsa.rs", "expect", "cannot fail; L is static parameter", "");
  ("ml_dsa.rs", "expect", "cannot fail; L is static parameter", "");
  ("ml_dsa.rs", "debug_assert", "Alg 8: i_norm out of range", "infinity_norm(&z)<=gamma1")
].
Proof. reflexivity. Qed.

Lemma lib_impl_methods_pinned : lib_impl_methods =
[
  ("KeyGen", "KG", ["try_keygen_with_rng"; "keygen_from_seed"]);
  ("Signer", "PrivateKey", ["try_sign_with_rng"; "try_hash_sign_with_rng"; "get_public_key"]);
  ("Verifier", "PublicKey", ["verify"; "hash_verify"]);
  ("SerDes", "PrivateKey", ["try_from_bytes"; "into_bytes"]);
  ("SerDes", "PublicKey", ["try_from_bytes"; "into_bytes"])
].
Proof. reflexivity. Qed.

(* hashing.rs - the XOF plumbing and the rejection samplers: calls, method calls, loops and index operations per function, in
   source order.  The model of these functions (Impl/Hashing.v) mirrors exactly this structure: one squeeze per candidate, the
   whole input absorbed piece by piece in one pass. *)
Lemma hashing_skeleton_pinned : hashing_skeleton =
[
  ("h256_xof", ["Shake256::default"; ".for_each"; ".iter"; ".update"; ".finalize_xof"]);
  ("g128_xof", ["Shake128::default"; ".for_each"; ".iter"; ".update"; ".finalize_xof"]);
  ("sample_in_ball", [".expect"; "usize::try_from"; "h256_xof"; ".read"; "<for>"; "[]"; ".to_le_bytes"; ".read"; "<while>"; "usize::from"; "[]"; ".read"; "[]"; "[]"; "usize::from"; "[]"; "[]"; "[]"; "usize::from"; "[]"; "i32::from"; "debug_assert!"; ".sum"; ".map"; ".iter"; "usize::from"; "debug_assert!"; ".sum"; ".map"; ".iter"; ".expect"; ".try_into"]);
  ("rej_ntt_poly", ["debug_assert_eq!"; ".sum"; ".map"; ".iter"; ".len"; "g128_xof"; "<while>"; ".read"; "coeff_from_three_bytes"; "[]"]);
  ("rej_bounded_poly", ["debug_assert_eq!"; ".sum"; ".map"; ".iter"; ".len"; "h256_xof"; "<while>"; ".read"; "coeff_from_half_byte"; "[]"; "coeff_from_half_byte"; "[]"; "[]"; "[]"]);
  ("expand_a", ["core::array::from_fn"; "core::array::from_fn"; "rej_ntt_poly"; "[]"]);
  ("expand_s", ["core::array::from_fn"; "rej_bounded_poly"; "core::array::from_fn"; "rej_bounded_poly"; "debug_assert!"; ".all"; ".iter"; "is_in_range"; "debug_assert!"; ".all"; ".iter"; "is_in_range"]);
  ("expand_mask", ["bit_length"; "debug_assert!"; "<for>"; ".expect"; "u16::try_from"; "h256_xof"; ".to_le_bytes"; ".read"; "[]"; ".expect"; "bit_unpack"; "[]"; "debug_assert!"; ".all"; ".iter"; "is_in_range"]);
  ("hash_message", ["Sha256::new"; "Digest::update"; ".copy_from_slice"; "[]"; ".finalize"; "Sha512::new"; "Digest::update"; ".copy_from_slice"; ".finalize"; "Shake128::default"; ".update"; ".finalize_xof"; ".read"; "[]"])
].
Proof. reflexivity. Qed.

(* conditional compilation (translator T6 lists every cfg gate of src/): outside lib.rs and traits.rs - where the parameter-set
   modules, the OS-RNG entry points and the dudect entry point are gated - the only gates are the test modules.  A gate inside an
   algorithm (e.g. a decoder check kept only under cfg(test) or under the hooks feature) would make the code that the harness
   runs differ from the code users run. *)
Lemma algorithm_files_have_no_cfg_gates :
  forallb (fun g => match g with (file, cond, _, kind, name) =>
             (String.eqb file "lib.rs" || String.eqb file "traits.rs") || (String.eqb cond "test" && String.eqb kind "mod" && String.eqb name "tests") end) gates = true.
Proof. vm_compute. reflexivity. Qed.
