(* The FIPS 204 bit-string algorithms (Alg 9-13, 16-19) in arithmetic terms: BitUnpack reads the
   base-2^c digits of the little-endian value of the byte string.  Hence the crate's bit_unpack
   (Proofs/BitPackProofs.v) equals Spec.BitUnpack / Spec.SimpleBitUnpack. *)
Require Import F204.Base.Util F204.Base.Mach F204.Base.ListLemmas F204.Gen.Params
  F204.Impl.Helpers F204.Impl.Conversion F204.Spec.SpecConv F204.Proofs.BitPackProofs F204.Proofs.SkDecodeProofs.
Open Scope Z_scope.
Arguments Z.mul : simpl never.
Arguments Z.add : simpl never.
Arguments Z.pow : simpl never.
Arguments digits : simpl never.

Lemma bti_app x y : BitsToInteger (x ++ y) = BitsToInteger x + 2 ^ Z.of_nat (length x) * BitsToInteger y.
Proof.
  induction x as [|b x IH]; cbn [app BitsToInteger length].
  - cbn. rewrite Z.pow_0_r. lia.
  - rewrite IH, Nat2Z.inj_succ, Z.pow_succ_r by lia. ring.
Qed.
Lemma bti_range x : 0 <= BitsToInteger x < 2 ^ Z.of_nat (length x).
Proof.
  induction x as [|b x IH]; cbn [BitsToInteger length].
  - cbn. rewrite Z.pow_0_r. lia.
  - rewrite Nat2Z.inj_succ, Z.pow_succ_r by lia. destruct b; cbn [Z.b2z]; lia.
Qed.
Lemma itb_length x n : length (IntegerToBits x n) = n.
Proof. revert x. induction n as [|n IH]; intros x; cbn; [reflexivity|]. rewrite IH. reflexivity. Qed.
Lemma bti_itb x n : 0 <= x -> BitsToInteger (IntegerToBits x n) = x mod 2 ^ Z.of_nat n.
Proof.
  revert x. induction n as [|n IH]; intros x Hx; cbn [IntegerToBits BitsToInteger].
  - cbn. rewrite Z.pow_0_r, Z.mod_1_r. reflexivity.
  - rewrite IH by (apply Z.div_pos; lia). rewrite Nat2Z.inj_succ, Z.pow_succ_r by lia.
    assert (Hp : 0 < 2 ^ Z.of_nat n) by (apply Z.pow_pos_nonneg; lia).
    rewrite Z.rem_mul_r by lia. rewrite Zodd_mod. destruct (Zeq_bool (x mod 2) 1) eqn:E.
    + apply Zeq_bool_eq in E. rewrite E. cbn [Z.b2z]. lia.
    + apply Zeq_bool_neq in E. assert (x mod 2 = 0) by (pose proof (Z.mod_pos_bound x 2); lia). rewrite H. cbn [Z.b2z]. lia.
Qed.

Lemma bti_bytes v : bytes_ok v -> BitsToInteger (BytesToBits v) = le_int v /\ length (BytesToBits v) = (8 * length v)%nat.
Proof.
  intros H. induction H as [|b v Hb H [IH1 IH2]]; [split; reflexivity|].
  unfold BytesToBits in *. cbn [flat_map le_int length]. rewrite bti_app, app_length, itb_length, IH1, IH2.
  rewrite bti_itb by lia. change (2 ^ Z.of_nat 8) with 256. rewrite Z.mod_small by lia. split; lia.
Qed.

Lemma bti_firstn c bits : (c <= length bits)%nat -> BitsToInteger (firstn c bits) = BitsToInteger bits mod 2 ^ Z.of_nat c.
Proof.
  intros Hc. rewrite <- (firstn_skipn c bits) at 2. rewrite bti_app, firstn_length_le by exact Hc.
  replace (BitsToInteger (firstn c bits) + 2 ^ Z.of_nat c * BitsToInteger (skipn c bits))
    with (BitsToInteger (firstn c bits) + BitsToInteger (skipn c bits) * 2 ^ Z.of_nat c) by ring.
  rewrite Z_mod_plus_full. symmetry. apply Z.mod_small.
  pose proof (bti_range (firstn c bits)) as Hr. rewrite firstn_length_le in Hr by exact Hc. exact Hr.
Qed.
Lemma bti_skipn c bits : (c <= length bits)%nat -> BitsToInteger (skipn c bits) = BitsToInteger bits / 2 ^ Z.of_nat c.
Proof.
  intros Hc. rewrite <- (firstn_skipn c bits) at 2. rewrite bti_app, firstn_length_le by exact Hc.
  assert (Hp : 0 < 2 ^ Z.of_nat c) by (apply Z.pow_pos_nonneg; lia).
  replace (BitsToInteger (firstn c bits) + 2 ^ Z.of_nat c * BitsToInteger (skipn c bits))
    with (BitsToInteger (firstn c bits) + BitsToInteger (skipn c bits) * 2 ^ Z.of_nat c) by ring.
  rewrite Z.div_add by lia.
  pose proof (bti_range (firstn c bits)) as Hr. rewrite firstn_length_le in Hr by exact Hc.
  rewrite (Z.div_small (BitsToInteger (firstn c bits))) by exact Hr. lia.
Qed.

Lemma chunks_digits c : forall n bits, (c * n <= length bits)%nat ->
  map BitsToInteger (chunks c n bits) = digits (Z.of_nat c) n (BitsToInteger bits).
Proof.
  induction n as [|n IH]; intros bits Hl; [reflexivity|]. cbn [chunks map digits].
  rewrite bti_firstn by lia. f_equal. rewrite IH by (rewrite skipn_length; lia). rewrite bti_skipn by lia. reflexivity.
Qed.

Lemma bitlen_spec_nat x : 0 < x -> Z.of_nat (SpecConv.bitlen x) = Helpers.bitlen x.
Proof. intros Hx. unfold SpecConv.bitlen, Helpers.bitlen. pose proof (Z.log2_nonneg x). lia. Qed.

Theorem SimpleBitUnpack_digits v b : 0 < b -> bytes_ok v -> Z.of_nat (length v) = 32 * Helpers.bitlen b ->
  SimpleBitUnpack v b = fields (Helpers.bitlen b) v.
Proof.
  intros Hb Hv Hl. unfold SimpleBitUnpack, fields. destruct (bti_bytes v Hv) as [E1 E2].
  rewrite chunks_digits by (rewrite E2; pose proof (bitlen_spec_nat b Hb); lia).
  rewrite E1, bitlen_spec_nat by exact Hb. reflexivity.
Qed.
Theorem BitUnpack_digits v a b : 0 < a + b -> bytes_ok v -> Z.of_nat (length v) = 32 * Helpers.bitlen (a + b) ->
  BitUnpack v a b = map (fun d => b - d) (fields (Helpers.bitlen (a + b)) v).
Proof.
  intros Hab Hv Hl. unfold BitUnpack, fields. destruct (bti_bytes v Hv) as [E1 E2].
  rewrite <- (map_map BitsToInteger (fun d => b - d)).
  rewrite chunks_digits by (rewrite E2; pose proof (bitlen_spec_nat (a + b) Hab); lia).
  rewrite E1, bitlen_spec_nat by exact Hab. reflexivity.
Qed.

Opaque fields.
(* the crate's bit_unpack against the specification *)
Theorem bit_unpack_is_BitUnpack a b v w : valid_ab a b -> 0 < a -> bytes_ok v -> bit_unpack v a b = Ok w -> w = BitUnpack v a b.
Proof.
  intros Hab Ha Hv Hu.
  assert (Hl : Z.of_nat (length v) = 32 * Helpers.bitlen (a + b)).
  { unfold bit_unpack in Hu. repeat (match type of Hu with context [guard ?g _] => destruct g eqn:?; cbn [guard bind] in Hu; try discriminate end).
    match goal with E : (zlen v =? _) = true |- _ => apply Z.eqb_eq in E; exact E end. }
  destruct (bit_unpack_fields a b v Hab Hv Hl) as [Hacc Hrej].
  destruct (forall_or_exists (a + b) (fields (Helpers.bitlen (a + b)) v)) as [Hall|Hex].
  - rewrite (Hacc Hall) in Hu. assert (Ew : w = map (dec a b) (fields (Helpers.bitlen (a + b)) v)) by congruence. rewrite Ew.
    rewrite BitUnpack_digits by (destruct Hab; try lia; assumption).
    apply map_ext. intros d. unfold dec. replace (a =? 0) with false by (symmetry; apply Z.eqb_neq; lia). reflexivity.
  - rewrite (Hrej Hex) in Hu. discriminate.
Qed.
Theorem simple_bit_unpack_is_Spec b v w : valid_ab 0 b -> bytes_ok v -> bit_unpack v 0 b = Ok w -> w = SimpleBitUnpack v b.
Proof.
  intros Hab Hv Hu.
  assert (Hl : Z.of_nat (length v) = 32 * Helpers.bitlen (0 + b)).
  { unfold bit_unpack in Hu. repeat (match type of Hu with context [guard ?g _] => destruct g eqn:?; cbn [guard bind] in Hu; try discriminate end).
    match goal with E : (zlen v =? _) = true |- _ => apply Z.eqb_eq in E; exact E end. }
  destruct (bit_unpack_fields 0 b v Hab Hv Hl) as [Hacc Hrej].
  destruct (forall_or_exists (0 + b) (fields (Helpers.bitlen (0 + b)) v)) as [Hall|Hex].
  - rewrite (Hacc Hall) in Hu. assert (Ew : w = map (dec 0 b) (fields (Helpers.bitlen (0 + b)) v)) by congruence. rewrite Ew.
    replace (0 + b) with b in * by lia.
    rewrite SimpleBitUnpack_digits by (destruct Hab; try lia; assumption).
    rewrite <- (map_id (fields (Helpers.bitlen b) v)) at 2. apply map_ext. intros d. reflexivity.
  - rewrite (Hrej Hex) in Hu. discriminate.
Qed.

(* ---------- packing: Spec.SimpleBitPack / BitPack in arithmetic terms ---------- *)
Transparent fields.
Lemma bti_flat_map c (w : list Z) : digits_ok (Z.of_nat c) w ->
  BitsToInteger (flat_map (fun wi => IntegerToBits wi c) w) = dval (Z.of_nat c) w
  /\ length (flat_map (fun wi => IntegerToBits wi c) w) = (c * length w)%nat.
Proof.
  intros H. induction H as [|x w Hx H [IH1 IH2]]; [split; [reflexivity|cbn; lia]|].
  cbn [flat_map dval length]. rewrite bti_app, app_length, itb_length, IH1, IH2, bti_itb by lia.
  rewrite Z.mod_small by exact Hx. split; lia.
Qed.

Lemma btb_n_spec : forall n y, (8 * n <= length y)%nat ->
  le_int (BitsToBytes_n n y) = BitsToInteger y mod 256 ^ Z.of_nat n /\ length (BitsToBytes_n n y) = n /\ BitPackProofs.bytes_ok (BitsToBytes_n n y).
Proof.
  induction n as [|n IH]; intros y Hl.
  - cbn. rewrite Z.pow_0_r, Z.mod_1_r. repeat split. constructor.
  - cbn [BitsToBytes_n le_int length]. destruct (IH (skipn 8 y)) as (I1 & I2 & I3); [rewrite skipn_length; lia|].
    rewrite I1, I2. rewrite bti_firstn, bti_skipn by lia. change (2 ^ Z.of_nat 8) with 256.
    rewrite Nat2Z.inj_succ, Z.pow_succ_r by lia.
    assert (Hp : 0 < 256 ^ Z.of_nat n) by (apply Z.pow_pos_nonneg; lia).
    repeat split.
    + rewrite Z.rem_mul_r by lia. reflexivity.
    + constructor; [apply Z.mod_pos_bound; lia|exact I3].
Qed.

Lemma SimpleBitPack_value (w : list Z) b c : SpecConv.bitlen b = c -> digits_ok (Z.of_nat c) w -> (Nat.modulo (c * length w) 8 = 0)%nat ->
  le_int (SimpleBitPack w b) = dval (Z.of_nat c) w /\ length (SimpleBitPack w b) = Nat.div (c * length w) 8
  /\ BitPackProofs.bytes_ok (SimpleBitPack w b).
Proof.
  intros Hc Hw Hm. unfold SimpleBitPack, BitsToBytes. rewrite Hc.
  destruct (bti_flat_map c w Hw) as [E1 E2]. set (bits := flat_map (fun wi => IntegerToBits wi c) w) in *.
  rewrite E2. assert (Hdiv : (c * length w = 8 * Nat.div (c * length w) 8)%nat) by (pose proof (Nat.div_mod (c * length w) 8 ltac:(lia)); lia).
  destruct (btb_n_spec (Nat.div (c * length w) 8) bits ltac:(lia)) as (B1 & B2 & B3).
  rewrite B1, E1. repeat split; try assumption.
  apply Z.mod_small. pose proof (dval_bound (Z.of_nat c) w ltac:(lia) Hw) as Hb.
  replace (256 ^ Z.of_nat (Nat.div (c * length w) 8)) with (2 ^ (Z.of_nat c * Z.of_nat (length w))); [exact Hb|].
  change 256 with (2 ^ 8). rewrite <- Z.pow_mul_r by lia. f_equal. lia.
Qed.

(* the crate's simple_bit_pack against the specification *)
Theorem simple_bit_pack_is_Spec (w : list Z) b : 1 <= b < 1048576 -> length w = 256%nat -> is_in_range w 0 b = true ->
  simple_bit_pack w b (32 * Helpers.bitlen b) = Ok (SimpleBitPack w b).
Proof.
  intros Hb Hl Hr. pose proof (proj1 (in_range_forall _ _ _) Hr) as HrF.
  assert (Hab : valid_ab 0 b) by (unfold valid_ab; lia).
  destruct (bit_pack_unpack 0 b w Hab Hl Hr) as (v & Ep & _ & Hbv & Hlv). replace (0 + b) with b in * by lia.
  unfold simple_bit_pack. replace ((1 <=? b) && (b <? 1048576)) with true by (symmetry; apply andb_true_intro; split; [apply Z.leb_le|apply Z.ltb_lt]; lia).
  rewrite Hr, Z.eqb_refl. cbn [guard bind]. rewrite Ep. f_equal.
  (* both byte strings have the same little-endian value and length *)
  destruct (bitlen_ab 0 b Hab) as [Hc Hlt]. replace (0 + b) with b in * by lia.
  set (c := SpecConv.bitlen b).
  assert (Hcz : Z.of_nat c = Helpers.bitlen b) by (apply bitlen_spec_nat; lia).
  assert (Hw : digits_ok (Z.of_nat c) w).
  { eapply Forall_impl; [|exact HrF]. cbn beta. intros x Hx. rewrite Hcz. lia. }
  destruct (SimpleBitPack_value w b c eq_refl Hw) as (S1 & S2 & S3).
  { rewrite Hl. replace (c * 256)%nat with (8 * (c * 32))%nat by lia. rewrite Nat.mul_comm. apply Nat.mod_mul. lia. }
  apply le_int_inj; try assumption.
  - rewrite S2, Hl. replace (c * 256)%nat with ((c * 32) * 8)%nat by lia. rewrite Nat.div_mul by lia. lia.
  - rewrite S1.
    (* value of the crate's output: from the round trip, unpacking v gives w, i.e. its digits are w *)
    unfold bit_pack in Ep.
    repeat (match type of Ep with context [guard ?g _] => destruct g; cbn [guard bind] in Ep; try discriminate end).
    injection Ep as Ev.
    assert (Hwe : Forall (fun x => 0 <= enc 0 b x < 2 ^ Helpers.bitlen b) w).
    { eapply Forall_impl; [|exact HrF]. cbn beta. intros x Hx. unfold enc. cbn. lia. }
    destruct (bit_pack_raw_value 0 b (Helpers.bitlen b) Hc w Hl Hwe) as (ob & Eo & _ & _ & Hvo).
    replace (0 + b) with b in Ev by lia. rewrite (bit_pack_raw_eq w 0 b ob) in Ev by (replace (0 + b) with b by lia; exact Eo).
    subst v. rewrite Hvo, Hcz. f_equal.
    rewrite <- (map_id w) at 2. apply map_ext_in. intros x Hx. rewrite Forall_forall in HrF. specialize (HrF x Hx). unfold enc. cbn. lia.
Qed.
Opaque fields.
