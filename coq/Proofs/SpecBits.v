(* The FIPS 204 bit-string algorithms (Alg 9-13, 16-19) in arithmetic terms: BitUnpack reads the
   base-2^c digits of the little-endian value of the byte string.  Hence the crate's bit_unpack
   (Proofs/BitPackProofs.v) equals Spec.BitUnpack / Spec.SimpleBitUnpack. *)
Require Import F204.Base.Util F204.Base.Mach F204.Base.ListLemmas F204.Gen.Params
  F204.Impl.Helpers F204.Impl.Conversion F204.Spec.SpecConv F204.Proofs.BitPackProofs F204.Proofs.SkDecodeProofs.
Open Scope Z_scope.
Arguments Z.mul : simpl never.
Arguments Z.add : simpl never.
Arguments Z.pow : simpl never.
Arguments digits : simpl never.

Lemma bti_app x y : BitsToInteger (x ++ y) = BitsToInteger x + 2 ^ Z.of_nat (length x) * BitsToInteger y.
Proof.
  induction x as [|b x IH]; cbn [app BitsToInteger length].
  - cbn. rewrite Z.pow_0_r. lia.
  - rewrite IH, Nat2Z.inj_succ, Z.pow_succ_r by lia. ring.
Qed.
Lemma bti_range x : 0 <= BitsToInteger x < 2 ^ Z.of_nat (length x).
Proof.
  induction x as [|b x IH]; cbn [BitsToInteger length].
  - cbn. rewrite Z.pow_0_r. lia.
  - rewrite Nat2Z.inj_succ, Z.pow_succ_r by lia. destruct b; cbn [Z.b2z]; lia.
Qed.
Lemma itb_length x n : length (IntegerToBits x n) = n.
Proof. revert x. induction n as [|n IH]; intros x; cbn; [reflexivity|]. rewrite IH. reflexivity. Qed.
Lemma bti_itb x n : 0 <= x -> BitsToInteger (IntegerToBits x n) = x mod 2 ^ Z.of_nat n.
Proof.
  revert x. induction n as [|n IH]; intros x Hx; cbn [IntegerToBits BitsToInteger].
  - cbn. rewrite Z.pow_0_r, Z.mod_1_r. reflexivity.
  - rewrite IH by (apply Z.div_pos; lia). rewrite Nat2Z.inj_succ, Z.pow_succ_r by lia.
    assert (Hp : 0 < 2 ^ Z.of_nat n) by (apply Z.pow_pos_nonneg; lia).
    rewrite Z.rem_mul_r by lia. rewrite Zodd_mod. destruct (Zeq_bool (x mod 2) 1) eqn:E.
    + apply Zeq_bool_eq in E. rewrite E. cbn [Z.b2z]. lia.
    + apply Zeq_bool_neq in E. assert (x mod 2 = 0) by (pose proof (Z.mod_pos_bound x 2); lia). rewrite H. cbn [Z.b2z]. lia.
Qed.

Lemma bti_bytes v : bytes_ok v -> BitsToInteger (BytesToBits v) = le_int v /\ length (BytesToBits v) = (8 * length v)%nat.
Proof.
  intros H. induction H as [|b v Hb H [IH1 IH2]]; [split; reflexivity|].
  unfold BytesToBits in *. cbn [flat_map le_int length]. rewrite bti_app, app_length, itb_length, IH1, IH2.
  rewrite bti_itb by lia. change (2 ^ Z.of_nat 8) with 256. rewrite Z.mod_small by lia. split; lia.
Qed.

Lemma bti_firstn c bits : (c <= length bits)%nat -> BitsToInteger (firstn c bits) = BitsToInteger bits mod 2 ^ Z.of_nat c.
Proof.
  intros Hc. rewrite <- (firstn_skipn c bits) at 2. rewrite bti_app, firstn_length_le by exact Hc.
  replace (BitsToInteger (firstn c bits) + 2 ^ Z.of_nat c * BitsToInteger (skipn c bits))
    with (BitsToInteger (firstn c bits) + BitsToInteger (skipn c bits) * 2 ^ Z.of_nat c) by ring.
  rewrite Z_mod_plus_full. symmetry. apply Z.mod_small.
  pose proof (bti_range (firstn c bits)) as Hr. rewrite firstn_length_le in Hr by exact Hc. exact Hr.
Qed.
Lemma bti_skipn c bits : (c <= length bits)%nat -> BitsToInteger (skipn c bits) = BitsToInteger bits / 2 ^ Z.of_nat c.
Proof.
  intros Hc. rewrite <- (firstn_skipn c bits) at 2. rewrite bti_app, firstn_length_le by exact Hc.
  assert (Hp : 0 < 2 ^ Z.of_nat c) by (apply Z.pow_pos_nonneg; lia).
  replace (BitsToInteger (firstn c bits) + 2 ^ Z.of_nat c * BitsToInteger (skipn c bits))
    with (BitsToInteger (firstn c bits) + BitsToInteger (skipn c bits) * 2 ^ Z.of_nat c) by ring.
  rewrite Z.div_add by lia.
  pose proof (bti_range (firstn c bits)) as Hr. rewrite firstn_length_le in Hr by exact Hc.
  rewrite (Z.div_small (BitsToInteger (firstn c bits))) by exact Hr. lia.
Qed.

Lemma chunks_digits c : forall n bits, (c * n <= length bits)%nat ->
  map BitsToInteger (chunks c n bits) = digits (Z.of_nat c) n (BitsToInteger bits).
Proof.
  induction n as [|n IH]; intros bits Hl; [reflexivity|]. cbn [chunks map digits].
  rewrite bti_firstn by lia. f_equal. rewrite IH by (rewrite skipn_length; lia). rewrite bti_skipn by lia. reflexivity.
Qed.

Lemma bitlen_spec_nat x : 0 < x -> Z.of_nat (SpecConv.bitlen x) = Helpers.bitlen x.
Proof. intros Hx. unfold SpecConv.bitlen, Helpers.bitlen. pose proof (Z.log2_nonneg x). lia. Qed.

Theorem SimpleBitUnpack_digits v b : 0 < b -> bytes_ok v -> Z.of_nat (length v) = 32 * Helpers.bitlen b ->
  SimpleBitUnpack v b = fields (Helpers.bitlen b) v.
Proof.
  intros Hb Hv Hl. unfold SimpleBitUnpack, fields. destruct (bti_bytes v Hv) as [E1 E2].
  rewrite chunks_digits by (rewrite E2; pose proof (bitlen_spec_nat b Hb); lia).
  rewrite E1, bitlen_spec_nat by exact Hb. reflexivity.
Qed.
Theorem BitUnpack_digits v a b : 0 < a + b -> bytes_ok v -> Z.of_nat (length v) = 32 * Helpers.bitlen (a + b) ->
  BitUnpack v a b = map (fun d => b - d) (fields (Helpers.bitlen (a + b)) v).
Proof.
  intros Hab Hv Hl. unfold BitUnpack, fields. destruct (bti_bytes v Hv) as [E1 E2].
  rewrite <- (map_map BitsToInteger (fun d => b - d)).
  rewrite chunks_digits by (rewrite E2; pose proof (bitlen_spec_nat (a + b) Hab); lia).
  rewrite E1, bitlen_spec_nat by exact Hab. reflexivity.
Qed.

Opaque fields.
(* the crate's bit_unpack against the specification *)
Theorem bit_unpack_is_BitUnpack a b v w : valid_ab a b -> 0 < a -> bytes_ok v -> bit_unpack v a b = Ok w -> w = BitUnpack v a b.
Proof.
  intros Hab Ha Hv Hu.
  assert (Hl : Z.of_nat (length v) = 32 * Helpers.bitlen (a + b)).
  { unfold bit_unpack in Hu. repeat (match type of Hu with context [guard ?g _] => destruct g eqn:?; cbn [guard bind] in Hu; try discriminate end).
    match goal with E : (zlen v =? _) = true |- _ => apply Z.eqb_eq in E; exact E end. }
  destruct (bit_unpack_fields a b v Hab Hv Hl) as [Hacc Hrej].
  destruct (forall_or_exists (a + b) (fields (Helpers.bitlen (a + b)) v)) as [Hall|Hex].
  - rewrite (Hacc Hall) in Hu. assert (Ew : w = map (dec a b) (fields (Helpers.bitlen (a + b)) v)) by congruence. rewrite Ew.
    rewrite BitUnpack_digits by (destruct Hab; try lia; assumption).
    apply map_ext. intros d. unfold dec. replace (a =? 0) with false by (symmetry; apply Z.eqb_neq; lia). reflexivity.
  - rewrite (Hrej Hex) in Hu. discriminate.
Qed.
Theorem simple_bit_unpack_is_Spec b v w : valid_ab 0 b -> bytes_ok v -> bit_unpack v 0 b = Ok w -> w = SimpleBitUnpack v b.
Proof.
  intros Hab Hv Hu.
  assert (Hl : Z.of_nat (length v) = 32 * Helpers.bitlen (0 + b)).
  { unfold bit_unpack in Hu. repeat (match type of Hu with context [guard ?g _] => destruct g eqn:?; cbn [guard bind] in Hu; try discriminate end).
    match goal with E : (zlen v =? _) = true |- _ => apply Z.eqb_eq in E; exact E end. }
  destruct (bit_unpack_fields 0 b v Hab Hv Hl) as [Hacc Hrej].
  destruct (forall_or_exists (0 + b) (fields (Helpers.bitlen (0 + b)) v)) as [Hall|Hex].
  - rewrite (Hacc Hall) in Hu. assert (Ew : w = map (dec 0 b) (fields (Helpers.bitlen (0 + b)) v)) by congruence. rewrite Ew.
    replace (0 + b) with b in * by lia.
    rewrite SimpleBitUnpack_digits by (destruct Hab; try lia; assumption).
    rewrite <- (map_id (fields (Helpers.bitlen b) v)) at 2. apply map_ext. intros d. reflexivity.
  - rewrite (Hrej Hex) in Hu. discriminate.
Qed.
