(* ML-DSA is correct (FIPS 204 transcription): a signature produced by Sign_internal for a key pair produced by
   KeyGen_internal verifies.  The algebra is done in the NTT domain, coefficient by coefficient. *)
Require Import List ZArith Lia Bool. Import ListNotations.
Require Import F204.Spec.SpecConv F204.Spec.SpecRound F204.Spec.SpecNtt F204.Spec.SpecSample F204.Spec.SpecMLDSA.
Require Import F204.Proofs.SampleRefine F204.Proofs.SibRefine F204.Proofs.KeyRoundTrip F204.Proofs.PackRefine F204.Proofs.KeygenRefine F204.Proofs.SignRefine F204.Proofs.SigCanon F204.Proofs.DecodeRefine.
Require Import F204.Base.Util F204.Base.Mach F204.Base.ListLemmas F204.Gen.Params F204.Hash.HashIface
  F204.Proofs.KernelLemmas F204.Proofs.NttRefine F204.Proofs.NttRing F204.Proofs.NttPipeline F204.Proofs.VerifyRefine F204.Proofs.NttLinear F204.Proofs.HintLemmas.
Open Scope Z_scope.
Ltac Zify.zify_post_hook ::= Z.div_mod_to_equations.
Arguments Z.mul : simpl never. Arguments Z.add : simpl never. Arguments Z.sub : simpl never.

(* ---------- index-wise views ---------- *)
Lemma Forall2_nth_intro {A B} (R : A -> B -> Prop) (l1 : list A) (l2 : list B) d1 d2 : length l1 = length l2 ->
  (forall i, (i < length l1)%nat -> R (nth i l1 d1) (nth i l2 d2)) -> Forall2 R l1 l2.
Proof.
  revert l2. induction l1 as [|a l1 IH]; intros [|b l2] Hl Hn; cbn in Hl; try discriminate; constructor.
  - apply (Hn 0%nat). cbn. lia.
  - apply IH; [lia|]. intros i Hi. apply (Hn (S i)). cbn. lia.
Qed.
Lemma Forall2_nth_elim {A B} (R : A -> B -> Prop) (l1 : list A) (l2 : list B) d1 d2 : Forall2 R l1 l2 ->
  forall i, (i < length l1)%nat -> R (nth i l1 d1) (nth i l2 d2).
Proof. intros H. induction H as [|a b l1 l2 Hab H IH]; intros i Hi; [cbn in Hi; lia|]. destruct i; [exact Hab|]. cbn. apply IH. cbn in Hi. lia. Qed.
Lemma nth_map2 {A B C} (f : A -> B -> C) : forall a b i d da db, (i < length a)%nat -> (i < length b)%nat ->
  nth i (map2 f a b) d = f (nth i a da) (nth i b db).
Proof.
  induction a as [|x a IH]; intros b i d da db Ha Hb; [cbn in Ha; lia|]. destruct b as [|y b]; [cbn in Hb; lia|].
  destruct i; [reflexivity|]. cbn. apply IH; cbn in Ha, Hb; lia.
Qed.
Lemma nth_map' {A B} (f : A -> B) l i d d' : (i < length l)%nat -> nth i (map f l) d = f (nth i l d').
Proof. intros Hi. rewrite (nth_indep _ d (f d')) by (rewrite map_length; exact Hi). apply map_nth. Qed.

(* ---------- one row of a matrix-vector product, coordinate by coordinate ---------- *)
Definition Rrow (row u : list (list Z)) : list Z := fold_left padd (map2 pmul row u) zero_poly.
Fixpoint rowsum (row u : list (list Z)) (n : nat) : Z :=
  match row, u with
  | a :: r, p :: us => nth n a 0 * nth n p 0 + rowsum r us n
  | _, _ => 0
  end.
Definition all256 (v : list (list Z)) : Prop := Forall (fun p => length p = 256%nat) v.

Lemma fold_padd_coord : forall (ps : list (list Z)) acc n, all256 ps -> length acc = 256%nat -> (n < 256)%nat ->
  length (fold_left padd ps acc) = 256%nat /\
  congQ (nth n (fold_left padd ps acc) 0) (nth n acc 0 + fold_right (fun p s => nth n p 0 + s) 0 ps).
Proof.
  induction ps as [|p ps IH]; intros acc n Hp Ha Hn; cbn [fold_left fold_right].
  - split; [exact Ha|]. replace (nth n acc 0 + 0) with (nth n acc 0) by ring. reflexivity.
  - inversion Hp as [|? ? Lp Hp']; subst.
    assert (La : length (padd acc p) = 256%nat) by (rewrite padd_length; congruence).
    destruct (IH (padd acc p) n Hp' La Hn) as [L C]. split; [exact L|].
    eapply congQ_trans; [exact C|]. unfold padd. rewrite (nth_map2 _ acc p n 0 0 0) by lia.
    rewrite q_eq. replace (nth n acc 0 + (nth n p 0 + fold_right (fun p0 s => nth n p0 0 + s) 0 ps))
      with ((nth n acc 0 + nth n p 0) + fold_right (fun p0 s => nth n p0 0 + s) 0 ps) by ring.
    apply congQ_add; [apply congQ_mod|reflexivity].
Qed.

Lemma Rrow_coord row u n : all256 row -> all256 u -> (n < 256)%nat ->
  length (Rrow row u) = 256%nat /\ congQ (nth n (Rrow row u) 0) (rowsum row u n).
Proof.
  intros Hr Hu Hn. unfold Rrow.
  assert (Hps : all256 (map2 pmul row u)).
  { clear - Hr Hu. revert u Hu. induction Hr as [|a row La Hr IH]; intros u Hu; [constructor|]. destruct Hu as [|p u Lp Hu]; [constructor|].
    cbn [map2]. constructor; [unfold pmul; rewrite map2_length; lia|apply IH; exact Hu]. }
  destruct (fold_padd_coord (map2 pmul row u) zero_poly n Hps (repeat_length _ _) Hn) as [L C]. split; [exact L|].
  eapply congQ_trans; [exact C|].
  replace (nth n zero_poly 0) with 0 by (unfold zero_poly, zeros; symmetry; apply nth_repeat).
  clear - Hr Hu Hn. revert u Hu. induction Hr as [|a row La Hr IH]; intros u Hu; [reflexivity|]. destruct Hu as [|p u Lp Hu]; [reflexivity|].
  cbn [map2 fold_right rowsum]. specialize (IH u Hu).
  unfold pmul at 1. rewrite (nth_map2 _ a p n 0 0 0) by lia. rewrite q_eq.
  replace (0 + ((nth n a 0 * nth n p 0) mod Q + fold_right (fun p0 s => nth n p0 0 + s) 0 (map2 pmul row u)))
    with ((nth n a 0 * nth n p 0) mod Q + (0 + fold_right (fun p0 s => nth n p0 0 + s) 0 (map2 pmul row u))) by ring.
  apply congQ_add; [apply congQ_mod|exact IH].
Qed.

(* linearity of the coordinate sums *)
Lemma rowsum_lin (row : list (list Z)) n c : forall (u v w : list (list Z)),
  length u = length row -> length v = length row -> length w = length row ->
  (forall j, (j < length row)%nat -> congQ (nth n (nth j u []) 0) (nth n (nth j v []) 0 + c * nth n (nth j w []) 0)) ->
  congQ (rowsum row u n) (rowsum row v n + c * rowsum row w n).
Proof.
  induction row as [|a row IH]; intros u v w Lu Lv Lw Hj.
  - destruct u; [|discriminate]. cbn. unfold congQ. f_equal. ring.
  - destruct u as [|pu u]; [discriminate|]. destruct v as [|pv v]; [discriminate|]. destruct w as [|pw w]; [discriminate|].
    cbn [rowsum]. specialize (IH u v w ltac:(cbn in Lu; lia) ltac:(cbn in Lv; lia) ltac:(cbn in Lw; lia)
                               (fun j Hjl => Hj (S j) ltac:(cbn; lia))).
    pose proof (Hj 0%nat ltac:(cbn; lia)) as H0. cbn [nth] in H0.
    replace (nth n a 0 * nth n pv 0 + rowsum row v n + c * (nth n a 0 * nth n pw 0 + rowsum row w n))
      with (nth n a 0 * (nth n pv 0 + c * nth n pw 0) + (rowsum row v n + c * rowsum row w n)) by ring.
    apply congQ_add; [apply congQ_mul; [reflexivity|exact H0]|exact IH].
Qed.

Lemma congQ_eq x y : x = y -> congQ x y. Proof. intros ->. reflexivity. Qed.
Lemma congQ_modl x y : congQ x y -> congQ (x mod Q) y. Proof. intros H. eapply congQ_trans; [apply congQ_mod|exact H]. Qed.
Lemma congQ_modr x y : congQ x y -> congQ x (y mod Q). Proof. intros H. eapply congQ_trans; [exact H|apply congQ_sym, congQ_mod]. Qed.

(* the identity behind verification, for one row of A: A z - c t1 2^d = A y - c s2 + c t0 in the NTT domain *)
Lemma row_identity (Arow zc y s1 : list (list Z)) (ch t1d t0 s2 : list Z) :
  all256 Arow -> all256 zc -> all256 y -> all256 s1 ->
  length zc = length Arow -> length y = length Arow -> length s1 = length Arow ->
  length ch = 256%nat -> length t1d = 256%nat -> length t0 = 256%nat -> length s2 = 256%nat ->
  (forall j, (j < length Arow)%nat -> Forall2 congQ (nth j zc []) (padd (nth j y []) (pmul ch (nth j s1 [])))) ->
  Forall2 congQ (padd t1d t0) (padd (Rrow Arow s1) s2) ->
  Forall2 congQ (psub (Rrow Arow zc) (pmul ch t1d)) (padd (psub (Rrow Arow y) (pmul ch s2)) (pmul ch t0)).
Proof.
  intros HA Hzc Hy Hs1 Lzc Ly Ls1 Lch Lt1 Lt0 Ls2 Hz Ht.
  assert (Lrow : forall u, all256 u -> length (Rrow Arow u) = 256%nat).
  { intros u Hu. apply (Rrow_coord Arow u 0 HA Hu). lia. }
  assert (Lpm : forall a b, length a = 256%nat -> length b = 256%nat -> length (pmul a b) = 256%nat) by (intros a b La Lb; unfold pmul; rewrite map2_length; lia).
  assert (LL : length (psub (Rrow Arow zc) (pmul ch t1d)) = 256%nat) by (rewrite psub_length; rewrite ?Lrow, ?Lpm; auto).
  assert (LR1 : length (psub (Rrow Arow y) (pmul ch s2)) = 256%nat) by (rewrite psub_length; rewrite ?Lrow, ?Lpm; auto).
  assert (LR : length (padd (psub (Rrow Arow y) (pmul ch s2)) (pmul ch t0)) = 256%nat) by (rewrite padd_length; rewrite ?LR1, ?Lpm; auto).
  apply (Forall2_nth_intro congQ _ _ 0 0); [congruence|]. rewrite LL. intros n Hn.
  (* coordinates *)
  destruct (Rrow_coord Arow zc n HA Hzc Hn) as [_ Czc]. destruct (Rrow_coord Arow y n HA Hy Hn) as [_ Cy]. destruct (Rrow_coord Arow s1 n HA Hs1 Hn) as [_ Cs1].
  assert (Clin : congQ (rowsum Arow zc n) (rowsum Arow y n + nth n ch 0 * rowsum Arow s1 n)).
  { apply rowsum_lin; try assumption. intros j Hj. pose proof (Forall2_nth_elim congQ _ _ 0 0 (Hz j Hj) n) as Hc.
    assert (Lzj : length (nth j zc []) = 256%nat) by (unfold all256 in Hzc; rewrite Forall_forall in Hzc; apply Hzc, nth_In; lia).
    assert (Lyj : length (nth j y []) = 256%nat) by (unfold all256 in Hy; rewrite Forall_forall in Hy; apply Hy, nth_In; lia).
    assert (Lsj : length (nth j s1 []) = 256%nat) by (unfold all256 in Hs1; rewrite Forall_forall in Hs1; apply Hs1, nth_In; lia).
    specialize (Hc ltac:(lia)). eapply congQ_trans; [exact Hc|].
    unfold padd, pmul. rewrite (nth_map2 _ _ _ n 0 0 0) by (rewrite ?map2_length; lia). rewrite (nth_map2 _ _ _ n 0 0 0) by lia. rewrite !q_eq.
    apply congQ_modl. apply congQ_add; [reflexivity|apply congQ_mod]. }
  pose proof (Forall2_nth_elim congQ _ _ 0 0 Ht n ltac:(rewrite padd_length; lia)) as CT.
  unfold padd in CT. rewrite (nth_map2 _ t1d t0 n 0 0 0), (nth_map2 _ (Rrow Arow s1) s2 n 0 0 0) in CT by (rewrite ?Lrow; auto; lia). rewrite !q_eq in CT.
  set (a := nth n (Rrow Arow zc) 0) in *. set (ry := nth n (Rrow Arow y) 0) in *. set (rs := nth n (Rrow Arow s1) 0) in *.
  set (c := nth n ch 0) in *. set (x1 := nth n t1d 0) in *. set (x0 := nth n t0 0) in *. set (x2 := nth n s2 0) in *.
  assert (CT' : congQ x1 (rowsum Arow s1 n + x2 - x0)).
  { replace x1 with ((x1 + x0) - x0) by ring. apply congQ_sub; [|reflexivity].
    eapply congQ_trans; [apply congQ_sym, congQ_mod|]. eapply congQ_trans; [exact CT|]. apply congQ_modl. apply congQ_add; [exact Cs1|reflexivity]. }
  unfold psub, padd, pmul.
  rewrite (nth_map2 _ (Rrow Arow zc) _ n 0 0 0) by (rewrite ?Lrow, ?map2_length; auto; lia). rewrite (nth_map2 _ ch t1d n 0 0 0) by lia.
  rewrite (nth_map2 _ _ _ n 0 0 0) by (rewrite ?map2_length, ?Lrow; auto; lia).
  rewrite (nth_map2 _ (Rrow Arow y) _ n 0 0 0) by (rewrite ?Lrow, ?map2_length; auto; lia). rewrite (nth_map2 _ ch s2 n 0 0 0) by lia.
  rewrite (nth_map2 _ ch t0 n 0 0 0) by lia. rewrite !q_eq. fold a ry c x1 x0 x2.
  apply congQ_modl. apply congQ_modr.
  eapply congQ_trans; [apply congQ_sub; [eapply congQ_trans; [exact Czc|exact Clin]|apply congQ_modl; apply congQ_mul; [reflexivity|exact CT']]|].
  eapply congQ_trans; [|apply congQ_add; [apply congQ_modr; apply congQ_sub; [apply congQ_sym; exact Cy|apply congQ_modr; reflexivity]|apply congQ_modr; reflexivity]].
  apply congQ_eq. ring.
Qed.

(* ---------- ingredients of the row identity ---------- *)
Lemma NTT_congruent_inputs a b : Forall2 congQ a b -> NTT a = NTT b.
Proof.
  intros Hc. unfold NTT. f_equal. induction Hc as [|x y a b Hxy Hc IH]; [reflexivity|]. cbn [map]. rewrite IH. f_equal.
  unfold modq. rewrite q_eq. exact Hxy.
Qed.
Lemma NTT_modq a : NTT (map modq a) = NTT a.
Proof. apply NTT_congruent_inputs. apply Forall2_congQ_sym, congQ_modq_list. Qed.

Lemma pmul_range a b : Forall (fun x => 0 <= x < Q) (pmul a b).
Proof. unfold pmul. revert b. induction a as [|x a IH]; intros b; [constructor|]. destruct b as [|y b]; [constructor|]. cbn [map2]. constructor; [rewrite q_eq; apply Z.mod_pos_bound; reflexivity|apply IH]. Qed.
Lemma fold_padd_range ps : forall acc, Forall (fun x => 0 <= x < Q) acc -> Forall (fun x => 0 <= x < Q) (fold_left padd ps acc).
Proof. induction ps as [|p ps IH]; intros acc Ha; [exact Ha|]. cbn [fold_left]. apply IH. apply padd_range. Qed.
Lemma Rrow_range row u : Forall (fun x => 0 <= x < Q) (Rrow row u).
Proof. unfold Rrow. apply fold_padd_range. unfold zero_poly, zeros. apply Forall_forall. intros x Hx. apply repeat_spec in Hx. subst. unfold Q. lia. Qed.

Lemma Power2Round_recompose r : fst (Power2Round r) * 2 ^ d + snd (Power2Round r) = r mod q.
Proof.
  unfold Power2Round, mod_pm, d. cbv zeta. cbn [fst snd]. change (2 ^ D) with 8192. change (8192 / 2) with 4096.
  set (rp := r mod q). clearbody rp. destruct (rp mod 8192 <=? 4096); lia.
Qed.

Lemma all256_vNTT v : all256 v -> all256 (vNTT v).
Proof. intros H. unfold all256, vNTT in *. rewrite Forall_map. eapply Forall_impl; [|exact H]. intros p Hp. apply NTT_length. exact Hp. Qed.
Lemma all256_nth (v : list (list Z)) i : all256 v -> (i < length v)%nat -> length (nth i v []) = 256%nat.
Proof. intros H Hi. unfold all256 in H. rewrite Forall_forall in H. apply H, nth_In. exact Hi. Qed.

(* ---------- w'approx = w - c s2 + c t0 ---------- *)
Section W.
Variables (l k : nat) (A : list (list (list Z))) (c : list Z) (y s1 s2 zc : list (list Z)).
Hypothesis HA : Forall (fun row => all256 row /\ length row = l) A.
Hypothesis LA : length A = k.
Hypothesis Lc : length c = 256%nat.
Hypothesis Hy : all256 y. Hypothesis Ly : length y = l.
Hypothesis Hs1 : all256 s1. Hypothesis Ls1 : length s1 = l.
Hypothesis Hs2 : all256 s2. Hypothesis Ls2 : length s2 = k.
Let ch := NTT c.
Let cs1 := vinvNTT (ScalarVectorNTT ch (vNTT s1)).
Let z := vadd (map (map modq) y) cs1.
Hypothesis Hzc : all256 zc.
Hypothesis Czc : Forall2 (Forall2 congQ) zc z.
Let t := vadd (vinvNTT (MatrixVectorNTT A (vNTT s1))) (map (map modq) s2).
Let t1d := map (map (fun x => x * 2 ^ d)) (map (map (fun r => fst (Power2Round r))) t).
Let t0 := map (map (fun r => snd (Power2Round r))) t.
Let w := vinvNTT (MatrixVectorNTT A (vNTT y)).
Let cs2 := vinvNTT (ScalarVectorNTT ch (vNTT s2)).
Let ct0 := vinvNTT (ScalarVectorNTT ch (vNTT t0)).

Theorem wapprox_eq :
  vinvNTT (vsub (MatrixVectorNTT A (vNTT zc)) (ScalarVectorNTT ch (vNTT t1d))) = vadd (vsub w cs2) ct0.
Proof.
  assert (Lch : length ch = 256%nat) by (apply NTT_length; exact Lc).
  assert (Lzc : length zc = l).
  { apply Forall2_length in Czc. unfold z, vadd, cs1, vinvNTT, ScalarVectorNTT, vNTT in Czc. rewrite map2_length, !map_length in Czc. lia. }
  assert (Lt : length t = k) by (unfold t, vadd, vinvNTT, MatrixVectorNTT; rewrite map2_length, !map_length; lia).
  assert (Ht : all256 t).
  { unfold t, vadd, all256. apply Forall_forall. intros p Hp. apply In_nth with (d := []) in Hp as (i & Hi & <-).
    rewrite map2_length, !map_length in Hi. unfold vinvNTT, MatrixVectorNTT in *. rewrite !map_length in Hi.
    rewrite (nth_map2 _ _ _ i [] [] []) by (rewrite !map_length; lia). rewrite padd_length.
    - rewrite (nth_map' _ _ i [] []) by (rewrite map_length; lia). apply invNTT_length.
      rewrite (nth_map' _ _ i [] []) by lia. apply (Rrow_coord _ _ 0); [|apply all256_vNTT; exact Hs1|lia].
      rewrite Forall_forall in HA. apply HA, nth_In. lia.
    - rewrite (nth_map' _ _ i [] []) by (rewrite map_length; lia). rewrite invNTT_length.
      + rewrite (nth_map' _ _ i [] []) by lia. rewrite map_length. symmetry. apply all256_nth; [exact Hs2|lia].
      + rewrite (nth_map' _ _ i [] []) by lia. apply (Rrow_coord _ _ 0); [|apply all256_vNTT; exact Hs1|lia].
        rewrite Forall_forall in HA. apply HA, nth_In. lia. }
  unfold vinvNTT, vsub, vadd.
  apply (nth_ext _ _ [] []).
  { unfold w, cs2, ct0, t0, t1d, vinvNTT, MatrixVectorNTT, ScalarVectorNTT, vNTT. rewrite !map_length, !map2_length, !map_length, ?map2_length, ?map_length. lia. }
  intros i Hi. rewrite map_length, map2_length in Hi. unfold MatrixVectorNTT, ScalarVectorNTT, vNTT, t1d in Hi. rewrite !map_length in Hi.
  assert (Hik : (i < k)%nat) by lia.
  (* row i on both sides *)
  rewrite (nth_map' _ _ i [] []) by (rewrite map2_length; unfold MatrixVectorNTT, ScalarVectorNTT, vNTT, t1d; rewrite !map_length; lia).
  rewrite (nth_map2 _ _ _ i [] [] []) by (unfold MatrixVectorNTT, ScalarVectorNTT, vNTT, t1d; rewrite ?map_length; lia).
  unfold MatrixVectorNTT at 1. rewrite (nth_map' _ A i [] []) by lia. fold (Rrow (nth i A []) (vNTT zc)).
  unfold ScalarVectorNTT at 1. rewrite (nth_map' _ _ i [] []) by (unfold vNTT, t1d; rewrite !map_length; lia).
  unfold vNTT at 2. rewrite (nth_map' _ t1d i [] []) by (unfold t1d; rewrite !map_length; lia).
  rewrite (nth_map2 _ _ _ i [] [] []) by (unfold w, cs2, ct0, t0, vinvNTT, MatrixVectorNTT, ScalarVectorNTT, vNTT; rewrite ?map2_length, ?map_length; lia).
  rewrite (nth_map2 _ _ _ i [] [] []) by (unfold w, cs2, vinvNTT, MatrixVectorNTT, ScalarVectorNTT, vNTT; rewrite ?map_length; lia).
  unfold w, cs2, ct0, vinvNTT.
  rewrite (nth_map' _ _ i [] []) by (unfold MatrixVectorNTT; rewrite map_length; lia).
  rewrite (nth_map' _ _ i [] []) by (unfold ScalarVectorNTT, vNTT; rewrite !map_length; lia).
  rewrite (nth_map' _ _ i [] []) by (unfold ScalarVectorNTT, vNTT, t0; rewrite !map_length; lia).
  unfold MatrixVectorNTT. rewrite (nth_map' _ A i [] []) by lia. fold (Rrow (nth i A []) (vNTT y)).
  unfold ScalarVectorNTT. rewrite (nth_map' _ (vNTT s2) i [] []) by (unfold vNTT; rewrite map_length; lia).
  rewrite (nth_map' _ (vNTT t0) i [] []) by (unfold vNTT, t0; rewrite !map_length; lia).
  replace (nth i (vNTT s2) []) with (NTT (nth i s2 [])) by (unfold vNTT; symmetry; apply nth_map'; lia).
  replace (nth i (vNTT t0) []) with (NTT (nth i t0 [])) by (unfold vNTT; symmetry; apply nth_map'; unfold t0; rewrite map_length; lia).
  set (Arow := nth i A []).
  assert (HArow : all256 Arow /\ length Arow = l) by (rewrite Forall_forall in HA; apply HA, nth_In; lia).
  destruct HArow as [HAr LAr].
  set (s2i := nth i s2 []). set (t0i := nth i t0 []). set (t1di := nth i t1d []).
  assert (Ls2i : length s2i = 256%nat) by (apply all256_nth; [exact Hs2|lia]).
  set (ti := nth i t []). assert (Lti : length ti = 256%nat) by (apply all256_nth; [exact Ht|lia]).
  assert (Et0i : t0i = map (fun r => snd (Power2Round r)) ti) by (unfold t0i, t0, ti; apply nth_map'; lia).
  assert (Et1di : t1di = map (fun x => x * 2 ^ d) (map (fun r => fst (Power2Round r)) ti)).
  { unfold t1di, t1d, ti. rewrite (nth_map' _ _ i [] []) by (rewrite map_length; lia). rewrite (nth_map' _ t i [] []) by lia. reflexivity. }
  assert (Lt0i : length t0i = 256%nat) by (rewrite Et0i, map_length; exact Lti).
  assert (Lt1di : length t1di = 256%nat) by (rewrite Et1di, !map_length; exact Lti).
  (* the row identity *)
  assert (Hrow : Forall2 congQ (psub (Rrow Arow (vNTT zc)) (pmul ch (NTT t1di)))
                               (padd (psub (Rrow Arow (vNTT y)) (pmul ch (NTT s2i))) (pmul ch (NTT t0i)))).
  { apply (row_identity Arow (vNTT zc) (vNTT y) (vNTT s1) ch (NTT t1di) (NTT t0i) (NTT s2i)); try (apply all256_vNTT; assumption); try assumption;
      try (unfold vNTT; rewrite map_length; lia); try (apply NTT_length; assumption).
    - (* NTT zc_j = NTT z_j == NTT y_j + ch o NTT s1_j *)
      intros j Hj. unfold vNTT. rewrite (nth_map' _ zc j [] []), (nth_map' _ y j [] []), (nth_map' _ s1 j [] []) by lia.
      pose proof (Forall2_nth_elim _ _ _ [] [] Czc j ltac:(lia)) as Cj. rewrite (NTT_congruent_inputs _ _ Cj).
      unfold z, vadd. rewrite (nth_map2 _ _ _ j [] [] []) by (unfold cs1, vinvNTT, ScalarVectorNTT, vNTT; rewrite !map_length; lia).
      rewrite (nth_map' _ y j [] []) by lia. unfold cs1, vinvNTT, ScalarVectorNTT, vNTT.
      rewrite (nth_map' _ _ j [] []) by (rewrite !map_length; lia). rewrite (nth_map' _ _ j [] []) by (rewrite map_length; lia). rewrite (nth_map' _ s1 j [] []) by lia.
      assert (Lyj : length (nth j y []) = 256%nat) by (apply all256_nth; [exact Hy|lia]).
      assert (Lsj : length (nth j s1 []) = 256%nat) by (apply all256_nth; [exact Hs1|lia]).
      assert (Lp : length (pmul ch (NTT (nth j s1 []))) = 256%nat) by (unfold pmul; rewrite map2_length, Lch, NTT_length; auto).
      destruct (NTT_lin (map modq (nth j y [])) (invNTT (pmul ch (NTT (nth j s1 []))))) as [I1 _];
        [rewrite map_length; exact Lyj|apply invNTT_length; exact Lp|].
      rewrite NTT_modq, (NTT_invNTT _ Lp (pmul_range _ _)) in I1. exact I1.
    - (* NTT t1d_i + NTT t0_i == NTT t_i == Rrow s1 + NTT s2_i *)
      destruct (NTT_lin t1di t0i Lt1di Lt0i) as [I1 _]. eapply Forall2_congQ_trans; [apply Forall2_congQ_sym; exact I1|].
      assert (Ept : Forall2 congQ (padd t1di t0i) ti).
      { rewrite Et1di, Et0i. unfold padd. rewrite map_map. clear. induction ti as [|r ti IH]; [constructor|]. cbn [map map2]. constructor; [|exact IH].
        rewrite q_eq. apply congQ_modl. rewrite Power2Round_recompose. rewrite q_eq. apply congQ_mod. }
      rewrite (NTT_congruent_inputs _ _ Ept).
      unfold ti, t, vadd. rewrite (nth_map2 _ _ _ i [] [] []) by (unfold vinvNTT, MatrixVectorNTT; rewrite !map_length; lia).
      unfold vinvNTT, MatrixVectorNTT. rewrite (nth_map' _ _ i [] []) by (rewrite map_length; lia). rewrite (nth_map' _ A i [] []) by lia.
      rewrite (nth_map' _ s2 i [] []) by lia. fold Arow s2i. fold (Rrow Arow (vNTT s1)).
      assert (LR : length (Rrow Arow (vNTT s1)) = 256%nat) by (apply (Rrow_coord _ _ 0); [exact HAr|apply all256_vNTT; exact Hs1|lia]).
      destruct (NTT_lin (invNTT (Rrow Arow (vNTT s1))) (map modq s2i)) as [I2 _]; [apply invNTT_length; exact LR|rewrite map_length; exact Ls2i|].
      rewrite NTT_modq, (NTT_invNTT _ LR (Rrow_range _ _)) in I2. exact I2. }
  rewrite (invNTT_cong _ _ Hrow).
  assert (LRy : length (Rrow Arow (vNTT y)) = 256%nat) by (apply (Rrow_coord _ _ 0); [exact HAr|apply all256_vNTT; exact Hy|lia]).
  assert (Lp2 : length (pmul ch (NTT s2i)) = 256%nat) by (unfold pmul; rewrite map2_length, Lch, NTT_length; auto).
  assert (Lp0 : length (pmul ch (NTT t0i)) = 256%nat) by (unfold pmul; rewrite map2_length, Lch, NTT_length; auto).
  destruct (invNTT_lin (psub (Rrow Arow (vNTT y)) (pmul ch (NTT s2i))) (pmul ch (NTT t0i))) as [J1 _];
    [rewrite psub_length; congruence|exact Lp0|apply psub_range|apply pmul_range|].
  rewrite J1. destruct (invNTT_lin (Rrow Arow (vNTT y)) (pmul ch (NTT s2i)) LRy Lp2 (Rrow_range _ _) (pmul_range _ _)) as [_ J2].
  rewrite J2. reflexivity.
Qed.
End W.

(* ---------- || c * s ||_inf <= (sum |c_i|) * eta for the negacyclic product ---------- *)
Definition cbound (B : Z) (l : list Z) : Prop := Forall (fun v => exists u, congQ v u /\ Z.abs u <= B) l.

Lemma cbound_mulX B b : cbound B b -> cbound B (mulX b).
Proof.
  intros Hb. unfold mulX. assert (Hr : cbound B (rev b)) by (apply Forall_rev; exact Hb).
  destruct (rev b) as [|last r]; [constructor|]. inversion Hr as [|? ? (u & Hu & Bu) Hr']; subst. constructor.
  - exists (- u). split; [rewrite q_eq; apply congQ_modl; apply congQ_opp; exact Hu|lia].
  - apply Forall_rev. exact Hr'.
Qed.

Lemma negacyclic_aux_bound eta : 0 <= eta -> forall (cs cs' : list Z), Forall2 (fun a a' => congQ a a' /\ Z.abs a' <= 1) cs cs' ->
  forall b, cbound eta b -> cbound (sumZ (map Z.abs cs') * eta) (negacyclic_aux cs b).
Proof.
  intros He cs cs' Hc. induction Hc as [|a a' cs cs' [Ha Ba] Hc IH]; intros b Hb.
  - cbn [negacyclic_aux map sumZ fold_right]. apply Forall_forall. intros v Hv. apply in_map_iff in Hv as (x & <- & _). exists 0. split; [reflexivity|lia].
  - cbn [negacyclic_aux map]. unfold sumZ. cbn [fold_right]. fold (sumZ (map Z.abs cs')).
    specialize (IH (mulX b) (cbound_mulX eta b Hb)).
    assert (Hsum : 0 <= sumZ (map Z.abs cs')) by (clear; induction cs' as [|x l IHl]; cbn; [lia|]; fold (sumZ (map Z.abs l)); lia).
    unfold padd. apply (map2_Forall _ (fun v => exists u, congQ v u /\ Z.abs u <= Z.abs a' * eta) (fun v => exists u, congQ v u /\ Z.abs u <= sumZ (map Z.abs cs') * eta)).
    + intros x y (ux & Cx & Bx) (uy & Cy & By). exists (ux + uy). split; [rewrite q_eq; apply congQ_modl; apply congQ_add; assumption|lia].
    + unfold pscale. rewrite Forall_map. eapply Forall_impl; [|exact Hb]. cbn beta. intros x (u & Cu & Bu).
      exists (a' * u). split; [rewrite q_eq; apply congQ_modl; apply congQ_mul; assumption|]. rewrite Z.abs_mul. nia.
    + exact IH.
Qed.

Theorem negacyclic_bound (c s : list Z) eta : 0 <= eta -> Forall (fun x => Z.abs x <= 1) c -> Forall (fun x => Z.abs x <= eta) s ->
  cbound (sumZ (map Z.abs c) * eta) (negacyclic c s).
Proof.
  intros He Hc Hs. unfold negacyclic. apply (negacyclic_aux_bound eta He (map modq c) c).
  - clear - Hc. induction Hc as [|x c Hx Hc IH]; cbn [map]; constructor; [|exact IH]. split; [unfold modq; rewrite q_eq; apply congQ_mod|exact Hx].
  - unfold cbound. rewrite Forall_map. eapply Forall_impl; [|exact Hs]. cbn beta. intros x Hx. exists x. split; [unfold modq; rewrite q_eq; apply congQ_mod|exact Hx].
Qed.

Lemma cbound_centered B v : 0 <= B <= 4190208 -> (exists u, congQ v u /\ Z.abs u <= B) -> Z.abs (mod_pm v q) <= B.
Proof.
  intros HB (u & Cu & Bu). unfold mod_pm. unfold congQ in Cu. rewrite q_eq, Cu.
  pose proof (mod_pm_small u ltac:(lia)) as Hs. unfold mod_pm in Hs. rewrite q_eq in Hs. rewrite Hs. exact Bu.
Qed.

(* ---------- the challenge polynomial has exactly tau coefficients +-1 ---------- *)
Lemma SampleInBall_weight H (HL : HashLaws H) tau rho c : 0 <= tau <= 64 -> SampleInBall H tau rho = Some c ->
  sumZ (map Z.abs c) = tau /\ length c = 256%nat /\ Forall (fun x => Z.abs x <= 1) c.
Proof.
  intros Htau E. destruct (SibRefine.SampleInBall_shape H tau rho c E) as [Lc Bc]. split; [|split; assumption].
  unfold SampleInBall in E. apply SibRefine.first_some_inv in E as (n & E). unfold SampleInBall_from in E.
  set (stream := h_shake256 H rho n) in *.
  assert (Hb : HintProofs.bytes_ok stream) by (apply (SampleRefine.shake256_ok H HL)).
  destruct (zlen stream <? 8) eqn:El; [discriminate|]. apply Z.ltb_ge in El.
  set (h8 := ztake 8 stream) in *.
  assert (Hh : HintProofs.bytes_ok h8) by (unfold h8, ztake; apply Forall_firstn; exact Hb).
  assert (Hhl : zlen h8 = 8) by (unfold h8, ztake, zlen in *; rewrite firstn_length; lia).
  assert (Hinv0 : SibRefine.sib_inv tau (zeros 256) (256 - tau)).
  { unfold SibRefine.sib_inv. repeat split.
    - intros p Hp. unfold znth, zeros. apply nth_repeat.
    - unfold SibRefine.measure, zeros. replace (256 - tau - (256 - tau)) with 0 by lia. generalize 256%nat. induction n0; [reflexivity|cbn; exact IHn0].
    - unfold SibRefine.measure, zeros. replace (256 - tau - (256 - tau)) with 0 by lia. generalize 256%nat. induction n0; [reflexivity|cbn; exact IHn0]. }
  pose proof (SibRefine.sib_loop_spec tau h8 Hh Hhl Htau (Z.to_nat tau) (256 - tau) (zeros 256) (zdrop 8 stream) ltac:(lia) ltac:(lia)
                ltac:(unfold zdrop; apply Forall_skipn; exact Hb) Hinv0) as Hloop.
  rewrite E in Hloop. destruct Hloop as (s' & _ & (_ & _ & Ma & _)).
  replace (256 - (256 - tau)) with tau in Ma by lia. rewrite <- Ma. unfold SibRefine.measure. f_equal.
  clear - Bc. induction Bc as [|x c Hx Bc IH]; [reflexivity|]. cbn [map]. rewrite IH. f_equal. unfold SibRefine.g_nz.
  destruct (x =? 0) eqn:E0; [apply Z.eqb_eq in E0|apply Z.eqb_neq in E0]; lia.
Qed.

(* ---------- the hint recovers HighBits(w), coefficient by coefficient ---------- *)
Lemma hint_recover_coef g beta wv c2 c0 : valid_gamma2 g -> 0 <= beta < g ->
  Z.abs (mod_pm c0 q) < g -> Z.abs (mod_pm c2 q) <= beta -> Z.abs (LowBits g ((wv - c2) mod q)) < g - beta ->
  let b := (((wv - c2) mod q) + c0) mod q in
  UseHint g (Z.b2z (MakeHint g (- c0 mod q) b)) b = HighBits g wv.
Proof.
  intros Hg Hb H0 H2 Hl b.
  assert (Cm : forall x, congQ (mod_pm x q) x).
  { intros x. unfold mod_pm. rewrite q_eq. destruct (x mod Q <=? Q / 2); [apply congQ_mod|].
    unfold congQ. replace (x mod Q - Q) with (x mod Q + (-1) * Q) by ring. rewrite Z.mod_add by (unfold Q; lia). apply Z.mod_mod. unfold Q; lia. }
  rewrite (MakeHint_cong g (- c0 mod q) (- mod_pm c0 q) b b); [| |reflexivity].
  2:{ rewrite q_eq. apply congQ_modl. apply congQ_opp. apply congQ_sym, Cm. }
  rewrite usehint_makehint by (try exact Hg; rewrite Z.abs_opp; exact H0).
  rewrite (HighBits_cong g (b + - mod_pm c0 q) ((wv - c2) mod q)).
  2:{ unfold b. rewrite q_eq.
      eapply congQ_trans; [apply congQ_add; [apply congQ_mod|apply congQ_opp, Cm]|]. apply congQ_eq. ring. }
  rewrite (HighBits_cong g wv ((wv - c2) mod q + mod_pm c2 q)).
  2:{ rewrite q_eq. apply congQ_sym. eapply congQ_trans; [apply congQ_add; [apply congQ_mod|apply Cm]|]. apply congQ_eq. ring. }
  symmetry. apply highbits_stable with (beta := beta); assumption.
Qed.

Lemma Forall_nth' {A} (P : A -> Prop) (l : list A) i d : Forall P l -> (i < length l)%nat -> P (nth i l d).
Proof. intros H Hi. rewrite Forall_forall in H. apply H, nth_In. exact Hi. Qed.

Lemma hint_recover_vec g beta (w cs2 ct0 : list (list Z)) : valid_gamma2 g -> 0 <= beta < g ->
  all256 w -> all256 cs2 -> all256 ct0 -> length cs2 = length w -> length ct0 = length w ->
  Forall (Forall (fun x => Z.abs (mod_pm x q) < g)) ct0 -> Forall (Forall (fun x => Z.abs (mod_pm x q) <= beta)) cs2 ->
  Forall (Forall (fun x => Z.abs x < g - beta)) (map (map (LowBits g)) (vsub w cs2)) ->
  map2 (map2 (UseHint g)) (map2 (map2 (fun a b => Z.b2z (MakeHint g (- a mod q) b))) ct0 (vadd (vsub w cs2) ct0)) (vadd (vsub w cs2) ct0)
    = map (map (HighBits g)) w.
Proof.
  intros Hg Hb Hw H2 H0 L2 L0 B0 B2 Br.
  set (G := fun a b => Z.b2z (MakeHint g (- a mod q) b)).
  assert (Lwa : length (vadd (vsub w cs2) ct0) = length w) by (unfold vadd, vsub; rewrite !map2_length; lia).
  apply (nth_ext _ _ [] []); [rewrite !map2_length, map_length, Lwa; lia|].
  intros i Hi. rewrite !map2_length, Lwa in Hi. assert (Hiw : (i < length w)%nat) by lia.
  rewrite (nth_map2 _ _ _ i [] [] []) by (rewrite ?map2_length, ?Lwa; lia).
  rewrite (nth_map2 _ ct0 _ i [] [] []) by (rewrite ?Lwa; lia).
  rewrite (nth_map' _ w i [] []) by lia.
  unfold vadd, vsub. rewrite (nth_map2 _ _ ct0 i [] [] []) by (rewrite ?map2_length; lia). rewrite (nth_map2 _ w cs2 i [] [] []) by lia.
  set (wp := nth i w []). set (p2 := nth i cs2 []). set (p0 := nth i ct0 []).
  assert (Lwp : length wp = 256%nat) by (apply all256_nth; [exact Hw|lia]).
  assert (Lp2 : length p2 = 256%nat) by (apply all256_nth; [exact H2|lia]).
  assert (Lp0 : length p0 = 256%nat) by (apply all256_nth; [exact H0|lia]).
  assert (Lps : length (psub wp p2) = 256%nat) by (rewrite psub_length; congruence).
  assert (Lpa : length (padd (psub wp p2) p0) = 256%nat) by (rewrite padd_length; congruence).
  apply (nth_ext _ _ 0 0); [rewrite !map2_length, map_length, Lpa; lia|].
  intros n Hn. rewrite !map2_length, Lpa in Hn. assert (Hn' : (n < 256)%nat) by lia.
  rewrite (nth_map2 _ _ _ n 0 0 0) by (rewrite ?map2_length, ?Lpa; lia).
  rewrite (nth_map2 _ p0 _ n 0 0 0) by (rewrite ?Lpa; lia).
  rewrite (nth_map' _ wp n 0 0) by lia.
  unfold padd, psub. rewrite (nth_map2 _ _ p0 n 0 0 0) by (rewrite ?map2_length; lia). rewrite (nth_map2 _ wp p2 n 0 0 0) by lia.
  apply (hint_recover_coef g beta (nth n wp 0) (nth n p2 0) (nth n p0 0) Hg Hb).
  - apply (Forall_nth' (fun x => Z.abs (mod_pm x q) < g) p0 n 0); [apply (Forall_nth' (Forall (fun x => Z.abs (mod_pm x q) < g)) ct0 i []); [exact B0|lia]|lia].
  - apply (Forall_nth' (fun x => Z.abs (mod_pm x q) <= beta) p2 n 0); [apply (Forall_nth' (Forall (fun x => Z.abs (mod_pm x q) <= beta)) cs2 i []); [exact B2|lia]|lia].
  - pose proof (Forall_nth' _ _ i [] Br ltac:(rewrite map_length; unfold vsub; rewrite map2_length; lia)) as Bri.
    rewrite (nth_map' _ _ i [] []) in Bri by (unfold vsub; rewrite map2_length; lia).
    unfold vsub in Bri. rewrite (nth_map2 _ w cs2 i [] [] []) in Bri by lia. fold wp p2 in Bri.
    pose proof (Forall_nth' _ _ n 0 Bri ltac:(rewrite map_length; lia)) as Brn.
    rewrite (nth_map' _ _ n 0 0) in Brn by lia. unfold psub in Brn. rewrite (nth_map2 _ wp p2 n 0 0 0) in Brn by lia. exact Brn.
Qed.

(* ---------- assembly ---------- *)
Lemma chunks_length {A} sz n (l : list A) : length (chunks sz n l) = n.
Proof. revert l. induction n as [|n IH]; intros l; [reflexivity|]. cbn [chunks length]. rewrite IH. reflexivity. Qed.

Section C.
Variable H : Hashes.
Hypothesis HL : HashLaws H.
Variable P : Params.
Hypothesis HP : In P all_params.

Lemma ExpandMask_all256 rho kappa : all256 (ExpandMask H P rho kappa) /\ length (ExpandMask H P rho kappa) = p_l P.
Proof.
  unfold ExpandMask. split; [|rewrite map_length, seq_length; reflexivity].
  unfold all256. rewrite Forall_map. apply Forall_forall. intros r _. unfold BitUnpack. rewrite map_length. apply chunks_length.
Qed.

Lemma Sign_loop_accept A s1 s2 t0 mu rho'' : forall fuel kappa ct zs h,
  Sign_loop H fuel P A (vNTT s1) (vNTT s2) (vNTT t0) mu rho'' kappa = Some (ct, zs, h) ->
  exists kappa' z, Spec_attempt H P A s1 s2 t0 mu rho'' kappa' = Some (Some (ct, z, h)) /\ zs = map (map (fun x => mod_pm x q)) z.
Proof.
  induction fuel as [|f IH]; intros kappa ct zs h E; [discriminate|]. rewrite (Sign_loop_step H P) in E.
  destruct (Spec_attempt H P A s1 s2 t0 mu rho'' kappa) as [[[[c z] h']|]|] eqn:Ea; [|apply (IH _ _ _ _ E)|discriminate].
  injection E as <- <- <-. exists kappa, z. split; [exact Ea|reflexivity].
Qed.

(* decoding the specification's encodings (through the verified crate codecs) *)
Lemma pkDecode_pkEncode rho t1 : zlen rho = 32 -> BitPackProofs.bytes_ok rho -> rvec 0 1023 (p_k P) t1 ->
  pkDecode (p_k P) (pkEncode rho t1) = (rho, t1) /\ BitPackProofs.bytes_ok (pkEncode rho t1) /\ zlen (pkEncode rho t1) = p_pk_len P.
Proof.
  intros Lr Br R. destruct (pk_decode_encode P rho t1 HP Lr Br R) as (pkb & Ee & Bp & Lp & Ed).
  rewrite (pk_encode_spec P rho t1 HP R) in Ee. injection Ee as <-.
  rewrite (pk_decode_spec P _ HP Bp Lp) in Ed. assert (Ed' : pkDecode (p_k P) (pkEncode rho t1) = (rho, t1)) by congruence. split; [exact Ed'|split; assumption].
Qed.
Lemma sigDecode_sigEncode c z h : zlen c = p_lambda_div4 P -> BitPackProofs.bytes_ok c ->
  rvec (p_gamma1 P - 1) (p_gamma1 P) (p_l P) z -> rvec 0 1 (p_k P) h -> weight h <= p_omega P ->
  sigDecode P (sigEncode P c z h) = (c, z, Some h) /\ BitPackProofs.bytes_ok (sigEncode P c z h) /\ zlen (sigEncode P c z h) = p_sig_len P.
Proof.
  intros Lc Bc Rz Rh Hw. pose proof (sig_encode_spec P HP c z h Rz Rh Hw) as Ee.
  destruct (sig_decode_encode P c z h _ HP Lc Bc Rz Rh Hw Ee) as (Bs & Ls & Ed).
  split; [|split; assumption].
  rewrite (sig_decode_spec P _ HP Bs Ls) in Ed. destruct (sigDecode P (sigEncode P c z h)) as [[c' z'] [h'|]]; cbn [sig_decode_result] in Ed; [|discriminate].
  injection Ed as -> -> ->. reflexivity.
Qed.

Lemma KeyGen_parts_inv xi rho K tr s1 s2 t0 t1 : KeyGen_parts H P xi = Some (rho, K, tr, s1, s2, t0, t1) ->
  exists A, ExpandA H P rho = Some A /\ BitPackProofs.bytes_ok rho /\
    tr = h_shake256 H (pkEncode rho t1) 64 /\
    t1 = map (map (fun r => fst (Power2Round r))) (vadd (vinvNTT (MatrixVectorNTT A (vNTT s1))) (map (map modq) s2)) /\
    t0 = map (map (fun r => snd (Power2Round r))) (vadd (vinvNTT (MatrixVectorNTT A (vNTT s1))) (map (map modq) s2)).
Proof.
  unfold KeyGen_parts. cbv zeta. set (hh := h_shake256 H _ 128).
  destruct (ExpandA H P (zslice 0 32 hh)) as [A|] eqn:EA; [|discriminate].
  destruct (ExpandS H P (zslice 32 96 hh)) as [[s1' s2']|] eqn:ESS; [|discriminate].
  intros E. injection E as Erho EK Etr E1 E2 E3 E4. subst s1' s2'. exists A. rewrite <- Erho.
  split; [exact EA|]. split; [apply SkDecodeProofs.zslice_bytes_ok; apply (shake256_ok H HL)|].
  split; [rewrite <- Etr, <- E4; reflexivity|]. split; [rewrite <- E4; reflexivity|rewrite <- E3; reflexivity].
Qed.

Theorem Spec_sign_verify xi fuel M' rnd rho K tr s1 s2 t0 t1 sigma :
  KeyGen_parts H P xi = Some (rho, K, tr, s1, s2, t0, t1) ->
  Sign_core H P fuel rho K tr s1 s2 t0 M' rnd = Some sigma ->
  Verify_internal H P (pkEncode rho t1) M' sigma = Some true /\ BitPackProofs.bytes_ok sigma /\ zlen sigma = p_sig_len P.
Proof.
  intros EP ES.
  destruct (KeyGen_parts_shape H HL P HP xi _ _ _ _ _ _ _ EP) as (Lr & LK & Lt & R1 & R2 & R3 & R4).
  destruct (sign_params P HP) as (Hg1 & Hg2 & Htau & Hl & Hkk & Hbeta & Hbg & Hom).
  destruct (KeyGen_parts_inv xi _ _ _ _ _ _ _ EP) as (A & EA & Br & Etr & Et1 & Et0). clear EP.
  destruct (ExpandA_shape H HL P _ _ EA) as [LA RA].
  unfold Sign_core in ES. rewrite EA in ES. set (mu := h_shake256 H (tr ++ M') 64) in *. set (rho'' := h_shake256 H (K ++ rnd ++ mu) 64) in *.
  destruct (Sign_loop H fuel P A (vNTT s1) (vNTT s2) (vNTT t0) mu rho'' 0) as [[[ct zs] h]|] eqn:EL; [|discriminate]. injection ES as <-.
  destruct (Sign_loop_accept A s1 s2 t0 mu rho'' fuel 0 ct zs h EL) as (kappa & z & Eatt & Ezs). clear EL.
  unfold Spec_attempt in Eatt. cbv zeta in Eatt.
  set (y := ExpandMask H P rho'' kappa) in *. set (w := vinvNTT (MatrixVectorNTT A (vNTT y))) in *.
  set (w1 := map (map (HighBits (p_gamma2 P))) w) in *.
  set (c_tilde := h_shake256 H (mu ++ w1Encode P w1) (Z.to_nat (p_lambda_div4 P))) in *.
  destruct (SampleInBall H (p_tau P) c_tilde) as [c|] eqn:Ec; [|discriminate].
  set (ch := NTT c) in *.
  set (cs1 := vinvNTT (ScalarVectorNTT ch (vNTT s1))) in *. set (cs2 := vinvNTT (ScalarVectorNTT ch (vNTT s2))) in *.
  destruct ((p_gamma1 P - p_beta P <=? infnorm (vadd (map (map modq) y) cs1))
            || (p_gamma2 P - p_beta P <=? maxZ (map (fun p => maxZ (map Z.abs p)) (map (map (LowBits (p_gamma2 P))) (vsub w cs2))))) eqn:Erej1; [discriminate|].
  set (ct0 := vinvNTT (ScalarVectorNTT ch (vNTT t0))) in *.
  set (G := fun a b : Z => Z.b2z (MakeHint (p_gamma2 P) (- a mod q) b)) in *.
  destruct ((p_gamma2 P <=? infnorm ct0) || (p_omega P <? weight (map2 (map2 G) ct0 (vadd (vsub w cs2) ct0)))) eqn:Erej2; [discriminate|].
  injection Eatt as Ect Ez Eh. subst ct.
  apply orb_false_elim in Erej1 as [Ern Err]. apply Z.leb_gt in Ern, Err.
  apply orb_false_elim in Erej2 as [Ert Erw]. apply Z.leb_gt in Ert. apply Z.ltb_ge in Erw.
  (* shapes *)
  destruct (SampleInBall_weight H HL _ _ _ Htau Ec) as (Wc & Lc & Bc).
  destruct (ExpandMask_all256 rho'' kappa) as [Hy Ly]. fold y in Hy, Ly.
  assert (Hs1 : all256 s1) by (eapply Forall_impl; [|apply R1]; intros p Hp; apply Hp).
  assert (Hs2 : all256 s2) by (eapply Forall_impl; [|apply R2]; intros p Hp; apply Hp).
  assert (Ht0 : all256 t0) by (eapply Forall_impl; [|apply R3]; intros p Hp; apply Hp).
  assert (Lch : length ch = 256%nat) by (apply NTT_length; exact Lc).
  destruct (ScalarVector_shape ch s1 Lch Hs1) as [S1 L1]. destruct (ScalarVector_shape ch s2 Lch Hs2) as [S2 L2]. destruct (ScalarVector_shape ch t0 Lch Ht0) as [S3 L3].
  fold cs1 in S1, L1. fold cs2 in S2, L2. fold ct0 in S3, L3.
  destruct (MatrixVectorNTT_rows (p_l P) A (vNTT y) ltac:(exact RA) (vNTT_rows _ Hy)) as [Lm Lml].
  destruct (vinvNTT_shape _ Lm) as [Sw Lw]. fold w in Sw, Lw.
  assert (Lwk : length w = p_k P) by (rewrite Lw, Lml; exact LA).
  assert (Hz : all256 z /\ length z = p_l P).
  { rewrite <- Ez. unfold vadd. split.
    - apply (map2_Forall padd (fun p => length p = 256%nat) (fun p => length p = 256%nat /\ Forall (fun x => 0 <= x < Q) p)); [| |exact S1].
      + intros a b La [Lb _]. rewrite padd_length; congruence.
      + rewrite Forall_map. eapply Forall_impl; [|exact Hy]. intros p Lp. rewrite map_length. exact Lp.
    - rewrite map2_length, map_length, L1, Ly. destruct R1 as [_ ->]. lia. }
  destruct Hz as [Hz Lz].
  assert (Czs : Forall2 (Forall2 congQ) zs z).
  { rewrite Ezs. clear. induction z as [|p z IH]; cbn [map]; constructor; [|exact IH].
    induction p as [|x p IHp]; cbn [map]; constructor; [|exact IHp].
    unfold mod_pm. rewrite q_eq. destruct (x mod Q <=? Q / 2); [apply congQ_mod|].
    unfold congQ. replace (x mod Q - Q) with (x mod Q + (-1) * Q) by ring. rewrite Z.mod_add by (unfold Q; lia). apply Z.mod_mod. unfold Q; lia. }
  assert (Hzs : all256 zs) by (rewrite Ezs; unfold all256; rewrite Forall_map; eapply Forall_impl; [|exact Hz]; intros p Lp; rewrite map_length; exact Lp).
  assert (Rzs : rvec (p_gamma1 P - 1) (p_gamma1 P) (p_l P) zs).
  { rewrite Ez in Ern. pose proof (infnorm_lt _ _ Ern) as Hb. split; [|rewrite Ezs, map_length; exact Lz].
    rewrite Ezs. rewrite Forall_map. apply Forall_forall. intros p Hp. split.
    - rewrite map_length. unfold all256 in Hz. rewrite Forall_forall in Hz. apply Hz. exact Hp.
    - rewrite Forall_map. rewrite Forall_forall in Hb. specialize (Hb p Hp). eapply Forall_impl; [|exact Hb]. cbn beta. intros x Hx. lia. }
  assert (Rh : rvec 0 1 (p_k P) h).
  { rewrite <- Eh. assert (Lx : all256 (vadd (vsub w cs2) ct0) /\ length (vadd (vsub w cs2) ct0) = p_k P).
    { unfold vadd, vsub. split.
      - apply (map2_Forall padd (fun p => length p = 256%nat) (fun p => length p = 256%nat /\ Forall (fun x => 0 <= x < Q) p)); [| |exact S3].
        + intros a b La [Lb _]. rewrite padd_length; congruence.
        + apply (map2_Forall psub (fun p => length p = 256%nat /\ Forall (fun x => 0 <= x < Q) p) (fun p => length p = 256%nat /\ Forall (fun x => 0 <= x < Q) p)); [|exact Sw|exact S2].
          intros a b [La _] [Lb _]. rewrite psub_length; congruence.
      - rewrite !map2_length, Lwk, L2, L3. destruct R2 as [_ ->]. destruct R3 as [_ ->]. lia. }
    split.
    - apply (map2_Forall (map2 G) (fun p => length p = 256%nat /\ Forall (fun x => 0 <= x < Q) p) (fun p => length p = 256%nat)); [|exact S3|apply Lx].
      intros a b [La _] Lb. split; [rewrite map2_length; lia|].
      apply (map2_Forall G (fun _ => True) (fun _ => True)); [|apply Forall_forall; auto|apply Forall_forall; auto].
      intros xa xb _ _. unfold G. destruct (MakeHint (p_gamma2 P) (- xa mod q) xb); cbn; lia.
    - rewrite map2_length, L3. destruct Lx as [_ ->]. destruct R3 as [_ ->]. lia. }
  assert (Hw' : weight h <= p_omega P) by (rewrite <- Eh; exact Erw).
  assert (Lct : zlen c_tilde = p_lambda_div4 P).
  { unfold c_tilde, zlen. rewrite (shake256_len H HL). destruct HP as [<-|[<-|[<-|[]]]]; reflexivity. }
  assert (Bct : BitPackProofs.bytes_ok c_tilde) by apply (shake256_ok H HL).
  (* run Verify_internal *)
  destruct (pkDecode_pkEncode rho t1 Lr Br R4) as (Epk & _ & _).
  destruct (sigDecode_sigEncode c_tilde zs h Lct Bct Rzs Rh Hw') as (Esd & Bsig & Lsig). split; [|split; assumption].
  unfold Verify_internal. rewrite Epk, Esd, EA, Ec. cbv zeta.
  change (Z.to_nat 64) with 64%nat. rewrite <- Etr. fold mu.
  (* the norm test *)
  rewrite (infnorm_cong _ _ Czs). rewrite <- Ez.
  replace (infnorm (vadd (map (map modq) y) cs1) <? p_gamma1 P - p_beta P) with true by (symmetry; apply Z.ltb_lt; exact Ern).
  cbn [andb]. f_equal. apply list_eqb_eq. unfold c_tilde at 1. f_equal. f_equal. f_equal. unfold w1.
  (* w'approx *)
  assert (HA : Forall (fun row => all256 row /\ length row = p_l P) A).
  { eapply Forall_impl; [|exact RA]. intros row (_ & Lrow & L256). split; assumption. }
  assert (Ls1 : length s1 = p_l P) by apply R1. assert (Ls2 : length s2 = p_k P) by apply R2.
  pose proof Czs as Czs'. rewrite <- Ez in Czs'.
  pose proof (wapprox_eq (p_l P) (p_k P) A c y s1 s2 zs HA LA Lc Hy Ly Hs1 Ls1 Hs2 Ls2 Hzs Czs') as Hwa.
  cbv zeta in Hwa. rewrite <- Et1, <- Et0 in Hwa. fold ch w cs2 ct0 in Hwa. fold ch. rewrite Hwa. rewrite <- Eh.
  (* hint recovery *)
  symmetry. apply (hint_recover_vec (p_gamma2 P) (p_beta P) w cs2 ct0 Hg2 ltac:(lia)).
  - eapply Forall_impl; [|exact Sw]. intros p Hp. apply Hp.
  - eapply Forall_impl; [|exact S2]. intros p Hp. apply Hp.
  - eapply Forall_impl; [|exact S3]. intros p Hp. apply Hp.
  - rewrite L2, Lwk. apply R2.
  - rewrite L3, Lwk. apply R3.
  - apply infnorm_lt. exact Ert.
  - (* || c s2 || <= beta *)
    assert (Hbeta' : p_beta P = p_tau P * p_eta P) by (destruct HP as [<-|[<-|[<-|[]]]]; reflexivity).
    pose proof (eta_small P HP) as He.
    unfold cs2, vinvNTT, ScalarVectorNTT, vNTT. rewrite !Forall_map. destruct R2 as [R2 _]. eapply Forall_impl; [|exact R2]. intros p [Lp Rp].
    fold (MultiplyNTT ch (NTT p)). unfold ch. rewrite (ntt_ring c p Lc Lp).
    pose proof (negacyclic_bound c p (p_eta P) ltac:(lia) Bc ltac:(eapply Forall_impl; [|exact Rp]; cbn beta; intros; lia)) as Hcb.
    rewrite Wc, <- Hbeta' in Hcb. eapply Forall_impl; [|exact Hcb]. cbn beta. intros v Hv. apply cbound_centered; [lia|exact Hv].
  - (* low bits *)
    set (r0 := map (map (LowBits (p_gamma2 P))) (vsub w cs2)) in *. apply Forall_forall. intros p Hp. apply Forall_forall. intros x Hx.
    assert (H1 : maxZ (map Z.abs p) <= maxZ (map (fun p0 => maxZ (map Z.abs p0)) r0)) by (apply maxZ_ge; apply (in_map (fun p0 => maxZ (map Z.abs p0))); exact Hp).
    assert (H2 : Z.abs x <= maxZ (map Z.abs p)) by (apply maxZ_ge, in_map; exact Hx). lia.
Qed.
End C.
