(* Building blocks of the verification refinement (C02): norms, hints, w1 encoding, the verifier's
   pre-compute of t1 * 2^d, and the coefficient-wise difference A z - c t1 2^d. *)
Require Import F204.Base.Util F204.Base.Mach F204.Base.Bits F204.Base.ListLemmas F204.Gen.Params F204.Hash.HashIface
  F204.Impl.Helpers F204.Impl.Ntt F204.Impl.HighLow F204.Impl.Conversion F204.Impl.Encodings F204.Impl.MlDsa
  F204.Spec.SpecConv F204.Spec.SpecRound F204.Spec.SpecNtt F204.Spec.SpecMLDSA
  F204.Proofs.KernelLemmas F204.Proofs.NttRefine F204.Proofs.NttRing F204.Proofs.NttPipeline
  F204.Proofs.BitPackProofs F204.Proofs.SpecBits F204.Proofs.HintProofs F204.Proofs.SibRefine.
Open Scope Z_scope.
Arguments Z.mul : simpl never.
Arguments Z.add : simpl never.
Arguments Z.sub : simpl never.
Arguments Z.pow : simpl never.
Arguments zeta : simpl never.
Arguments zeta_mont : simpl never.

(* ---------- infinity norm ---------- *)
Lemma abs_center_ok e : Z.abs e < PR32_BOUND -> abs_center e = Ok (Z.abs (mod_pm e q)).
Proof.
  intros He. unfold abs_center. rewrite center_mod_spec by exact He. cbn [bind]. unfold abs32. apply chk32_ok.
  unfold mod_pm, q, Q, i32_min, i32_max. pose proof (Z.mod_pos_bound e 8380417 ltac:(lia)).
  destruct (e mod 8380417 <=? 8380417 / 2); change (8380417 / 2) with 4190208 in *; lia.
Qed.

Lemma fold_max_maxZ : forall r x, 0 <= x -> fold_left Z.max r x = maxZ (x :: r).
Proof.
  unfold maxZ. induction r as [|y r IH]; intros x Hx; cbn [fold_left fold_right]; [lia|].
  rewrite IH by lia. cbn [fold_right]. lia.
Qed.

Definition absn (x : Z) : Z := Z.abs (mod_pm x q).
Lemma maxZ_nonneg l : 0 <= maxZ l.
Proof. unfold maxZ. induction l as [|x l IH]; cbn [fold_right]; lia. Qed.
Lemma maxZ_app a b : maxZ (a ++ b) = Z.max (maxZ a) (maxZ b).
Proof.
  induction a as [|x a IH]; [cbn [app]; pose proof (maxZ_nonneg b); unfold maxZ at 2; cbn [fold_right]; lia|].
  cbn [app]. unfold maxZ in *. cbn [fold_right]. rewrite IH. lia.
Qed.
Lemma maxZ_concat (v : list (list Z)) : maxZ (map (fun p => maxZ (map absn p)) v) = maxZ (map absn (concat v)).
Proof.
  induction v as [|p v IH]; [reflexivity|]. cbn [map concat]. rewrite map_app, maxZ_app, <- IH.
  unfold maxZ at 1. cbn [fold_right]. reflexivity.
Qed.

Theorem infinity_norm_spec v : Forall (bounded (PR32_BOUND - 1)) v -> concat v <> [] ->
  infinity_norm v = Ok (infnorm v).
Proof.
  intros Hb Hne. unfold infinity_norm, infnorm, infnorm_poly. fold absn.
  assert (Hm : mapM abs_center (concat v) = Ok (map absn (concat v))).
  { apply mapM_pure with (P := fun e => Z.abs e <= PR32_BOUND - 1).
    - intros e He. apply abs_center_ok. lia.
    - clear Hne. induction Hb as [|p v Hp Hb IH]; cbn [concat]; [constructor|]. apply Forall_app. split; assumption. }
  rewrite Hm. cbn [bind]. rewrite maxZ_concat.
  destruct (concat v) as [|x r]; [contradiction|]. cbn [map]. f_equal. apply fold_max_maxZ. unfold absn. lia.
Qed.

(* ---------- hints are 0/1 polynomials ---------- *)
Definition hint_poly (p : list Z) : Prop := length p = 256%nat /\ Forall (fun x => x = 0 \/ x = 1) p.
Lemma upd_01 (p : list Z) n : Forall (fun x => x = 0 \/ x = 1) p -> Forall (fun x => x = 0 \/ x = 1) (upd p n 1).
Proof.
  revert n. induction p as [|x p IH]; intros n H; [destruct n; constructor|].
  inversion H; subst. destruct n; cbn; constructor; auto.
Qed.
Lemma set_ones_hint pos : hint_poly (set_ones pos).
Proof.
  unfold set_ones. assert (Hz : hint_poly (zeros 256)).
  { split; [apply repeat_length|]. apply Forall_forall. intros x Hx. apply repeat_spec in Hx. auto. }
  revert Hz. generalize (zeros 256). induction pos as [|j pos IH]; intros p Hp; cbn [fold_left]; [exact Hp|].
  apply IH. destruct Hp as [Hl Hf]. split; [unfold zupd; rewrite upd_length; exact Hl|unfold zupd; apply upd_01; exact Hf].
Qed.
Lemma hint_loop_polys omega y : forall counts index acc h idx,
  Forall hint_poly acc -> HintBitUnpack_loop omega y counts index acc = Some (h, idx) ->
  Forall hint_poly h /\ length h = (length acc + length counts)%nat.
Proof.
  induction counts as [|c counts IH]; intros index acc h idx Hacc E; cbn [HintBitUnpack_loop] in E.
  - injection E as <- <-. split; [apply Forall_rev; exact Hacc|rewrite rev_length; cbn; lia].
  - destruct ((c <? index) || (omega <? c)); [discriminate|].
    destruct (strictly_increasing (zslice index c y)); [|discriminate].
    apply IH in E; [|constructor; [apply set_ones_hint|exact Hacc]]. destruct E as [E1 E2]. split; [exact E1|cbn [length] in *; lia].
Qed.
Lemma HintBitUnpack_polys omega k y h : HintBitUnpack omega k y = Some h -> Forall hint_poly h /\ length h = length (zslice omega (omega + Z.of_nat k) y).
Proof.
  unfold HintBitUnpack. destruct (HintBitUnpack_loop omega y (zslice omega (omega + Z.of_nat k) y) 0 []) as [[h' idx]|] eqn:E; [|discriminate].
  destruct (forallb _ _); [|discriminate]. intros Eq. injection Eq as <-.
  apply hint_loop_polys in E; [|constructor]. exact E.
Qed.

(* ---------- UseHint: range, and the coefficient-wise map ---------- *)
Lemma UseHint_range g h r : valid_gamma2 g -> 0 <= UseHint g h r <= (q - 1) / (2 * g) - 1.
Proof.
  intros Hg. unfold UseHint. pose proof (Decompose_range g r Hg) as Hr. destruct (Decompose g r) as [r1 r0].
  destruct Hg as [-> | ->]; unfold G44, G65, q, Q in *.
  - change ((8380417 - 1) / (2 * 95232)) with 44 in *.
    destruct ((h =? 1) && (0 <? r0)); [pose proof (Z.mod_pos_bound (r1 + 1) 44); lia|].
    destruct ((h =? 1) && (r0 <=? 0)); [pose proof (Z.mod_pos_bound (r1 - 1) 44); lia|lia].
  - change ((8380417 - 1) / (2 * 261888)) with 16 in *.
    destruct ((h =? 1) && (0 <? r0)); [pose proof (Z.mod_pos_bound (r1 + 1) 16); lia|].
    destruct ((h =? 1) && (r0 <=? 0)); [pose proof (Z.mod_pos_bound (r1 - 1) 16); lia|lia].
Qed.

Lemma use_hint_vec g (h w : list (list Z)) : valid_gamma2 g -> Forall hint_poly h ->
  Forall (fun p => bounded (PR32_BOUND - 1) p) w ->
  map2M (map2M (use_hint g)) h w = Ok (map2 (map2 (UseHint g)) h w).
Proof.
  intros Hg Hh Hw.
  apply map2M_pure with (P := hint_poly) (Q := fun p => bounded (PR32_BOUND - 1) p); try assumption.
  intros hp wp [_ Hhp] Hwp.
  apply map2M_pure with (P := fun x => x = 0 \/ x = 1) (Q := fun x => Z.abs x <= PR32_BOUND - 1); try assumption.
  intros x r Hx Hr. apply use_hint_spec; [exact Hg|exact Hx|lia].
Qed.

(* ---------- w1_encode ---------- *)
Lemma w1_params P : In P all_params ->
  valid_gamma2 (p_gamma2 P) /\ p_w1_len P = 32 * kz P * Helpers.bitlen ((Q - 1) / (2 * p_gamma2 P) - 1)
  /\ 1 <= (Q - 1) / (2 * p_gamma2 P) - 1 < 1048576.
Proof. intros [<-|[<-|[<-|[]]]]; unfold valid_gamma2, G44, G65; repeat split; auto; try reflexivity; vm_compute; congruence. Qed.

Theorem w1_encode_spec P (w1 : list (list Z)) : In P all_params -> length w1 = p_k P ->
  Forall (fun p => length p = 256%nat /\ is_in_range p 0 ((Q - 1) / (2 * p_gamma2 P) - 1) = true) w1 ->
  w1_encode P w1 (p_w1_len P) = Ok (w1Encode P w1).
Proof.
  intros HP Hl Hw. destruct (w1_params P HP) as (_ & Hlen & Hm). unfold w1_encode, w1Encode, q.
  set (m := (Q - 1) / (2 * p_gamma2 P) - 1) in *.
  rewrite Hlen, Z.eqb_refl. cbn [guard bind].
  replace (forallb (fun r => is_in_range r 0 m) w1) with true.
  2:{ symmetry. apply forallb_forall. intros p Hp. rewrite Forall_forall in Hw. apply (Hw p Hp). }
  cbn [guard bind].
  assert (Hmap : mapM (fun p => simple_bit_pack p m (32 * Helpers.bitlen m)) w1 = Ok (map (fun p => SimpleBitPack p m) w1)).
  { apply mapM_pure with (P := fun p => length p = 256%nat /\ is_in_range p 0 m = true); [|exact Hw].
    intros p [Hlp Hrp]. apply simple_bit_pack_is_Spec; assumption. }
  rewrite Hmap. cbn [bind]. rewrite flat_map_concat_map. reflexivity.
Qed.

(* ---------- Montgomery products with an arbitrary bounded left factor ---------- *)
Lemma mul_mont_ok2 a u : Z.abs a <= NTT_OUT -> Z.abs u < 2 * Q ->
  mul_mont_coef a u = Ok (mm_val a u) /\ congQ (mm_val a u * 4294967296) (a * u) /\ Z.abs (mm_val a u) < Q.
Proof.
  unfold NTT_OUT, Q. intros Ha Hu. unfold mul_mont_coef, mm_val, mul64.
  assert (Hp : Z.abs (a * u) <= 35000000 * 16760833) by nia.
  rewrite chk64_ok by (unfold i64_min, i64_max; lia). cbn [bind].
  destruct (mont_val_ok (a * u)) as (E & Hc & Hr & _); [unfold MONT_LO, MONT_HI; lia|].
  repeat split; assumption.
Qed.

(* ---------- the verifier's pre-compute: NTT(t1 * 2^d) in Montgomery form ---------- *)
Definition t1d_rel (t x : Z) : Prop := congQ t (x * 8192 * 4294967296) /\ Z.abs t < 2 * Q.

Lemma shift_mont_ok x : Z.abs x < 2 * Q ->
  exists m, mont_reduce (shl64 x D) = Ok m /\ congQ (m * 4294967296) (x * 8192) /\ Z.abs m < Q.
Proof.
  unfold Q. intros Hx. unfold shl64, D. rewrite Z.shiftl_mul_pow2 by lia. change (2 ^ 13) with 8192.
  rewrite wrap64_id by (unfold i64_min, i64_max; lia).
  destruct (mont_val_ok (x * 8192)) as (E & Hc & Hr & _); [unfold MONT_LO, MONT_HI; lia|].
  exists (mont_val (x * 8192)). repeat split; assumption.
Qed.

Theorem t1_precompute_ok (t1 : list (list Z)) : Forall (poly256 NTT_IN) t1 ->
  exists r, t1_precompute t1 = Ok r /\ Forall2 (Forall2 t1d_rel) r (vNTT t1).
Proof.
  intros Ht. unfold t1_precompute.
  destruct (ntt_vec_ok t1 Ht) as (t1h & E1 & C1 & B1). rewrite E1. cbn [bind].
  (* every stage is a coefficient-wise map; carry the relation to NTT t1 through the four stages *)
  assert (Hst : forall (v : list (list Z)) (ws : list (list Z)),
     Forall2 (Forall2 (fun a x => congQ a x /\ Z.abs a <= NTT_OUT)) v ws ->
     exists r, (t1hm <- to_mont v ;; sh <- mapM (mapM (fun x => mont_reduce (shl64 x D))) t1hm ;; to_mont sh) = Ok r
               /\ Forall2 (Forall2 t1d_rel) r ws).
  { clear. intros v ws Hv.
    assert (Hpoly : forall (p ps : list Z), Forall2 (fun a x => congQ a x /\ Z.abs a <= NTT_OUT) p ps ->
       exists r, (a <- to_mont_poly p ;; b <- mapM (fun x => mont_reduce (shl64 x D)) a ;; to_mont_poly b) = Ok r /\ Forall2 t1d_rel r ps).
    { intros p ps Hp. induction Hp as [|a x p ps [Hax Hab] Hp IH].
      - exists []. split; [reflexivity|constructor].
      - destruct IH as (r & Er & Rr). unfold to_mont_poly in *. cbn [mapM].
        destruct (to_mont_coef_ok a) as (Ea & Ca & Ba); [unfold NTT_OUT in Hab; lia|]. rewrite Ea. cbn [bind].
        destruct (mapM to_mont_coef p) as [pm| | |] eqn:Epm; cbn [bind] in Er |- *; try discriminate.
        cbn [mapM]. destruct (shift_mont_ok (to_mont_val a) Ba) as (m & Em & Cm & Bm). rewrite Em. cbn [bind].
        destruct (mapM (fun x0 => mont_reduce (shl64 x0 D)) pm) as [ps2| | |] eqn:Eps; cbn [bind] in Er |- *; try discriminate.
        cbn [mapM]. destruct (to_mont_coef_ok m) as (Em2 & Cm2 & Bm2); [unfold Q in *; lia|]. rewrite Em2. cbn [bind].
        destruct (mapM to_mont_coef ps2) as [r2| | |] eqn:Er2; cbn [bind] in Er |- *; try discriminate.
        injection Er as <-. eexists. split; [reflexivity|]. constructor; [|exact Rr]. split; [|exact Bm2].
        (* to_mont(m) = m * 2^32, m * 2^32 = to_mont(a) * 8192 = a * 2^32 * 8192, a = x *)
        eapply congQ_trans; [exact Cm2|]. apply congQ_mul; [|reflexivity].
        apply congQ_cancel_R. eapply congQ_trans; [exact Cm|].
        eapply congQ_trans; [apply congQ_mul; [exact Ca|reflexivity]|].
        replace (a * 4294967296 * 8192) with (a * 8192 * 4294967296) by ring.
        apply congQ_mul; [apply congQ_mul; [exact Hax|reflexivity]|reflexivity]. }
    induction Hv as [|p ps v ws Hp Hv IH].
    - exists []. split; [reflexivity|constructor].
    - destruct IH as (r & Er & Rr). destruct (Hpoly p ps Hp) as (rp & Erp & Rrp).
      unfold to_mont in *. cbn [mapM].
      destruct (to_mont_poly p) as [pm| | |] eqn:Epm; cbn [bind] in Erp |- *; try discriminate.
      destruct (mapM to_mont_poly v) as [vm| | |] eqn:Evm; cbn [bind] in Er |- *; try discriminate.
      cbn [mapM]. destruct (mapM (fun x => mont_reduce (shl64 x D)) pm) as [ps2| | |] eqn:Eps; cbn [bind] in Erp |- *; try discriminate.
      destruct (mapM (mapM (fun x => mont_reduce (shl64 x D))) vm) as [vs2| | |] eqn:Evs; cbn [bind] in Er |- *; try discriminate.
      cbn [mapM]. rewrite Erp. cbn [bind]. rewrite Er. cbn [bind]. eexists. split; [reflexivity|]. constructor; assumption. }
  apply Hst.
  clear - C1 B1. revert B1. induction C1 as [|p ps v ws Hp C1 IH]; intros B1; [constructor|].
  inversion B1 as [|? ? [Hb _] B1']; subst. constructor; [|apply IH; exact B1'].
  clear - Hp Hb. induction Hp; inversion Hb; subst; constructor; auto.
Qed.
