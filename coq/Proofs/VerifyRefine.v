(* C02: the crate's verification equals FIPS 204 Verify on every public-key byte string, message,
   context and signature byte string - composition of the decoding, sampling, NTT, rounding and
   encoding refinements. *)
Require Import F204.Base.Util F204.Base.Mach F204.Base.Bits F204.Base.ListLemmas F204.Gen.Params F204.Gen.Guards F204.Gen.Oids
  F204.Hash.HashIface
  F204.Impl.Helpers F204.Impl.Ntt F204.Impl.HighLow F204.Impl.Conversion F204.Impl.Encodings F204.Impl.Hashing F204.Impl.MlDsa F204.Impl.Api
  F204.Spec.SpecConv F204.Spec.SpecRound F204.Spec.SpecNtt F204.Spec.SpecSample F204.Spec.SpecMLDSA
  F204.Proofs.KernelLemmas F204.Proofs.NttRefine F204.Proofs.NttRing F204.Proofs.NttPipeline
  F204.Proofs.BitPackProofs F204.Proofs.SkDecodeProofs F204.Proofs.SpecBits F204.Proofs.HintProofs
  F204.Proofs.SampleRefine F204.Proofs.SibRefine F204.Proofs.DecodeRefine F204.Proofs.VerifyParts.
Open Scope Z_scope.
Arguments Z.mul : simpl never.
Arguments Z.add : simpl never.
Arguments Z.sub : simpl never.
Arguments Z.pow : simpl never.
Arguments zeta : simpl never.
Arguments zeta_mont : simpl never.
Opaque fields.

Section V.
Variable H : Hashes.
Hypothesis HL : HashLaws H.
Variable P : Params.
Hypothesis HP : In P all_params.

(* everything FIPS 204 Verify_internal computes from (pk, sigma) alone *)
Definition spec_core (pkb sigma : bytes) : option (option (bytes * bytes * bool)) :=
  let '(rho, t1) := pkDecode (p_k P) pkb in
  let '(c_tilde, z, h) := sigDecode P sigma in
  match h with
  | None => Some None
  | Some h =>
      match ExpandA H P rho, SampleInBall H (p_tau P) c_tilde with
      | Some A_hat, Some c =>
          let t1d := map (map (fun x => x * 2 ^ d)) t1 in
          let w'approx := vinvNTT (vsub (MatrixVectorNTT A_hat (vNTT z)) (ScalarVectorNTT (NTT c) (vNTT t1d))) in
          let w1' := map2 (map2 (UseHint (p_gamma2 P))) h w'approx in
          Some (Some (c_tilde, w1Encode P w1', infnorm z <? p_gamma1 P - p_beta P))
      | _, _ => None
      end
  end.

Lemma Verify_internal_core pkb M' sigma :
  Verify_internal H P pkb M' sigma =
    match spec_core pkb sigma with
    | None => None
    | Some None => Some false
    | Some (Some (c_tilde, w1e, nok)) =>
        let mu := h_shake256 H (h_shake256 H pkb 64 ++ M') 64 in
        Some (nok && list_eqb c_tilde (h_shake256 H (mu ++ w1e) (Z.to_nat (p_lambda_div4 P))))
    end.
Proof.
  unfold Verify_internal, spec_core.
  destruct (pkDecode (p_k P) pkb) as [rho t1]. destruct (sigDecode P sigma) as [[c_tilde z] [h|]]; [|reflexivity].
  destruct (ExpandA H P rho); [|reflexivity]. destruct (SampleInBall H (p_tau P) c_tilde); reflexivity.
Qed.

(* ---------- shapes of the decoded objects ---------- *)
Lemma fields_shape c v : 0 < c -> length (fields c v) = 256%nat /\ Forall (fun d => 0 <= d < 2 ^ c) (fields c v).
Proof. Transparent fields. intros Hc. unfold fields. split; [apply digits_length|apply digits_range; exact Hc]. Opaque fields. Qed.

Lemma pkDecode_shape pkb : BitPackProofs.bytes_ok pkb -> zlen pkb = p_pk_len P ->
  zlen (fst (pkDecode (p_k P) pkb)) = 32 /\ length (snd (pkDecode (p_k P) pkb)) = p_k P
  /\ Forall (poly256 NTT_IN) (snd (pkDecode (p_k P) pkb)).
Proof.
  intros Hb Hlen.
  assert (Hk : p_pk_len P = 32 + 32 * kz P * 10 /\ 0 <= kz P <= 8) by (destruct HP as [<-|[<-|[<-|[]]]]; (split; [reflexivity|unfold kz; cbn; lia])).
  destruct Hk as [Hpk Hkr]. unfold pkDecode. cbn [fst snd].
  change bl_t1 with 10. change t1_max with 1023. change (Z.to_nat (32 * 10)) with 320%nat.
  rewrite (chunks_zslice pkb 32 320 (p_k P)) by lia. rewrite map_map. repeat split.
  - unfold ztake, zlen in *. rewrite firstn_length. lia.
  - rewrite map_length, seq_length. reflexivity.
  - apply Forall_forall. intros p Hp. apply in_map_iff in Hp as (i & <- & Hi). apply in_seq in Hi. unfold kz in *.
    set (ch := zslice (32 + Z.of_nat i * Z.of_nat 320) (32 + (Z.of_nat i + 1) * Z.of_nat 320) pkb).
    assert (Hl : Z.of_nat (length ch) = 32 * Helpers.bitlen 1023) by (unfold ch; rewrite zslice_length; [change (Helpers.bitlen 1023) with 10|..]; lia).
    rewrite SimpleBitUnpack_digits; [|lia|unfold ch; apply zslice_bytes_ok; exact Hb|exact Hl].
    change (Helpers.bitlen 1023) with 10. destruct (fields_shape 10 ch ltac:(lia)) as [F1 F2]. split; [|exact F1].
    eapply Forall_impl; [|exact F2]. cbn beta. intros x Hx. change (2 ^ 10) with 1024 in Hx. unfold NTT_IN. lia.
Qed.

Lemma sigDecode_shape sigma : BitPackProofs.bytes_ok sigma -> zlen sigma = p_sig_len P ->
  let '(c_tilde, z, h) := sigDecode P sigma in
  length z = p_l P /\ Forall (fun p => length p = 256%nat /\ bounded (p_gamma1 P) p) z
  /\ match h with Some h => Forall hint_poly h /\ length h = p_k P | None => True end.
Proof.
  intros Hb Hlen. destruct (sig_params P HP) as (Hg & Hform & Hl & Hk & Hom & Homk & Hld).
  unfold sigDecode.
  set (g1 := p_gamma1 P) in *. set (ld4 := p_lambda_div4 P) in *.
  set (c := Helpers.bitlen (g1 - 1) + 1).
  assert (Hc : c = 18 \/ c = 20) by (unfold c; destruct Hg as [E|E]; rewrite E; [left|right]; reflexivity).
  assert (Hcb : Helpers.bitlen (g1 - 1 + g1) = c) by (unfold c; destruct Hg as [E|E]; rewrite E; reflexivity).
  assert (Hspecstep : (32 * (1 + SpecConv.bitlen (g1 - 1)))%nat = Z.to_nat (32 * c)) by (unfold c; destruct Hg as [E|E]; rewrite E; reflexivity).
  rewrite Hspecstep. set (step := Z.to_nat (32 * c)).
  assert (Hstepz : Z.of_nat step = 32 * c) by (unfold step; destruct Hc as [E|E]; rewrite E; reflexivity).
  assert (Hsl : zlen sigma = ld4 + lz P * (32 * c) + p_omega P + kz P).
  { rewrite Hlen, Hform. unfold sig_len_formula. fold g1 ld4. unfold c. rewrite Z.abs_eq by lia. lia. }
  rewrite (chunks_zslice sigma ld4 step (p_l P)) by lia. rewrite map_map. repeat split.
  - rewrite map_length, seq_length. reflexivity.
  - apply Forall_forall. intros p Hp. apply in_map_iff in Hp as (i & <- & Hi). apply in_seq in Hi. unfold lz in *.
    set (ch := zslice (ld4 + Z.of_nat i * Z.of_nat step) (ld4 + (Z.of_nat i + 1) * Z.of_nat step) sigma).
    assert (Hlc : Z.of_nat (length ch) = 32 * Helpers.bitlen (g1 - 1 + g1)).
    { unfold ch. rewrite zslice_length; [rewrite Hcb; lia| destruct Hc as [E|E]; rewrite E in *; lia | destruct Hc as [E|E]; rewrite E in *; nia]. }
    rewrite BitUnpack_digits; [|destruct Hg as [E|E]; rewrite E; lia|unfold ch; apply zslice_bytes_ok; exact Hb|exact Hlc].
    rewrite Hcb. destruct (fields_shape c ch ltac:(destruct Hc as [E|E]; rewrite E; lia)) as [F1 F2].
    split; [rewrite map_length; exact F1|]. apply Forall_forall. intros x Hx. apply in_map_iff in Hx as (dd & <- & Hd).
    rewrite Forall_forall in F2. specialize (F2 dd Hd).
    assert (2 ^ c = 2 * g1) by (unfold c; destruct Hg as [E|E]; rewrite E; reflexivity).
    lia.
  - set (y := skipn (step * p_l P) (zdrop ld4 sigma)).
    destruct (HintBitUnpack (p_omega P) (p_k P) y) as [h|] eqn:Eh; [|exact I].
    apply HintBitUnpack_polys in Eh as [E1 E2]. split; [exact E1|].
    rewrite E2. assert (Hyl : zlen y = p_omega P + Z.of_nat (p_k P)).
    { unfold y, zdrop, zlen in *. rewrite !skipn_length. unfold lz, kz in *. lia. }
    pose proof (zslice_length y (p_omega P) (p_omega P + Z.of_nat (p_k P)) ltac:(lia) ltac:(lia)). lia.
Qed.

(* ---------- small facts ---------- *)
Lemma mod_pm_small x : Z.abs x <= 4190208 -> mod_pm x q = x.
Proof.
  intros Hx. unfold mod_pm, q, Q. change (8380417 / 2) with 4190208.
  pose proof (Z.div_mod x 8380417 ltac:(lia)) as Hdm. pose proof (Z.mod_pos_bound x 8380417 ltac:(lia)) as Hr.
  destruct (x mod 8380417 <=? 4190208) eqn:E; [apply Z.leb_le in E|apply Z.leb_gt in E].
  - assert (x / 8380417 = 0) by nia. nia.
  - assert (x / 8380417 = -1) by nia. nia.
Qed.
Lemma infnorm_le B (v : list (list Z)) : 0 <= B <= 4190208 -> Forall (bounded B) v -> infnorm v <= B.
Proof.
  intros HB Hv. unfold infnorm. induction Hv as [|p v Hp Hv IH]; [cbn; lia|]. cbn [map maxZ fold_right].
  fold (maxZ (map infnorm_poly v)). apply Z.max_lub; [|exact IH].
  unfold infnorm_poly. clear - Hp HB. induction Hp as [|x p Hx Hp IHp]; [cbn; lia|]. cbn [map maxZ fold_right].
  fold (maxZ (map (fun x0 => Z.abs (mod_pm x0 q)) p)). apply Z.max_lub; [|exact IHp]. rewrite mod_pm_small by lia. exact Hx.
Qed.

Lemma invNTT_range x : Forall (fun v => 0 <= v < Q) (invNTT x).
Proof. unfold invNTT, pscale. apply Forall_forall. intros y Hy. apply in_map_iff in Hy as (z & <- & _). apply Z.mod_pos_bound. reflexivity. Qed.
Lemma invNTT_len x : length x = 256%nat -> length (invNTT x) = 256%nat.
Proof. apply invNTT_length. Qed.

(* NTT of t1 * 2^d is 2^d times NTT of t1 *)
Lemma NTT_scale k w : Forall2 congQ (NTT (map (fun x => x * k) w)) (kscale k (NTT w)).
Proof.
  unfold NTT. eapply Forall2_congQ_trans; [apply NTT_rec_cong with (w' := kscale k (map modq w))|apply NTT_rec_kscale].
  unfold kscale. rewrite !map_map. induction w as [|x w IH]; cbn [map]; constructor; [|exact IH].
  unfold modq. rewrite q_eq. eapply congQ_trans; [apply congQ_mod|]. rewrite Z.mul_comm. apply congQ_mul; [reflexivity|apply congQ_sym, congQ_mod].
Qed.

(* ---------- the difference A z - c t1 2^d, coefficient by coefficient ---------- *)
Lemma diff_row_ok (az ch t1p mv nc nt : list Z) :
  bounded (7 * MM_OUT) az -> Forall2 congQ az mv ->
  bounded NTT_OUT ch -> Forall2 congQ ch nc ->
  Forall2 t1d_rel t1p nt ->
  length az = 256%nat -> length ch = 256%nat -> length t1p = 256%nat ->
  exists dr, map3M (fun a c t => m <- mul_mont_coef c t ;; sub32 a m) az ch t1p = Ok dr
    /\ bounded (PR32_BOUND - 1) dr /\ length dr = 256%nat
    /\ Forall2 congQ dr (psub mv (pmul nc (kscale 8192 nt))).
Proof.
  intros Baz Caz Bch Cch Rt La Lc Lt.
  exists (map3 (fun a c t => a - mm_val c t) az ch t1p).
  assert (Bt : Forall (fun t => Z.abs t < 2 * Q) t1p) by (clear - Rt; induction Rt as [|? ? ? ? [_ Hb]]; constructor; auto).
  split; [|split; [|split]].
  - apply map3M_pure with (P := fun a => Z.abs a <= 7 * MM_OUT) (Q := fun c => Z.abs c <= NTT_OUT) (R := fun t => Z.abs t < 2 * Q); try assumption.
    intros a c t Ha Hc Ht. destruct (mul_mont_ok2 c t Hc Ht) as (E & _ & Hm). rewrite E. cbn [bind]. unfold sub32. apply chk32_ok.
    unfold i32_min, i32_max, MM_OUT, Q in *. lia.
  - apply map3_Forall with (P := fun a => Z.abs a <= 7 * MM_OUT) (Q := fun c => Z.abs c <= NTT_OUT) (R := fun t => Z.abs t < 2 * Q); try assumption.
    intros a c t Ha Hc Ht. destruct (mul_mont_ok2 c t Hc Ht) as (_ & _ & Hm). unfold MM_OUT, PR32_BOUND, Q in *. lia.
  - rewrite map3_length; congruence.
  - unfold psub, pmul, kscale. clear La Lc Lt Bt.
    revert ch nc t1p nt Bch Cch Rt Baz. induction Caz as [|a a' az mv Ha Caz IH]; intros ch nc t1p nt Bch Cch Rt Baz; [cbn; constructor|].
    destruct Cch as [|c c' ch nc Hc Cch]; [cbn; constructor|]. destruct Rt as [|t x t1p nt [Ht Hbt] Rt]; [cbn; constructor|].
    inversion Bch as [|? ? Hbc Bch']; subst. inversion Baz as [|? ? Hba Baz']; subst. cbn [map3 map map2]. constructor.
    + destruct (mul_mont_ok2 c t Hbc Hbt) as (_ & Hcg & _).
      rewrite q_eq. eapply congQ_trans; [|apply congQ_sym, congQ_mod]. apply congQ_sub; [exact Ha|].
      eapply congQ_trans; [|apply congQ_sym, congQ_mod]. apply congQ_cancel_R. eapply congQ_trans; [exact Hcg|].
      replace (c' * (8192 * x) * 4294967296) with (c' * (x * 8192 * 4294967296)) by ring. apply congQ_mul; [exact Hc|exact Ht].
    + apply IH; assumption.
Qed.

Lemma diff_ok (az_hat : list (list Z)) (c_hat : list Z) (t1m : list (list Z)) mv nc (nt : list (list Z)) :
  Forall (bounded (7 * MM_OUT)) az_hat -> Forall2 (Forall2 congQ) az_hat mv -> Forall (fun p => length p = 256%nat) az_hat ->
  bounded NTT_OUT c_hat -> Forall2 congQ c_hat nc -> length c_hat = 256%nat ->
  Forall2 (Forall2 t1d_rel) t1m nt -> Forall (fun p => length p = 256%nat) t1m -> length az_hat = length t1m ->
  exists diff, map2M (fun azp t1p => map3M (fun a c t => m <- mul_mont_coef c t ;; sub32 a m) azp c_hat t1p) az_hat t1m = Ok diff
    /\ Forall (poly256 (PR32_BOUND - 1)) diff
    /\ Forall2 (Forall2 congQ) diff (vsub mv (ScalarVectorNTT nc (map (kscale 8192) nt))).
Proof.
  intros Baz Caz Laz Bch Cch Lch Rt Lt Hlen.
  revert t1m nt Rt Lt Hlen Baz Laz. induction Caz as [|azp mvp az_hat mv Hp Caz IH]; intros t1m nt Rt Lt Hlen Baz Laz.
  - destruct t1m; [|cbn in Hlen; lia]. exists []. inversion Rt; subst. cbn. repeat split; constructor.
  - destruct Rt as [|t1p ntp t1m nt Hr Rt]; [cbn in Hlen; lia|].
    inversion Baz as [|? ? Hb1 Baz']; subst. inversion Laz as [|? ? Hl1 Laz']; subst. inversion Lt as [|? ? Hl2 Lt']; subst.
    destruct (diff_row_ok azp c_hat t1p mvp nc ntp Hb1 Hp Bch Cch Hr Hl1 Lch Hl2) as (dr & Er & Bd & Ld & Cd).
    destruct (IH t1m nt Rt Lt' ltac:(cbn in Hlen; lia) Baz' Laz') as (diff & Ed & Bdiff & Cdiff).
    exists (dr :: diff). cbn [map2M]. rewrite Er. cbn [bind]. rewrite Ed. cbn [bind]. split; [reflexivity|]. split.
    + constructor; [split; assumption|exact Bdiff].
    + unfold vsub, ScalarVectorNTT in *. cbn [map map2]. constructor; assumption.
Qed.

Lemma rows_len {A} (R : A -> Z -> Prop) (r : list (list A)) (ws : list (list Z)) :
  Forall2 (Forall2 R) r ws -> Forall (fun w => length w = 256%nat) ws -> Forall (fun p => length p = 256%nat) r.
Proof.
  induction 1 as [|p w r ws Hpw Hr IH]; intros Hw; [constructor|]. inversion Hw; subst.
  constructor; [apply Forall2_length in Hpw; congruence|apply IH; assumption].
Qed.
(* parameter facts used below *)
Lemma verify_params : 0 <= p_tau P <= 64 /\ 0 < p_gamma1 P <= 524288 /\ (4 <= p_l P <= 7)%nat /\ (4 <= p_k P <= 8)%nat
  /\ valid_gamma2 (p_gamma2 P).
Proof. destruct HP as [<-|[<-|[<-|[]]]]; unfold valid_gamma2, G44, G65; cbn; repeat split; auto; lia. Qed.

(* deserialisation of a public key always succeeds and yields the struct FIPS 204 Verify needs *)
Theorem expand_public_ok pkb : BitPackProofs.bytes_ok pkb -> zlen pkb = p_pk_len P ->
  exists pk, pk_try_from_bytes H P pkb = Ok pk /\ pk_rho pk = fst (pkDecode (p_k P) pkb) /\ pk_tr pk = h_shake256 H pkb 64
             /\ Forall2 (Forall2 t1d_rel) (pk_t1_d2_hat_mont pk) (vNTT (snd (pkDecode (p_k P) pkb)))
             /\ Forall (fun p => length p = 256%nat) (pk_t1_d2_hat_mont pk).
Proof.
  intros Hb Hlen. unfold pk_try_from_bytes, expand_public. rewrite (pk_decode_spec P pkb HP Hb Hlen). cbn [bind].
  destruct (pkDecode_shape pkb Hb Hlen) as (_ & _ & Ht1). destruct (pkDecode (p_k P) pkb) as [rho t1]. cbn [fst snd] in *.
  destruct (t1_precompute_ok t1 Ht1) as (r & Er & Rr). rewrite Er. cbn [bind].
  eexists. split; [reflexivity|]. cbn [pk_rho pk_tr pk_t1_d2_hat_mont]. repeat split; try assumption.
  (* lengths follow from the relation with vNTT t1, whose rows have 256 entries *)
  apply (rows_len t1d_rel r (vNTT t1) Rr). unfold vNTT. apply Forall_forall. intros w Hw.
  apply in_map_iff in Hw as (p & <- & Hp). rewrite Forall_forall in Ht1. apply NTT_length. apply (Ht1 p Hp).
Qed.

Lemma concat_nonempty (z : list (list Z)) : (1 <= length z)%nat -> Forall (fun p => length p = 256%nat) z -> concat z <> [].
Proof.
  intros Hl Hz. destruct z as [|p z]; [cbn in Hl; lia|]. inversion Hz; subst. destruct p; [discriminate|]. cbn. discriminate.
Qed.

Theorem verify_core_refines pkb sigma pk :
  BitPackProofs.bytes_ok pkb -> zlen pkb = p_pk_len P -> BitPackProofs.bytes_ok sigma -> zlen sigma = p_sig_len P ->
  pk_try_from_bytes H P pkb = Ok pk ->
  verify_core H false P pk sigma = res_fuel (spec_core pkb sigma).
Proof.
  intros Hbp Hlp Hbs Hls Epk.
  destruct (expand_public_ok pkb Hbp Hlp) as (pk' & Epk' & Erho & Etr & Rt1 & Lt1). rewrite Epk in Epk'. injection Epk' as <-.
  destruct verify_params as (Htau & Hg1 & Hlr & Hkr & Hg2).
  pose proof (pkDecode_shape pkb Hbp Hlp) as (Hrl & Ht1l & Ht1s).
  pose proof (sigDecode_shape sigma Hbs Hls) as Hsig.
  unfold verify_core, spec_core. rewrite (sig_decode_spec P sigma HP Hbs Hls).
  destruct (pkDecode (p_k P) pkb) as [rho t1] eqn:Epd. cbn [fst snd] in *.
  destruct (sigDecode P sigma) as [[c_tilde z] [h|]]; cbn [sig_decode_result]; [|reflexivity].
  destruct Hsig as (Hzl & Hzs & Hhs & Hhl).
  (* norms *)
  assert (Hzb : Forall (bounded (PR32_BOUND - 1)) z).
  { eapply Forall_impl; [|exact Hzs]. intros p [_ Hb]. eapply bounded_mono; [|exact Hb]. unfold PR32_BOUND. lia. }
  assert (Hzn : concat z <> []) by (apply concat_nonempty; [lia|eapply Forall_impl; [|exact Hzs]; intros p Hp; apply Hp]).
  rewrite (infinity_norm_spec z Hzb Hzn). cbn [bind].
  assert (Hnle : infnorm z <= p_gamma1 P).
  { apply infnorm_le; [lia|]. eapply Forall_impl; [|exact Hzs]. intros p Hp. apply Hp. }
  replace (infnorm z <=? p_gamma1 P) with true by (symmetry; apply Z.leb_le; exact Hnle). cbn [guard bind].
  (* samplers *)
  rewrite (sample_in_ball_spec H HL (p_tau P) c_tilde Htau).
  rewrite Erho. rewrite (expand_a_spec H HL P rho HP Hrl).
  destruct (SampleInBall H (p_tau P) c_tilde) as [c|] eqn:Ec; cbn [res_fuel bind]; [|destruct (ExpandA H P rho); reflexivity].
  destruct (ExpandA H P rho) as [A_hat|] eqn:EA; cbn [res_fuel bind]; [|reflexivity].
  destruct (SampleInBall_shape H (p_tau P) c_tilde c Ec) as [Hcl Hcs].
  destruct (ExpandA_shape H HL P rho A_hat EA) as [HAl HAs].
  (* transforms *)
  assert (Hzin : Forall (poly256 NTT_IN) z).
  { eapply Forall_impl; [|exact Hzs]. intros p [Hl Hb]. split; [|exact Hl]. eapply bounded_mono; [|exact Hb]. unfold NTT_IN. lia. }
  destruct (ntt_vec_ok z Hzin) as (zh & Ezh & Czh & Bzh). rewrite Ezh. cbn [bind].
  assert (Hzhl : length zh = p_l P) by (apply Forall2_length in Czh; unfold vNTT in Czh; rewrite map_length in Czh; lia).
  destruct (mat_vec_mul_ok A_hat zh) as (az & Eaz & Baz & Caz & Laz).
  { eapply Forall_impl; [|exact HAs]. intros row (R1 & R2 & R3). split; [exact R1|split; [lia|exact R3]]. }
  { eapply Forall_impl; [|exact Bzh]. intros p [Hb Hl]. split; [|exact Hl]. eapply bounded_mono; [|exact Hb]. unfold NTT_OUT. lia. }
  { lia. }
  rewrite Eaz. cbn [bind].
  destruct (ntt_poly_callsite c Hcl) as (ch & Ech & Cch & Bch & Lch).
  { eapply Forall_impl; [|exact Hcs]. cbn beta. intros x Hx. unfold NTT_IN. lia. }
  rewrite Ech. cbn [bind].
  assert (Hazl : length az = p_k P).
  { apply Forall2_length in Caz. unfold MatrixVectorNTT in Caz. rewrite map_length in Caz. lia. }
  destruct (diff_ok az ch (pk_t1_d2_hat_mont pk) (MatrixVectorNTT A_hat zh) (NTT c) (vNTT t1)) as (diff & Ed & Bd & Cd); try assumption.
  { apply Forall2_length in Rt1. unfold vNTT in Rt1. rewrite map_length in Rt1. lia. }
  rewrite Ed. cbn [bind].
  rewrite (inv_ntt_vec_ok diff Bd). cbn [bind].
  (* the reconstructed commitment *)
  set (t1d := map (map (fun x => x * 2 ^ d)) t1).
  assert (Hw : vinvNTT diff = vinvNTT (vsub (MatrixVectorNTT A_hat (vNTT z)) (ScalarVectorNTT (NTT c) (vNTT t1d)))).
  { apply vinvNTT_cong. eapply Forall2_trans; [intros a b c0 Hab Hbc; eapply Forall2_congQ_trans; eassumption|exact Cd|].
    unfold vsub. apply map2_Forall2 with (RA := Forall2 congQ) (RB := Forall2 congQ).
    - intros a a' b b' Ha Hb. apply psub_cong; assumption.
    - apply MatrixVectorNTT_cong. exact Czh.
    - unfold ScalarVectorNTT, vNTT, t1d. rewrite !map_map.
      clear. induction t1 as [|p t1 IH]; cbn [map]; constructor; [|exact IH].
      unfold pmul. apply map2_Forall2 with (RA := congQ) (RB := congQ).
      + intros a a' b b' Ha Hb. rewrite q_eq. eapply congQ_trans; [apply congQ_mod|]. eapply congQ_trans; [|apply congQ_sym, congQ_mod]. apply congQ_mul; assumption.
      + apply Forall2_refl. intros; reflexivity.
      + apply Forall2_congQ_sym. change (2 ^ d) with 8192. apply NTT_scale. }
  rewrite Hw. set (w' := vinvNTT (vsub (MatrixVectorNTT A_hat (vNTT z)) (ScalarVectorNTT (NTT c) (vNTT t1d)))).
  assert (Hw'b : Forall (fun p => bounded (PR32_BOUND - 1) p) w').
  { unfold w', vinvNTT. apply Forall_forall. intros p Hp. apply in_map_iff in Hp as (x & <- & _).
    eapply Forall_impl; [|apply invNTT_range]. cbn beta. intros v Hv. unfold PR32_BOUND, Q in *. lia. }
  rewrite (use_hint_vec (p_gamma2 P) h w' Hg2 Hhs Hw'b). cbn [bind].
  (* encoding of w1' *)
  set (w1' := map2 (map2 (UseHint (p_gamma2 P))) h w').
  assert (Hw'l : length w' = p_k P).
  { unfold w', vinvNTT, vsub. rewrite map_length, map2_length. unfold MatrixVectorNTT, ScalarVectorNTT, vNTT, t1d. rewrite !map_length. lia. }
  assert (Hw'256 : Forall (fun p => length p = 256%nat) w').
  { unfold w'. rewrite <- Hw. unfold vinvNTT. apply Forall_forall. intros p Hp. apply in_map_iff in Hp as (x & <- & Hx).
    apply invNTT_len. rewrite Forall_forall in Bd. apply (Bd x Hx). }
  clearbody w'.
  assert (Hw1 : w1_encode P w1' (p_w1_len P) = Ok (w1Encode P w1')).
  { apply w1_encode_spec; [exact HP|unfold w1'; rewrite map2_length; lia|].
    unfold w1'. clear - Hhs Hw'256 Hg2. revert w' Hw'256. induction Hhs as [|hp h [Hhl _] Hhs IH]; intros w' Hw'; [cbn; constructor|].
    destruct w' as [|wp w']; [cbn; constructor|]. inversion Hw'; subst. cbn [map2]. constructor; [|apply IH; assumption].
    split; [rewrite map2_length; lia|]. apply in_range_forall. apply Forall_forall. intros x Hx.
    assert (Hex : exists hh r, x = UseHint (p_gamma2 P) hh r).
    { clear - Hx. revert wp Hx. induction hp as [|a hp IHp]; intros [|b wp] Hx; cbn in Hx; try contradiction.
      destruct Hx as [<-|Hx]; [eauto|eapply IHp; eassumption]. }
    destruct Hex as (hh & r & ->). pose proof (UseHint_range (p_gamma2 P) hh r Hg2) as Hr. unfold q in Hr. lia. }
  rewrite Hw1. cbn [bind]. reflexivity.
Qed.

(* ---------- from verify_core to the three entry paths ---------- *)
Definition Mprime (md : mode) (m ctx : bytes) : bytes :=
  match md with
  | Nist => m
  | Pure => M_pure m ctx
  | Prehash oid phm => IntegerToBytes 1 1 ++ IntegerToBytes (zlen ctx) 1 ++ ctx ++ oid ++ phm
  end.
Lemma mu_of_Mprime tr md m ctx : mu_of H tr md m ctx = h_shake256 H (tr ++ Mprime md m ctx) 64.
Proof. destruct md; reflexivity. Qed.

Theorem verify_internal_refines pkb sigma pk m ctx oid phm nist :
  BitPackProofs.bytes_ok pkb -> zlen pkb = p_pk_len P -> BitPackProofs.bytes_ok sigma -> zlen sigma = p_sig_len P ->
  pk_try_from_bytes H P pkb = Ok pk ->
  verify_internal H false P pk m sigma ctx oid phm nist
    = res_fuel (Verify_internal H P pkb (Mprime (mode_of nist oid phm) m ctx) sigma).
Proof.
  intros Hbp Hlp Hbs Hls Epk. unfold verify_internal.
  rewrite (verify_core_refines pkb sigma pk Hbp Hlp Hbs Hls Epk). rewrite Verify_internal_core.
  destruct (expand_public_ok pkb Hbp Hlp) as (pk' & Epk' & _ & Etr & _). rewrite Epk in Epk'. injection Epk' as <-.
  destruct (spec_core pkb sigma) as [[[[c w] nok]|]|]; cbn [res_fuel bind]; try reflexivity.
  rewrite mu_of_Mprime, Etr. reflexivity.
Qed.

Definition ph_to_spec (p : Ph) : PH :=
  match p with SHA256 => PH_SHA256 | SHA512 => PH_SHA512 | SHAKE128 => PH_SHAKE128 end.
Lemma prehash_table M p : hash_message H M p = (OID (ph_to_spec p), PHM H (ph_to_spec p) M).
Proof.
  unfold hash_message. destruct p; cbn [ph_oid ph_fn ph_len ph_written ph_to_spec OID PHM]; f_equal; unfold ztake.
  - rewrite firstn_all2 with (n := Z.to_nat 32) (l := h_sha256 H M) by (rewrite (sha256_len H HL); reflexivity).
    rewrite firstn_app. rewrite (sha256_len H HL). change (Z.to_nat 32 - 32)%nat with 0%nat. cbn [firstn].
    rewrite app_nil_r. apply firstn_all2. rewrite (sha256_len H HL). reflexivity.
  - rewrite firstn_all2 with (n := Z.to_nat 64) (l := h_sha512 H M) by (rewrite (sha512_len H HL); reflexivity).
    rewrite firstn_app. rewrite (sha512_len H HL). change (Z.to_nat 64 - 64)%nat with 0%nat. cbn [firstn].
    rewrite app_nil_r. apply firstn_all2. rewrite (sha512_len H HL). reflexivity.
  - rewrite firstn_app. rewrite (shake128_len H HL). change (Z.to_nat 32 - Z.to_nat 32)%nat with 0%nat. cbn [firstn].
    rewrite app_nil_r. apply firstn_all2. rewrite (shake128_len H HL). reflexivity.
Qed.

(* ML-DSA.Verify (Algorithm 3) *)
Theorem verify_refines pkb sigma pk M ctx :
  BitPackProofs.bytes_ok pkb -> zlen pkb = p_pk_len P -> BitPackProofs.bytes_ok sigma -> zlen sigma = p_sig_len P ->
  pk_try_from_bytes H P pkb = Ok pk ->
  Api.verify H P pk M sigma ctx = res_fuel (SpecMLDSA.Verify H P pkb M sigma ctx).
Proof.
  intros Hbp Hlp Hbs Hls Epk. unfold Api.verify, SpecMLDSA.Verify. change ctx_max_verify with 255.
  destruct (255 <? zlen ctx); [reflexivity|].
  rewrite (verify_internal_refines pkb sigma pk M ctx [] [] false Hbp Hlp Hbs Hls Epk). reflexivity.
Qed.

(* HashML-DSA.Verify (Algorithm 5) *)
Theorem hash_verify_refines pkb sigma pk M ctx ph :
  BitPackProofs.bytes_ok pkb -> zlen pkb = p_pk_len P -> BitPackProofs.bytes_ok sigma -> zlen sigma = p_sig_len P ->
  pk_try_from_bytes H P pkb = Ok pk ->
  Api.hash_verify H P pk M sigma ctx ph = res_fuel (SpecMLDSA.HashVerify H P pkb M sigma ctx (ph_to_spec ph)).
Proof.
  intros Hbp Hlp Hbs Hls Epk. unfold Api.hash_verify, SpecMLDSA.HashVerify. change ctx_max_hash_verify with 255.
  destruct (255 <? zlen ctx); [reflexivity|]. rewrite prehash_table.
  rewrite (verify_internal_refines pkb sigma pk M ctx _ _ false Hbp Hlp Hbs Hls Epk).
  cbn [mode_of]. destruct (OID (ph_to_spec ph)) as [|o oid] eqn:Eo; [destruct ph; discriminate|].
  cbn [Mprime]. unfold M_hash. rewrite Eo. reflexivity.
Qed.

(* ML-DSA.Verify_internal (Algorithm 8) through the deprecated internal entry point *)
Theorem internal_verify_refines pkb sigma pk M ctx :
  BitPackProofs.bytes_ok pkb -> zlen pkb = p_pk_len P -> BitPackProofs.bytes_ok sigma -> zlen sigma = p_sig_len P ->
  pk_try_from_bytes H P pkb = Ok pk -> zlen ctx <= 255 ->
  Api.internal_verify H P pk M sigma ctx = res_fuel (SpecMLDSA.Verify_internal H P pkb M sigma).
Proof.
  intros Hbp Hlp Hbs Hls Epk Hc. unfold Api.internal_verify. change ctx_max_internal_verify with 255.
  replace (255 <? zlen ctx) with false by (symmetry; apply Z.ltb_ge; exact Hc).
  rewrite (verify_internal_refines pkb sigma pk M ctx [] [] true Hbp Hlp Hbs Hls Epk). reflexivity.
Qed.
End V.
