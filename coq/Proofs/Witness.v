(* Kernel-checked witness that the hypotheses of the main theorems are satisfiable and that the model
   actually produces Ok results: for the executable hash models, ML-DSA-44, a fixed seed, message, context
   and rnd, key generation returns keys, signing returns a signature, and verification returns true -
   evaluated by vm_compute inside Coq (about a thousand Keccak permutations). *)
From Coq Require Import ZArith List Bool.
Import ListNotations.
Require Import F204.Base.Util F204.Base.Mach F204.Gen.Params F204.Gen.Oids F204.Hash.HashIface F204.Impl.MlDsa F204.Impl.Api.
Open Scope Z_scope.

Definition w_xi : bytes := map Z.of_nat (seq 0 32).
Definition w_rnd : bytes := map (fun i => Z.of_nat i + 100) (seq 0 32).
Definition w_msg : bytes := [77; 76; 45; 68; 83; 65].
Definition w_ctx : bytes := [1; 2; 3].

Definition run_witness (P : Params) : bool :=
  match keygen_from_seed real_hashes P w_xi with
  | Ok (pk, sk) =>
      match try_sign_with_rng real_hashes 50 P sk [Fill w_rnd] w_msg w_ctx with
      | (Ok sig, []) =>
          match verify real_hashes P pk w_msg sig w_ctx with
          | Ok true =>
              match try_hash_sign_with_rng real_hashes 50 P sk [Fill w_rnd] w_msg w_ctx SHA256 with
              | (Ok sig2, []) => match hash_verify real_hashes P pk w_msg sig2 w_ctx SHA256 with Ok true => true | _ => false end
              | _ => false
              end
          | _ => false
          end
      | _ => false
      end
  | _ => false
  end.


Time Example witness_44 : run_witness P44 = true.
Proof. vm_compute. reflexivity. Qed.
