(* C01 - honest signatures always verify
   FULL STATEMENT: see DESIGN.md section 7 (S.sign_verify + transfer to Impl).  Not yet proved as a theorem about the composed
   model; until then the property is decided by the differential streams of tools/streams.py
   (real code against the extracted FIPS 204 transcription / the property's own oracle), and the
   lemmas below are the part that is kernel-checked. *)
Require Import F204.Base.Util F204.Base.Mach F204.Gen.Params F204.Spec.SpecConv F204.Spec.SpecRound F204.Proofs.KernelLemmas.
Open Scope Z_scope.
(* ingredient (iii) of the completeness argument, FIPS 204 side: a hint bit set to 0 leaves the
   high bits unchanged, a hint bit set to 1 always moves them (so UseHint can undo MakeHint) *)
Theorem C01_usehint_zero_partial : forall g r, UseHint g 0 r = HighBits g r.
Proof. intros. unfold UseHint, HighBits. destruct (Decompose g r). reflexivity. Qed.
Theorem C01_usehint_one_moves_partial : forall g r, g = 95232 \/ g = 261888 -> UseHint g 1 r <> UseHint g 0 r.
Proof. exact UseHint_flip. Qed.
Print Assumptions C01_usehint_zero_partial.
Print Assumptions C01_usehint_one_moves_partial.
