(* C01 - honest signatures always verify (all modes, sets, key provenances).

   FULL STATEMENT, proved below for every hash family with the output-length laws, each parameter set,
   EVERY key-generation seed, message, context (at most 255 bytes; longer ones make signing return
   CtxTooLong), 32-byte rnd and mode (pure ML-DSA; HashML-DSA with SHA-256, SHA-512, SHAKE128; the
   internal interface): whenever the model of signing returns Ok sig, the model of verification
   returns Ok true on (pk, M, sig, ctx) - for the keys straight from key generation
   (C01_sign_then_verify, C01_hash_sign_then_verify, C01_internal_sign_then_verify), and for every
   other provenance the property names, because those keys ARE the generated structs
   (C01_provenances: a serialise/deserialise round trip of either key returns the same struct, and the
   public key derived from the private key is the generated one).
   The proof is the ML-DSA correctness argument, carried out on the transcription of FIPS 204
   (Proofs/SpecCorrect.v: NTT/invNTT are additive, A z - c t1 2^d = w - c s2 + c t0 in the NTT domain,
   ||c s2|| <= beta for the negacyclic product with a weight-tau challenge, UseHint(MakeHint) lemma,
   HighBits stability, canonical signature encoding), and transported to the model of the crate through
   the refinement theorems of C02/C03/C04 (Proofs/Completeness.v).
   Signing returning OutOfFuel (loop or squeeze budget of the model exhausted) is the only other outcome;
   the budget hypothesis (fuel + 1) * l <= 65535 is the u16 kappa of the crate (see C03). *)
Require Import List ZArith. Import ListNotations.
Require Import F204.Base.Util F204.Base.Mach F204.Gen.Params F204.Gen.Oids F204.Hash.HashIface F204.Impl.Encodings F204.Impl.MlDsa F204.Impl.Api
  F204.Spec.SpecConv F204.Spec.SpecRound F204.Proofs.KernelLemmas F204.Proofs.DeriveRefine F204.Proofs.Completeness F204.Proofs.Witness.
Require Import F204.Proofs.RealHashes.
Open Scope Z_scope.

Theorem C01_sign_then_verify : forall H, HashLaws H -> forall P, In P all_params -> forall fuel, (Z.of_nat fuel + 1) * lz P <= 65535 ->
  forall xi pk sk rnd g M ctx sig g', keygen_from_seed H P xi = Ok (pk, sk) -> zlen rnd = 32 ->
  try_sign_with_rng H fuel P sk (Fill rnd :: g) M ctx = (Ok sig, g') -> verify H P pk M sig ctx = Ok true.
Proof. exact sign_then_verify. Qed.

Theorem C01_hash_sign_then_verify : forall H, HashLaws H -> forall P, In P all_params -> forall fuel, (Z.of_nat fuel + 1) * lz P <= 65535 ->
  forall xi pk sk rnd g M ctx ph sig g', keygen_from_seed H P xi = Ok (pk, sk) -> zlen rnd = 32 ->
  try_hash_sign_with_rng H fuel P sk (Fill rnd :: g) M ctx ph = (Ok sig, g') -> hash_verify H P pk M sig ctx ph = Ok true.
Proof. exact hash_sign_then_verify. Qed.

Theorem C01_internal_sign_then_verify : forall H, HashLaws H -> forall P, In P all_params -> forall fuel, (Z.of_nat fuel + 1) * lz P <= 65535 ->
  forall xi pk sk rnd M ctx sig, keygen_from_seed H P xi = Ok (pk, sk) -> zlen ctx <= 255 ->
  internal_sign H fuel P sk M ctx rnd = Ok sig -> internal_verify H P pk M sig ctx = Ok true.
Proof. exact internal_sign_then_verify. Qed.

(* key provenances: round-tripped and derived keys are the generated structs themselves *)
Theorem C01_provenances : forall H, HashLaws H -> forall P, In P all_params -> forall xi pk sk,
  keygen_from_seed H P xi = Ok (pk, sk) ->
  (forall pkb pk', pk_into_bytes P pk = Ok pkb -> pk_try_from_bytes H P pkb = Ok pk' -> pk' = pk) /\
  (forall skb sk', sk_into_bytes P sk = Ok skb -> sk_try_from_bytes P skb = Ok sk' -> sk' = sk) /\
  get_public_key H P sk = Ok pk.
Proof.
  intros H HL P HP xi pk sk E.
  destruct (generated_roundtrip H HL P HP xi pk sk E) as (pkb0 & skb0 & _ & _ & _ & _ & E1 & E2 & E3 & E4).
  split; [|split].
  - intros pkb pk' Ei Et. rewrite E1 in Ei. injection Ei as <-. rewrite E2 in Et. injection Et as <-. reflexivity.
  - intros skb sk' Ei Et. rewrite E3 in Ei. injection Ei as <-. rewrite E4 in Et. injection Et as <-. reflexivity.
  - exact (derive_generated H HL P HP xi pk sk E).
Qed.

(* ingredient lemmas kept from the first round *)
Theorem C01_usehint_zero : forall g r, UseHint g 0 r = HighBits g r.
Proof. intros. unfold UseHint, HighBits. destruct (Decompose g r). reflexivity. Qed.
Theorem C01_usehint_one_moves : forall g r, g = 95232 \/ g = 261888 -> UseHint g 1 r <> UseHint g 0 r.
Proof. exact UseHint_flip. Qed.

(* non-vacuity of the remaining hypotheses: for the executable hash models, ML-DSA-44, a fixed seed, message,
   context and rnd, the model's key generation returns Ok, signing returns Ok sig and verification returns
   Ok true (pure and HashML-DSA/SHA-256) - evaluated by vm_compute inside Coq (Proofs/Witness.v) *)
Example C01_hypotheses_satisfiable : Witness.run_witness P44 = true.
Proof. exact Witness.witness_44. Qed.
(* non-vacuity of the hash hypothesis (see Proofs/RealHashes.v) *)
Definition C01_for_the_executed_model := C01_sign_then_verify real_hashes real_hashes_laws.

Print Assumptions C01_hypotheses_satisfiable.
Print Assumptions C01_sign_then_verify.
Print Assumptions C01_hash_sign_then_verify.
Print Assumptions C01_internal_sign_then_verify.
Print Assumptions C01_provenances.
Print Assumptions C01_usehint_zero.
Print Assumptions C01_usehint_one_moves.
(* T2: the XOF plumbing and the samplers of hashing.rs have the structure the model mirrors *)
Require F204.Proofs.SourcePins.
Check F204.Proofs.SourcePins.hashing_skeleton_pinned.
