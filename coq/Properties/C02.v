(* C02 - verification accepts exactly what FIPS 204 Verify accepts.

   The three theorems below are the FULL statement: for every hash family satisfying the length laws,
   every parameter set, every public-key byte string of PK_LEN bytes, every signature byte string of
   SIG_LEN bytes, every message, every context (any length) and every pre-hash function, deserialising
   the key succeeds and the model of the crate's Verifier::verify / hash_verify / _internal_verify
   returns exactly what the transcription of FIPS 204 Algorithm 3 / 5 / 8 returns (Spec/SpecMLDSA.v).
   `res_fuel` maps the transcription's `None` (the finite squeeze buffer given to a rejection sampler
   ran out; the real XOF is unbounded) to the model's OutOfFuel; in particular the model never returns
   Panic or Err on this path (used for C13), so checked and release builds agree.
   The four rejection clauses of the property are corollaries about the transcription. *)
Require Import List ZArith Lia. Import ListNotations.
Require Import F204.Base.Util F204.Base.Mach F204.Gen.Params F204.Gen.Guards F204.Gen.Oids
  F204.Hash.HashIface F204.Impl.Hashing F204.Impl.MlDsa F204.Impl.Api F204.Spec.SpecConv F204.Spec.SpecSample F204.Spec.SpecMLDSA F204.Proofs.ApiGuards
  F204.Proofs.BitPackProofs F204.Proofs.SampleRefine F204.Proofs.VerifyRefine.
Require Import F204.Proofs.RealHashes.
Open Scope Z_scope.

Theorem C02_verify_is_FIPS204_Verify : forall H, HashLaws H -> forall P, In P all_params ->
  forall pkb sigma M ctx, bytes_ok pkb -> zlen pkb = p_pk_len P -> bytes_ok sigma -> zlen sigma = p_sig_len P ->
  exists pk, pk_try_from_bytes H P pkb = Ok pk /\
    verify H P pk M sigma ctx = res_fuel (Verify H P pkb M sigma ctx).
Proof.
  intros H HL P HP pkb sigma M ctx Hbp Hlp Hbs Hls.
  destruct (expand_public_ok H P HP pkb Hbp Hlp) as (pk & Epk & _). exists pk. split; [exact Epk|].
  exact (verify_refines H HL P HP pkb sigma pk M ctx Hbp Hlp Hbs Hls Epk).
Qed.

Theorem C02_hash_verify_is_FIPS204_HashVerify : forall H, HashLaws H -> forall P, In P all_params ->
  forall pkb sigma M ctx ph, bytes_ok pkb -> zlen pkb = p_pk_len P -> bytes_ok sigma -> zlen sigma = p_sig_len P ->
  exists pk, pk_try_from_bytes H P pkb = Ok pk /\
    hash_verify H P pk M sigma ctx ph = res_fuel (HashVerify H P pkb M sigma ctx (ph_to_spec ph)).
Proof.
  intros H HL P HP pkb sigma M ctx ph Hbp Hlp Hbs Hls.
  destruct (expand_public_ok H P HP pkb Hbp Hlp) as (pk & Epk & _). exists pk. split; [exact Epk|].
  exact (hash_verify_refines H HL P HP pkb sigma pk M ctx ph Hbp Hlp Hbs Hls Epk).
Qed.

Theorem C02_internal_verify_is_FIPS204_Verify_internal : forall H, HashLaws H -> forall P, In P all_params ->
  forall pkb sigma M ctx, bytes_ok pkb -> zlen pkb = p_pk_len P -> bytes_ok sigma -> zlen sigma = p_sig_len P ->
  exists pk, pk_try_from_bytes H P pkb = Ok pk /\
    internal_verify H P pk M sigma ctx =
      if 255 <? zlen ctx then Ok false else res_fuel (Verify_internal H P pkb M sigma).
Proof.
  intros H HL P HP pkb sigma M ctx Hbp Hlp Hbs Hls.
  destruct (expand_public_ok H P HP pkb Hbp Hlp) as (pk & Epk & _). exists pk. split; [exact Epk|].
  destruct (255 <? zlen ctx) eqn:E.
  - unfold internal_verify. change ctx_max_internal_verify with 255. now rewrite E.
  - apply Z.ltb_ge in E. exact (internal_verify_refines H HL P HP pkb sigma pk M ctx Hbp Hlp Hbs Hls Epk E).
Qed.

(* the pre-hash table used above is FIPS 204's, not the crate's: ph_to_spec is the identity on names *)
Check ph_to_spec : Ph -> PH.

(* the four "in particular" clauses, as consequences for the model *)
Theorem C02_rejections : forall H, HashLaws H -> forall P, In P all_params ->
  forall pkb sigma M ctx pk, bytes_ok pkb -> zlen pkb = p_pk_len P -> bytes_ok sigma -> zlen sigma = p_sig_len P ->
  pk_try_from_bytes H P pkb = Ok pk ->
  verify H P pk M sigma ctx = Ok true ->
  zlen ctx <= 255 /\
  exists c_tilde z h,
    sigDecode P sigma = (c_tilde, z, Some h) /\                       (* hint encoding well formed *)
    infnorm z < p_gamma1 P - p_beta P /\                              (* response norm strictly below the bound *)
    exists w1e, c_tilde = h_shake256 H (h_shake256 H (h_shake256 H pkb 64 ++ M_pure M ctx) 64 ++ w1e) (Z.to_nat (p_lambda_div4 P)).
Proof.
  intros H HL P HP pkb sigma M ctx pk Hbp Hlp Hbs Hls Epk Hv.
  rewrite (verify_refines H HL P HP pkb sigma pk M ctx Hbp Hlp Hbs Hls Epk) in Hv.
  unfold Verify in Hv. destruct (255 <? zlen ctx) eqn:Ec; [discriminate|]. apply Z.ltb_ge in Ec. split; [exact Ec|].
  rewrite (Verify_internal_core H P) in Hv. unfold spec_core in Hv.
  destruct (pkDecode (p_k P) pkb) as [rho t1]. destruct (sigDecode P sigma) as [[c_tilde z] [h|]]; [|discriminate].
  exists c_tilde, z, h. split; [reflexivity|].
  destruct (ExpandA H P rho); [|discriminate]. destruct (SampleInBall H (p_tau P) c_tilde); [|discriminate].
  cbn [res_fuel] in Hv. injection Hv as Hv. apply andb_prop in Hv as [Hn Hc]. apply Z.ltb_lt in Hn. split; [exact Hn|].
  eexists. apply list_eqb_eq in Hc. exact Hc.
Qed.

(* contexts longer than 255 bytes: model and FIPS 204 both say false, in every mode *)
Theorem C02_long_ctx_rejected : forall H P pk pkb M sig ctx ph sph,
  255 < zlen ctx ->
  verify H P pk M sig ctx = Ok false /\ hash_verify H P pk M sig ctx ph = Ok false /\
  Verify H P pkb M sig ctx = Some false /\ HashVerify H P pkb M sig ctx sph = Some false.
Proof.
  intros. repeat split.
  - now apply verify_ctx_too_long.
  - now apply hash_verify_ctx_too_long.
  - now apply spec_verify_ctx.
  - unfold HashVerify. assert (E : (255 <? zlen ctx) = true) by now apply Z.ltb_lt. now rewrite E.
Qed.

(* non-vacuity of the hash hypothesis: the executable Keccak/SHA-2 models that the correspondence harness
   runs (HashIface.real_hashes) satisfy HashLaws, so the theorem applies to the executed model *)
Definition C02_for_the_executed_model := C02_verify_is_FIPS204_Verify real_hashes real_hashes_laws.

Print Assumptions C02_verify_is_FIPS204_Verify.
Print Assumptions C02_hash_verify_is_FIPS204_HashVerify.
Print Assumptions C02_internal_verify_is_FIPS204_Verify_internal.
Print Assumptions C02_rejections.
Print Assumptions C02_long_ctx_rejected.
(* T6: no conditional compilation inside the algorithm files (the hooks build runs the code users run) *)
Require F204.Proofs.SourcePins.
Check F204.Proofs.SourcePins.algorithm_files_have_no_cfg_gates.
(* T2: the XOF plumbing and the samplers of hashing.rs have the structure the model mirrors *)
Require F204.Proofs.SourcePins.
Check F204.Proofs.SourcePins.hashing_skeleton_pinned.
