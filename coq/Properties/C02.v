(* C02 - verification accepts exactly what FIPS 204 Verify accepts.

   FULL STATEMENT (not yet proved as one theorem):
     forall H P pkb M ctx sigb, len pkb = PK_LEN P -> len sigb = SIG_LEN P ->
       exists pk, pk_try_from_bytes H P pkb = Ok pk /\
                  verify H P pk M sigb ctx = Ok b  <->  Spec.Verify H P pkb M sigb ctx = Some b
     (and the same for hash_verify / HashVerify, internal_verify / Verify_internal).
   What is proved here are the clauses that do not need the NTT/codec refinement layer; the
   remaining composition is tracked in DESIGN.md section 9 and is, until then, decided by the
   differential streams of tools/streams.py (real code vs the extracted Spec.Verify). *)
Require Import F204.Base.Util F204.Base.Mach F204.Gen.Params F204.Gen.Guards F204.Gen.Oids
  F204.Hash.HashIface F204.Impl.Hashing F204.Impl.MlDsa F204.Impl.Api F204.Spec.SpecMLDSA F204.Proofs.ApiGuards.
Open Scope Z_scope.

(* contexts longer than 255 bytes: model and FIPS 204 both say false, in every mode *)
Theorem C02_long_ctx_rejected_partial : forall H P pk pkb M sig ctx ph sph,
  255 < zlen ctx ->
  verify H P pk M sig ctx = Ok false /\ hash_verify H P pk M sig ctx ph = Ok false /\
  Verify H P pkb M sig ctx = Some false /\ HashVerify H P pkb M sig ctx sph = Some false.
Proof.
  intros. repeat split.
  - now apply verify_ctx_too_long.
  - now apply hash_verify_ctx_too_long.
  - now apply spec_verify_ctx.
  - unfold HashVerify. assert (E : (255 <? zlen ctx) = true) by now apply Z.ltb_lt. now rewrite E.
Qed.

Print Assumptions C02_long_ctx_rejected_partial.
