(* C03 - signatures are byte-identical to FIPS 204 Sign for the drawn rnd.

   FULL STATEMENT, proved below (C03_sign_is_FIPS204_Sign, C03_hash_sign_is_FIPS204_HashSign,
   C03_internal_sign_is_FIPS204_Sign_internal, C03_generated_key_signs_like_its_bytes) for every hash
   family with the output-length laws, each parameter set, every private-key byte string that
   deserialisation accepts and every generated key, every message, context, pre-hash function and
   32-byte rnd: the model of try_sign_with_rng / try_hash_sign_with_rng / _internal_sign (with
   the generator answering rnd) returns exactly what the transcription of FIPS 204 Algorithms 2, 4, 7
   returns on the key's byte string: the same signature bytes, CtxTooLong for contexts over 255 bytes
   (nothing drawn), and OutOfFuel exactly when the transcription runs out of the loop/squeeze fuel.
   No Panic: every checked i32/i64 operation and every debug_assert in ExpandMask, the NTT pipeline,
   HighBits/LowBits/MakeHint, the norm checks, center_mod, sig_encode and hint_bit_pack holds.
   Hypothesis on the model's loop budget: (fuel + 1) * l <= 65535 (the crate's kappa is a u16; the 9362nd
   consecutive rejection for l = 7 would overflow it - outside anything reachable, stated, not hidden).
   The remaining theorems say the entry points pass exactly the drawn bytes and the FIPS 204 pre-hash table. *)
Require Import List ZArith. Import ListNotations.
Require Import F204.Base.Util F204.Base.Mach F204.Gen.Params F204.Gen.Guards F204.Gen.Oids
  F204.Hash.HashIface F204.Impl.Hashing F204.Impl.Encodings F204.Impl.MlDsa F204.Impl.Api F204.Spec.SpecMLDSA
  F204.Proofs.BitPackProofs F204.Proofs.SampleRefine F204.Proofs.KeygenRefine F204.Proofs.DeriveRefine F204.Proofs.SignRefine.
Require Import F204.Proofs.RealHashes.
Open Scope Z_scope.

Theorem C03_sign_is_FIPS204_Sign : forall H, HashLaws H -> forall P, In P all_params -> forall fuel, (Z.of_nat fuel + 1) * lz P <= 65535 ->
  forall skb sk, bytes_ok skb -> zlen skb = p_sk_len P -> sk_try_from_bytes P skb = Ok sk ->
  forall rnd g M ctx, zlen rnd = 32 ->
  try_sign_with_rng H fuel P sk (Fill rnd :: g) M ctx
    = (res_sign (Sign H fuel P skb M ctx rnd), if 255 <? zlen ctx then Fill rnd :: g else g).
Proof. exact try_sign_refines. Qed.

Theorem C03_hash_sign_is_FIPS204_HashSign : forall H, HashLaws H -> forall P, In P all_params -> forall fuel, (Z.of_nat fuel + 1) * lz P <= 65535 ->
  forall skb sk, bytes_ok skb -> zlen skb = p_sk_len P -> sk_try_from_bytes P skb = Ok sk ->
  forall rnd g M ctx ph, zlen rnd = 32 ->
  try_hash_sign_with_rng H fuel P sk (Fill rnd :: g) M ctx ph
    = (res_sign (HashSign H fuel P skb M ctx (VerifyRefine.ph_to_spec ph) rnd), if 255 <? zlen ctx then Fill rnd :: g else g).
Proof. exact try_hash_sign_refines. Qed.

Theorem C03_internal_sign_is_FIPS204_Sign_internal : forall H, HashLaws H -> forall P, In P all_params -> forall fuel, (Z.of_nat fuel + 1) * lz P <= 65535 ->
  forall skb sk, bytes_ok skb -> zlen skb = p_sk_len P -> sk_try_from_bytes P skb = Ok sk ->
  forall rnd M ctx, zlen ctx <= 255 ->
  internal_sign H fuel P sk M ctx rnd = res_fuel (Sign_internal H fuel P skb M rnd).
Proof. exact internal_sign_refines. Qed.

(* a key returned by key generation is the struct its own serialisation deserialises to (C09), and that
   serialisation is FIPS 204's skEncode output (C04): so it signs exactly like FIPS 204 on that encoding *)
Theorem C03_generated_key_signs_like_its_bytes : forall H, HashLaws H -> forall P, In P all_params -> forall xi pk sk,
  keygen_from_seed H P xi = Ok (pk, sk) ->
  exists skb, sk_into_bytes P sk = Ok skb /\ bytes_ok skb /\ zlen skb = p_sk_len P /\ sk_try_from_bytes P skb = Ok sk /\
              exists pkb, KeyGen_internal H P xi = Some (pkb, skb).
Proof.
  intros H HL P HP xi pk sk E.
  destruct (generated_roundtrip H HL P HP xi pk sk E) as (pkb & skb & _ & _ & Bs & Ls & E1 & _ & E3 & E4).
  exists skb. repeat split; try assumption.
  unfold keygen_from_seed in E. destruct (KeyGen_internal H P xi) as [[pkb' skb']|] eqn:EK.
  - destruct (keygen_bytes H HL P HP xi pkb' skb' EK) as (pk' & sk' & _ & _ & _ & _ & _ & _ & _ & _ & Ek & _ & _ & _ & _ & Epk & Esk).
    rewrite E in Ek. injection Ek as <- <-. rewrite E1 in Epk. rewrite E3 in Esk. injection Epk as <-. injection Esk as <-. exists pkb. reflexivity.
  - rewrite (keygen_fuel H HL P HP xi EK) in E. discriminate.
Qed.

Theorem C03_sign_uses_exactly_rnd : forall H fuel P sk rnd g M ctx,
  zlen rnd = 32 -> zlen ctx <= 255 ->
  try_sign_with_rng H fuel P sk (Fill rnd :: g) M ctx = (sign_internal H fuel false P sk M ctx [] [] rnd false, g).
Proof.
  intros. unfold try_sign_with_rng, try_fill.
  change ctx_max_try_sign_with_rng with 255. change rnd_len_try_sign_with_rng with 32.
  replace (zlen ctx <=? 255) with true by (symmetry; now apply Z.leb_le). cbn [negb].
  rewrite H0. reflexivity.
Qed.

Theorem C03_hash_sign_uses_exactly_rnd : forall H fuel P sk rnd g M ctx ph,
  zlen rnd = 32 -> zlen ctx <= 255 ->
  try_hash_sign_with_rng H fuel P sk (Fill rnd :: g) M ctx ph =
    (sign_internal H fuel false P sk M ctx (fst (hash_message H M ph)) (snd (hash_message H M ph)) rnd false, g).
Proof.
  intros. unfold try_hash_sign_with_rng, try_fill.
  change ctx_max_try_hash_sign_with_rng with 255. change rnd_len_try_hash_sign_with_rng with 32.
  replace (zlen ctx <=? 255) with true by (symmetry; now apply Z.leb_le). cbn [negb].
  rewrite H0. cbn [Z.eqb]. destruct (hash_message H M ph). reflexivity.
Qed.

(* the pre-hash table generated from hashing.rs (T3) is FIPS 204's: same OIDs, same functions,
   same digest lengths, and the whole digest (nothing more) is used *)
Definition ph_to_spec := VerifyRefine.ph_to_spec.
Theorem C03_prehash_table : forall H (HL : HashLaws H) M p,
  hash_message H M p = (OID (ph_to_spec p), PHM H (ph_to_spec p) M).
Proof.
  intros H HL M p. unfold hash_message. destruct p; unfold ph_to_spec; cbn [ph_oid ph_fn ph_len ph_written VerifyRefine.ph_to_spec OID PHM];
    f_equal; unfold ztake.
  - rewrite firstn_all2 with (n := Z.to_nat 32) (l := h_sha256 H M) by (rewrite (sha256_len H HL); reflexivity).
    rewrite firstn_app. rewrite (sha256_len H HL). change (Z.to_nat 32 - 32)%nat with 0%nat. cbn [firstn].
    rewrite app_nil_r. apply firstn_all2. rewrite (sha256_len H HL). reflexivity.
  - rewrite firstn_all2 with (n := Z.to_nat 64) (l := h_sha512 H M) by (rewrite (sha512_len H HL); reflexivity).
    rewrite firstn_app. rewrite (sha512_len H HL). change (Z.to_nat 64 - 64)%nat with 0%nat. cbn [firstn].
    rewrite app_nil_r. apply firstn_all2. rewrite (sha512_len H HL). reflexivity.
  - rewrite firstn_app. rewrite (shake128_len H HL). change (Z.to_nat 32 - Z.to_nat 32)%nat with 0%nat. cbn [firstn].
    rewrite app_nil_r. apply firstn_all2. rewrite (shake128_len H HL). reflexivity.
Qed.

(* non-vacuity of the hash hypothesis (see Proofs/RealHashes.v) *)
Definition C03_for_the_executed_model := C03_sign_is_FIPS204_Sign real_hashes real_hashes_laws.

Print Assumptions C03_sign_is_FIPS204_Sign.
Print Assumptions C03_hash_sign_is_FIPS204_HashSign.
Print Assumptions C03_internal_sign_is_FIPS204_Sign_internal.
Print Assumptions C03_generated_key_signs_like_its_bytes.
Print Assumptions C03_sign_uses_exactly_rnd.
Print Assumptions C03_hash_sign_uses_exactly_rnd.
Print Assumptions C03_prehash_table.
(* T2: the XOF plumbing and the samplers of hashing.rs have the structure the model mirrors *)
Require F204.Proofs.SourcePins.
Check F204.Proofs.SourcePins.hashing_skeleton_pinned.
