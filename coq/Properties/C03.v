(* C03 - signatures are byte-identical to FIPS 204 Sign for the drawn rnd.

   FULL STATEMENT (not yet proved):
     sk_try_from_bytes P skb = Ok sk -> zlen ctx <= 255 ->
       try_sign_with_rng H fuel P sk (Fill rnd :: g) M ctx = (Ok sig, g) <-> Sign H fuel P skb M ctx rnd = SR_sig sig
     (same for the three pre-hash modes and the internal interface).
   Proved here: the signature is a function of (sk, M, ctx, mode, rnd) only - the entry points
   pass exactly the drawn 32 bytes, the caller's context and the generated OID/digest to
   sign_internal - and the pre-hash table read from hashing.rs equals FIPS 204's. *)
Require Import F204.Base.Util F204.Base.Mach F204.Gen.Params F204.Gen.Guards F204.Gen.Oids
  F204.Hash.HashIface F204.Impl.Hashing F204.Impl.MlDsa F204.Impl.Api F204.Spec.SpecMLDSA.
Open Scope Z_scope.

Theorem C03_sign_uses_exactly_rnd : forall H fuel P sk rnd g M ctx,
  zlen rnd = 32 -> zlen ctx <= 255 ->
  try_sign_with_rng H fuel P sk (Fill rnd :: g) M ctx = (sign_internal H fuel false P sk M ctx [] [] rnd false, g).
Proof.
  intros. unfold try_sign_with_rng, try_fill.
  change ctx_max_try_sign_with_rng with 255. change rnd_len_try_sign_with_rng with 32.
  replace (zlen ctx <=? 255) with true by (symmetry; now apply Z.leb_le). cbn [negb].
  rewrite H0. reflexivity.
Qed.

Theorem C03_hash_sign_uses_exactly_rnd : forall H fuel P sk rnd g M ctx ph,
  zlen rnd = 32 -> zlen ctx <= 255 ->
  try_hash_sign_with_rng H fuel P sk (Fill rnd :: g) M ctx ph =
    (sign_internal H fuel false P sk M ctx (fst (hash_message H M ph)) (snd (hash_message H M ph)) rnd false, g).
Proof.
  intros. unfold try_hash_sign_with_rng, try_fill.
  change ctx_max_try_hash_sign_with_rng with 255. change rnd_len_try_hash_sign_with_rng with 32.
  replace (zlen ctx <=? 255) with true by (symmetry; now apply Z.leb_le). cbn [negb].
  rewrite H0. cbn [Z.eqb]. destruct (hash_message H M ph). reflexivity.
Qed.

(* the pre-hash table generated from hashing.rs (T3) is FIPS 204's: same OIDs, same functions,
   same digest lengths, and the whole digest (nothing more) is used *)
Definition ph_to_spec (p : Ph) : PH :=
  match p with SHA256 => PH_SHA256 | SHA512 => PH_SHA512 | SHAKE128 => PH_SHAKE128 end.
Theorem C03_prehash_table : forall H (HL : HashLaws H) M p,
  hash_message H M p = (OID (ph_to_spec p), PHM H (ph_to_spec p) M).
Proof.
  intros H HL M p. unfold hash_message. destruct p; cbn [ph_oid ph_fn ph_len ph_written ph_to_spec OID PHM];
    f_equal; unfold ztake.
  - rewrite firstn_all2 with (n := Z.to_nat 32) (l := h_sha256 H M) by (rewrite (sha256_len H HL); reflexivity).
    rewrite firstn_app. rewrite (sha256_len H HL). change (Z.to_nat 32 - 32)%nat with 0%nat. cbn [firstn].
    rewrite app_nil_r. apply firstn_all2. rewrite (sha256_len H HL). reflexivity.
  - rewrite firstn_all2 with (n := Z.to_nat 64) (l := h_sha512 H M) by (rewrite (sha512_len H HL); reflexivity).
    rewrite firstn_app. rewrite (sha512_len H HL). change (Z.to_nat 64 - 64)%nat with 0%nat. cbn [firstn].
    rewrite app_nil_r. apply firstn_all2. rewrite (sha512_len H HL). reflexivity.
  - rewrite firstn_app. rewrite (shake128_len H HL). change (Z.to_nat 32 - Z.to_nat 32)%nat with 0%nat. cbn [firstn].
    rewrite app_nil_r. apply firstn_all2. rewrite (shake128_len H HL). reflexivity.
Qed.

Print Assumptions C03_sign_uses_exactly_rnd.
Print Assumptions C03_hash_sign_uses_exactly_rnd.
Print Assumptions C03_prehash_table.
