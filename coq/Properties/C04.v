(* C04 - key generation is exactly the FIPS 204 function of the 32-byte seed.

   FULL STATEMENT, proved below for every hash family with the output-length laws, every parameter
   set and EVERY seed byte string xi:
     - if the transcription of ML-DSA.KeyGen_internal (Algorithm 6, Spec/SpecMLDSA.v) returns
       (pkb, skb), the model of keygen_from_seed returns Ok (pk, sk) - no Panic, no Err - and
       pk.into_bytes() = pkb, sk.into_bytes() = skb (pkEncode / skEncode of Algorithms 22, 24);
     - the transcription returns None only when a rejection sampler exhausted the finite squeeze
       buffer the model gives it; the model then answers OutOfFuel (the real XOF is unbounded);
     - the RNG-driven entry point is the seeded one applied to the 32 bytes drawn, with exactly
       one request and nothing else.
   Hence the keys are a function of (parameter set, xi) alone. *)
Require Import List ZArith. Import ListNotations.
Require Import F204.Base.Util F204.Base.Mach F204.Gen.Params F204.Gen.Guards
  F204.Hash.HashIface F204.Impl.MlDsa F204.Impl.Api F204.Spec.SpecMLDSA F204.Proofs.KeygenRefine.
Require Import F204.Proofs.RealHashes.
Open Scope Z_scope.

Theorem C04_keygen_is_FIPS204 : forall H, HashLaws H -> forall P, In P all_params -> forall xi,
  match KeyGen_internal H P xi with
  | Some (pkb, skb) => exists pk sk, keygen_from_seed H P xi = Ok (pk, sk) /\
                                     pk_into_bytes P pk = Ok pkb /\ sk_into_bytes P sk = Ok skb
  | None => keygen_from_seed H P xi = OutOfFuel
  end.
Proof.
  intros H HL P HP xi. unfold keygen_from_seed. destruct (KeyGen_internal H P xi) as [[pkb skb]|] eqn:E.
  - destruct (keygen_bytes H HL P HP xi pkb skb E) as (pk & sk & rho & K & tr & s1 & s2 & t0 & t1 & _ & Ek & _ & _ & _ & _ & Epk & Esk).
    exists pk, sk. repeat split; assumption.
  - apply (keygen_fuel H HL P HP xi E).
Qed.

Theorem C04_keygen_rng_is_seeded : forall H P xi g,
  zlen xi = 32 ->
  try_keygen_with_rng H P (Fill xi :: g) = (keygen_from_seed H P xi, g).
Proof.
  intros H P xi g Hl. unfold try_keygen_with_rng, keygen_from_seed, key_gen, try_fill.
  change xi_len with 32. rewrite Hl. reflexivity.
Qed.

Theorem C04_keygen_rng_failure : forall H P g p,
  try_keygen_with_rng H P (Fail p :: g) = (Err RngFailed, g).
Proof. reflexivity. Qed.

(* non-vacuity of the hash hypothesis (see Proofs/RealHashes.v) *)
Definition C04_for_the_executed_model := C04_keygen_is_FIPS204 real_hashes real_hashes_laws.

Print Assumptions C04_keygen_is_FIPS204.
Print Assumptions C04_keygen_rng_is_seeded.
Print Assumptions C04_keygen_rng_failure.
(* T2: lib.rs overrides no provided trait method: try_keygen is the _with_rng variant applied to OsRng *)
Require F204.Proofs.SourcePins.
Check F204.Proofs.SourcePins.lib_impl_methods_pinned.
(* T2: the XOF plumbing and the samplers of hashing.rs have the structure the model mirrors *)
Require F204.Proofs.SourcePins.
Check F204.Proofs.SourcePins.hashing_skeleton_pinned.
