(* C04 - key generation is exactly the FIPS 204 function of the 32-byte seed.

   FULL STATEMENT (not yet proved):
     keygen_from_seed H P xi = Ok (pk, sk) ->
       pk_into_bytes P pk = Ok pkb /\ sk_into_bytes P sk = Ok skb /\ Some (pkb, skb) = KeyGen_internal H P xi.
   Proved here: the RNG-driven entry point is the seeded one applied to the 32 bytes drawn, with
   exactly one request and nothing else (no other source of variation in the model). *)
Require Import F204.Base.Util F204.Base.Mach F204.Gen.Params F204.Gen.Guards
  F204.Hash.HashIface F204.Impl.MlDsa F204.Impl.Api.
Open Scope Z_scope.

Theorem C04_keygen_rng_is_seeded : forall H P xi g,
  zlen xi = 32 ->
  try_keygen_with_rng H P (Fill xi :: g) = (keygen_from_seed H P xi, g).
Proof.
  intros H P xi g Hl. unfold try_keygen_with_rng, keygen_from_seed, key_gen, try_fill.
  change xi_len with 32. rewrite Hl. reflexivity.
Qed.

Theorem C04_keygen_rng_failure : forall H P g p,
  try_keygen_with_rng H P (Fail p :: g) = (Err RngFailed, g).
Proof. reflexivity. Qed.

Print Assumptions C04_keygen_rng_is_seeded.
Print Assumptions C04_keygen_rng_failure.
