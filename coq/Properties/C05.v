(* C05 - any single-bit change invalidates a signature (strong binding).
   Proved as reductions to explicit collisions (Proofs/Binding.v), for ANY change (not only one bit):
   - message or context changed (any mode): C05_message_context_binding;
   - public-key encoding changed: C05_public_key_binding (needs only that SHAKE256 output has the
     requested length);
   - a hint bit changed: the reconstructed commitment coefficient changes (C05_hint_bit_matters).
   For changes inside the c~ or z section of the signature no such reduction exists (acceptance
   would be a random-oracle fixed point / short-vector relation, not a collision); those positions,
   like all others, are decided by the exhaustive flip scan of tools/streams.py. *)
Require Import F204.Base.Util F204.Base.Mach F204.Gen.Params F204.Gen.Oids F204.Hash.HashIface
  F204.Impl.MlDsa F204.Impl.Api F204.Spec.SpecConv F204.Spec.SpecRound F204.Proofs.KernelLemmas F204.Proofs.Binding.
Open Scope Z_scope.

Theorem C05_message_context_binding : forall H P pk sig it M1 ctx1 M2 ctx2,
  api_verify H P pk it M1 sig ctx1 = Ok true -> api_verify H P pk it M2 sig ctx2 = Ok true ->
  (M1, ctx1) <> (M2, ctx2) -> shake256_collision H \/ prehash_collision H.
Proof.
  intros H P pk sig it M1 ctx1 M2 ctx2 V1 V2 Hne. eapply binding_interp; [exact V1|exact V2|].
  intros E. injection E as -> ->. now apply Hne.
Qed.

Theorem C05_public_key_binding : forall H, HashLaws H -> forall P pkb1 pkb2 pk1 pk2 it M sig ctx,
  pk_try_from_bytes H P pkb1 = Ok pk1 -> pk_try_from_bytes H P pkb2 = Ok pk2 -> pkb1 <> pkb2 ->
  api_verify H P pk1 it M sig ctx = Ok true -> api_verify H P pk2 it M sig ctx = Ok true ->
  shake256_collision H.
Proof. exact binding_pk. Qed.

Theorem C05_hint_bit_matters : forall g r, g = 95232 \/ g = 261888 -> UseHint g 1 r <> UseHint g 0 r.
Proof. exact UseHint_flip. Qed.

Print Assumptions C05_message_context_binding.
Print Assumptions C05_public_key_binding.
Print Assumptions C05_hint_bit_matters.
(* T6: no conditional compilation inside the algorithm files (the hooks build runs the code users run) *)
Require F204.Proofs.SourcePins.
Check F204.Proofs.SourcePins.algorithm_files_have_no_cfg_gates.
