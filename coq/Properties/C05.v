(* C05 - any single-bit change invalidates a signature
   FULL STATEMENT: see DESIGN.md section 7 (binding reductions).  Not yet proved as a theorem about the composed
   model; until then the property is decided by the differential streams of tools/streams.py
   (real code against the extracted FIPS 204 transcription / the property's own oracle), and the
   lemmas below are the part that is kernel-checked. *)
Require Import F204.Base.Util F204.Base.Mach F204.Gen.Params F204.Spec.SpecConv F204.Spec.SpecRound F204.Proofs.KernelLemmas.
Open Scope Z_scope.
(* a changed hint bit always changes the reconstructed commitment coefficient *)
Theorem C05_hint_bit_matters_partial : forall g r, g = 95232 \/ g = 261888 -> UseHint g 1 r <> UseHint g 0 r.
Proof. exact UseHint_flip. Qed.
Print Assumptions C05_hint_bit_matters_partial.
