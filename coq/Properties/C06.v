(* C06 - signatures are bound to context, mode and pre-hash function.
   The guarantee is cryptographic; what is proved is the strongest true statement: a REDUCTION.
   If one (public key, signature) pair verifies under two different interpretations
   (message, context, mode / pre-hash function), then an explicit SHAKE256 collision or an explicit
   collision of the pre-hash function exists (Proofs/Binding.v, built on the formatting
   injectivity of Proofs/Format.v; domain bytes, length-byte expression and OID table are
   regenerated from the source by T2/T3 on every run).  H ranges over ALL hash functions. *)
Require Import F204.Base.Util F204.Base.Mach F204.Gen.Params F204.Gen.Guards F204.Gen.Oids F204.Hash.HashIface
  F204.Impl.Hashing F204.Impl.MlDsa F204.Impl.Api F204.Proofs.Format F204.Proofs.Binding.
Open Scope Z_scope.

Theorem C06_binding_reduction : forall H P pk sig it1 M1 ctx1 it2 M2 ctx2,
  api_verify H P pk it1 M1 sig ctx1 = Ok true -> api_verify H P pk it2 M2 sig ctx2 = Ok true ->
  (it1, M1, ctx1) <> (it2, M2, ctx2) ->
  shake256_collision H \/ prehash_collision H.
Proof. exact binding_interp. Qed.

(* the ingredients that are about this code's formatting *)
Theorem C06_fmt_injective : forall d d' ctx ctx' body body',
  zlen ctx <= 255 -> zlen ctx' <= 255 ->
  fmt d ctx body = fmt d' ctx' body' -> d = d' /\ ctx = ctx' /\ body = body'.
Proof. exact fmt_injective. Qed.
Theorem C06_domains_distinct : dom_pure <> dom_hash.
Proof. exact domains_distinct. Qed.
Theorem C06_hash_body_injective : forall p p' phm phm',
  ph_oid p ++ phm = ph_oid p' ++ phm' -> p = p' /\ phm = phm'.
Proof. exact hash_body_injective. Qed.
Theorem C06_no_other_split : forall d ctx M ctx' M',
  zlen ctx <= 255 -> zlen ctx' <= 255 -> (ctx, M) <> (ctx', M') -> fmt d ctx M <> fmt d ctx' M'.
Proof.
  intros d ctx M ctx' M' H1 H2 Hne E. apply fmt_injective in E; [|assumption|assumption].
  destruct E as (_ & -> & ->). now apply Hne.
Qed.
Example C06_nonvacuous : fmt 0 [1;2] [3] <> fmt 0 [1] [2;3] /\ [1;2] ++ [3] = [1] ++ [2;3].
Proof. split; [discriminate|reflexivity]. Qed.

Print Assumptions C06_binding_reduction.
Print Assumptions C06_fmt_injective.
Print Assumptions C06_domains_distinct.
Print Assumptions C06_hash_body_injective.
Print Assumptions C06_no_other_split.
