(* C06 - signatures are bound to context, mode and pre-hash function.
   FULL STATEMENT (reduction, not yet proved end-to-end): (M,ctx,mode) <> (M',ctx',mode') -> both
   verify under the same (pk, sig) -> an explicit SHAKE256 / pre-hash collision.
   Proved here: the formatted message M' is an injective function of (domain byte, context,
   body) on all accepted contexts, the two domain bytes differ, and OID || digest determines the
   pre-hash function and the digest - the part of the argument that is about THIS code's
   formatting (domain bytes, length byte expression and OID table are regenerated from the
   source by T2/T3). *)
Require Import F204.Base.Util F204.Base.Mach F204.Gen.Params F204.Gen.Guards F204.Gen.Oids F204.Proofs.Format.
Open Scope Z_scope.

Theorem C06_fmt_injective : forall d d' ctx ctx' body body',
  zlen ctx <= 255 -> zlen ctx' <= 255 ->
  fmt d ctx body = fmt d' ctx' body' -> d = d' /\ ctx = ctx' /\ body = body'.
Proof. exact fmt_injective. Qed.
Theorem C06_domains_distinct : dom_pure <> dom_hash.
Proof. exact domains_distinct. Qed.
Theorem C06_hash_body_injective : forall p p' phm phm',
  ph_oid p ++ phm = ph_oid p' ++ phm' -> p = p' /\ phm = phm'.
Proof. exact hash_body_injective. Qed.
(* consequence: no split of ctx || M other than the signed one yields the same M' *)
Theorem C06_no_other_split : forall d ctx M ctx' M',
  zlen ctx <= 255 -> zlen ctx' <= 255 -> ctx ++ M = ctx' ++ M' -> (ctx, M) <> (ctx', M') ->
  fmt d ctx M <> fmt d ctx' M'.
Proof.
  intros d ctx M ctx' M' H1 H2 _ Hne E. apply fmt_injective in E; [|assumption|assumption].
  destruct E as (_ & -> & ->). now apply Hne.
Qed.
Example C06_nonvacuous : fmt 0 [1;2] [3] <> fmt 0 [1] [2;3] /\ [1;2] ++ [3] = [1] ++ [2;3].
Proof. split; [discriminate|reflexivity]. Qed.

Print Assumptions C06_fmt_injective.
Print Assumptions C06_domains_distinct.
Print Assumptions C06_hash_body_injective.
Print Assumptions C06_no_other_split.
