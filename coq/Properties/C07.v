(* C07 - the 255-byte context limit is enforced without aliasing.
   Statements only; proofs are in Proofs/ApiGuards.v.  [H] ranges over all hash functions,
   [fuel] over all attempt budgets, [P] over the three generated parameter records, [g] over all
   RNG scripts, messages and contexts over all byte lists (any length). *)
Require Import F204.Base.Util F204.Base.Mach F204.Gen.Params F204.Gen.Guards F204.Gen.Oids
  F204.Hash.HashIface F204.Impl.Hashing F204.Impl.MlDsa F204.Impl.Api F204.Spec.SpecMLDSA F204.Proofs.ApiGuards.
Open Scope Z_scope.

(* signing: error, no signature, and the RNG is not even consulted *)
Theorem C07_sign_rejects_long_ctx : forall H fuel P sk g M ctx,
  255 < zlen ctx -> try_sign_with_rng H fuel P sk g M ctx = (Err CtxTooLong, g).
Proof. exact sign_ctx_too_long. Qed.
Theorem C07_hash_sign_rejects_long_ctx : forall H fuel P sk g M ctx ph,
  255 < zlen ctx -> try_hash_sign_with_rng H fuel P sk g M ctx ph = (Err CtxTooLong, g).
Proof. exact hash_sign_ctx_too_long. Qed.
(* every context of 0..255 bytes passes the guard and reaches sign_internal unchanged *)
Theorem C07_sign_accepts_short_ctx : forall H fuel P sk g M ctx,
  zlen ctx <= 255 ->
  try_sign_with_rng H fuel P sk g M ctx =
    match try_fill g 32 with
    | (None, g') => (Err RngFailed, g')
    | (Some rnd, g') => (sign_internal H fuel false P sk M ctx [] [] rnd false, g')
    end.
Proof. exact sign_ctx_accepted. Qed.
Theorem C07_hash_sign_accepts_short_ctx : forall H fuel P sk g M ctx ph,
  zlen ctx <= 255 ->
  try_hash_sign_with_rng H fuel P sk g M ctx ph =
    match try_fill g 32 with
    | (None, g') => (Err RngFailed, g')
    | (Some rnd, g') =>
        let '(oid, phm) := hash_message H M ph in
        (sign_internal H fuel false P sk M ctx oid phm rnd false, g')
    end.
Proof. exact hash_sign_ctx_accepted. Qed.
(* verification: false for every longer context, both modes; unchanged below *)
Theorem C07_verify_rejects_long_ctx : forall H P pk M sig ctx,
  255 < zlen ctx -> verify H P pk M sig ctx = Ok false.
Proof. exact verify_ctx_too_long. Qed.
Theorem C07_hash_verify_rejects_long_ctx : forall H P pk M sig ctx ph,
  255 < zlen ctx -> hash_verify H P pk M sig ctx ph = Ok false.
Proof. exact hash_verify_ctx_too_long. Qed.
Theorem C07_verify_accepts_short_ctx : forall H P pk M sig ctx,
  zlen ctx <= 255 -> verify H P pk M sig ctx = verify_internal H false P pk M sig ctx [] [] false.
Proof. exact verify_ctx_accepted. Qed.
Theorem C07_hash_verify_accepts_short_ctx : forall H P pk M sig ctx ph,
  zlen ctx <= 255 ->
  hash_verify H P pk M sig ctx ph =
    let '(oid, phm) := hash_message H M ph in verify_internal H false P pk M sig ctx oid phm false.
Proof. exact hash_verify_ctx_accepted. Qed.
(* no aliasing: the serialised length byte is the length itself on every accepted context *)
Theorem C07_len_byte_exact : forall n, 0 <= n <= 255 -> len_byte n = n.
Proof. exact len_byte_exact. Qed.
Theorem C07_no_alias : forall c1 c2 : bytes,
  zlen c1 <= 255 -> zlen c2 <= 255 -> len_byte (zlen c1) = len_byte (zlen c2) -> length c1 = length c2.
Proof. exact len_byte_no_alias. Qed.
(* FIPS 204 rejects exactly the same lengths *)
Theorem C07_spec_sign : forall H fuel P sk M ctx rnd,
  255 < zlen ctx <-> Sign H fuel P sk M ctx rnd = SR_ctx_too_long.
Proof. exact spec_sign_ctx. Qed.
Theorem C07_spec_verify : forall H P pk M sigma ctx,
  255 < zlen ctx -> Verify H P pk M sigma ctx = Some false.
Proof. exact spec_verify_ctx. Qed.

(* non-vacuity: the premises are met, on both sides of the limit *)
Example C07_nonvacuous : 255 < zlen (repeat 0 256) /\ zlen (repeat 0 255) <= 255 /\ len_byte 256 = len_byte 0.
Proof. repeat split; vm_compute; congruence. Qed.

Print Assumptions C07_sign_rejects_long_ctx.
Print Assumptions C07_hash_sign_rejects_long_ctx.
Print Assumptions C07_sign_accepts_short_ctx.
Print Assumptions C07_hash_sign_accepts_short_ctx.
Print Assumptions C07_verify_rejects_long_ctx.
Print Assumptions C07_hash_verify_rejects_long_ctx.
Print Assumptions C07_verify_accepts_short_ctx.
Print Assumptions C07_hash_verify_accepts_short_ctx.
Print Assumptions C07_len_byte_exact.
Print Assumptions C07_no_alias.
Print Assumptions C07_spec_sign.
Print Assumptions C07_spec_verify.
(* T2: lib.rs overrides no provided trait method: try_sign / try_hash_sign go through the guarded _with_rng variants *)
Require F204.Proofs.SourcePins.
Check F204.Proofs.SourcePins.lib_impl_methods_pinned.
