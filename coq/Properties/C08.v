(* C08 - signature and polynomial encodings are canonical.

   FULL STATEMENT (not yet proved): bit_unpack/bit_pack are mutually inverse on in-range vectors
   and equal Alg 17/19; hint_bit_unpack y = Ok h <-> canonical y, and hint_bit_pack h = Ok y then;
   sig_decode s = Ok (c,z,h) -> sig_encode c z h = Ok s.
   Proved so far: the layout arithmetic of the three parameter sets (the lengths the codecs
   check with debug_assert! hold for the generated parameter records), so the codec models can
   never answer Panic because of a size mismatch. *)
Require Import F204.Base.Util F204.Base.Mach F204.Gen.Params F204.Impl.Helpers F204.Impl.Encodings.
Open Scope Z_scope.

Theorem C08_layout_partial : forall P, In P all_params ->
  p_pk_len P = 32 + 32 * kz P * BLQD /\
  p_sk_len P = sk_len_formula P /\
  p_sig_len P = sig_len_formula P /\
  p_w1_len P = 32 * kz P * bitlen ((Q - 1) / (2 * p_gamma2 P) - 1) /\
  1 <= p_omega P + kz P < 256.
Proof.
  intros P [<- | [<- | [<- | []]]]; vm_compute; repeat split; congruence.
Qed.

Print Assumptions C08_layout_partial.
