(* C08 - signature and polynomial encodings are canonical.
   Proved here (Proofs/BitPackProofs.v): coefficient bit-packing of the crate is a bijection between
   in-range coefficient vectors and byte strings - encode-then-decode returns the vector,
   every accepted byte string re-encodes to itself (so two byte strings never decode to the same
   vector), and where a+b+1 is a power of two every byte string is accepted.
   NOT yet proved: the corresponding statements for hint_bit_pack/unpack (canonical hint
   sections) and their composition into sig_decode/sig_encode; those are decided by the codec
   streams (model vs code vs FIPS Alg 20/21, malformed-hint grammar, re-encode on the real code). *)
Require Import List ZArith. Import ListNotations.
Require Import F204.Base.Util F204.Base.Mach F204.Gen.Params F204.Impl.Helpers F204.Impl.Conversion F204.Impl.Encodings
  F204.Proofs.BitPackProofs F204.Proofs.HintProofs F204.Proofs.DecodeRefine.
Open Scope Z_scope.

Theorem C08_bit_pack_then_unpack : forall a b w,
  valid_ab a b -> length w = 256%nat -> is_in_range w a b = true ->
  exists v, bit_pack w a b (32 * bitlen (a + b)) = Ok v /\ bit_unpack v a b = Ok w
            /\ bytes_ok v /\ Z.of_nat (length v) = 32 * bitlen (a + b).
Proof. exact bit_pack_unpack. Qed.

Theorem C08_bit_unpack_then_pack : forall a b v w,
  valid_ab a b -> bytes_ok v -> bit_unpack v a b = Ok w -> bit_pack w a b (32 * bitlen (a + b)) = Ok v.
Proof. exact bit_unpack_pack. Qed.

(* decoding is injective: two different byte strings are never read as the same vector *)
Theorem C08_bit_unpack_injective : forall a b v v' w,
  valid_ab a b -> bytes_ok v -> bytes_ok v' -> bit_unpack v a b = Ok w -> bit_unpack v' a b = Ok w -> v = v'.
Proof.
  intros a b v v' w Hab Hv Hv' H1 H2.
  pose proof (bit_unpack_pack a b v w Hab Hv H1) as E1. pose proof (bit_unpack_pack a b v' w Hab Hv' H2) as E2.
  rewrite E1 in E2. now inversion E2.
Qed.

Theorem C08_bit_unpack_total : forall a b v,
  valid_ab a b -> a + b + 1 = 2 ^ bitlen (a + b) -> bytes_ok v -> Z.of_nat (length v) = 32 * bitlen (a + b) ->
  exists w, bit_unpack v a b = Ok w /\ length w = 256%nat /\ is_in_range w a b = true.
Proof. exact bit_unpack_total. Qed.

(* the (a,b) pairs the crate uses: all valid; t1, t0, z and w1 ranges are full (every byte string decodes) *)
Theorem C08_pairs_used :
  valid_ab 0 1023 /\ valid_ab 2 2 /\ valid_ab 4 4 /\ valid_ab 4095 4096 /\ valid_ab 131071 131072 /\ valid_ab 524287 524288
  /\ valid_ab 0 15 /\ valid_ab 0 43
  /\ 0 + 1023 + 1 = 2 ^ bitlen (0 + 1023) /\ 4095 + 4096 + 1 = 2 ^ bitlen (4095 + 4096)
  /\ 131071 + 131072 + 1 = 2 ^ bitlen (131071 + 131072) /\ 524287 + 524288 + 1 = 2 ^ bitlen (524287 + 524288)
  /\ 0 + 15 + 1 = 2 ^ bitlen (0 + 15).
Proof. unfold valid_ab. repeat split; vm_compute; congruence. Qed.

Theorem C08_layout : forall P, In P all_params ->
  p_pk_len P = 32 + 32 * kz P * BLQD /\
  p_sk_len P = sk_len_formula P /\
  p_sig_len P = sig_len_formula P /\
  p_w1_len P = 32 * kz P * bitlen ((Q - 1) / (2 * p_gamma2 P) - 1) /\
  1 <= p_omega P + kz P < 256.
Proof.
  intros P [<- | [<- | [<- | []]]]; vm_compute; repeat split; congruence.
Qed.

(* the decoders accept exactly what FIPS 204 Algorithms 21, 23, 27 accept, and return their outputs:
   every malformed hint section the property names (unsorted or repeated indices, counts that
   decrease or exceed omega, non-zero unused bytes) is what HintBitUnpack (Spec/SpecConv.v) answers
   "bottom" for, and hint_bit_unpack answers Err Malformed (never Panic) exactly then *)
Theorem C08_hint_unpack_is_FIPS204 : forall (k : nat) omega y,
  0 <= omega -> 1 <= omega + Z.of_nat k < 256 -> zlen y = omega + Z.of_nat k -> HintProofs.bytes_ok y ->
  hint_bit_unpack k omega y = res_of_opt (SpecConv.HintBitUnpack omega k y).
Proof. exact hint_bit_unpack_spec. Qed.
Theorem C08_sig_decode_is_FIPS204 : forall P sigma, In P all_params -> bytes_ok sigma -> zlen sigma = p_sig_len P ->
  sig_decode P sigma = sig_decode_result (SpecConv.sigDecode P sigma).
Proof. exact sig_decode_spec. Qed.
Theorem C08_pk_decode_is_FIPS204 : forall P pk, In P all_params -> bytes_ok pk -> zlen pk = p_pk_len P ->
  pk_decode P pk = Ok (SpecConv.pkDecode (p_k P) pk).
Proof. exact pk_decode_spec. Qed.

Print Assumptions C08_hint_unpack_is_FIPS204.
Print Assumptions C08_sig_decode_is_FIPS204.
Print Assumptions C08_pk_decode_is_FIPS204.
Print Assumptions C08_bit_pack_then_unpack.
Print Assumptions C08_bit_unpack_then_pack.
Print Assumptions C08_bit_unpack_injective.
Print Assumptions C08_bit_unpack_total.
Print Assumptions C08_pairs_used.
Print Assumptions C08_layout.
