(* C08 - signature and polynomial encodings are canonical.
   Proved here (Proofs/BitPackProofs.v): coefficient bit-packing of the crate is a bijection between
   in-range coefficient vectors and byte strings - encode-then-decode returns the vector,
   every accepted byte string re-encodes to itself (so two byte strings never decode to the same
   vector), and where a+b+1 is a power of two every byte string is accepted.
   Proved as well (Proofs/HintPack.v, HintCanon.v, SigCanon.v): hint sections and whole signatures
   are canonical - every signature byte string that sig_decode accepts is reproduced, byte for byte,
   by sig_encode of the decoded (c~, z, h) (C08_signature_reencodes), so two different byte strings
   are never read as the same signature (C08_sig_decode_injective); the decoders equal FIPS 204
   Algorithms 21/23/27 on every byte string, so each malformed hint section the property names is
   rejected (with the API error, never a panic).  The codec streams (model vs code vs FIPS Alg 16-21,
   malformed-hint grammar, re-encode on the real code) tie these models to the crate. *)
Require Import List ZArith. Import ListNotations.
Require Import F204.Base.Util F204.Base.Mach F204.Gen.Params F204.Impl.Helpers F204.Impl.Conversion F204.Impl.Encodings
  F204.Proofs.BitPackProofs F204.Proofs.HintProofs F204.Proofs.DecodeRefine F204.Proofs.KeyRoundTrip F204.Proofs.HintCanon F204.Proofs.SigCanon.
Open Scope Z_scope.

Theorem C08_bit_pack_then_unpack : forall a b w,
  valid_ab a b -> length w = 256%nat -> is_in_range w a b = true ->
  exists v, bit_pack w a b (32 * bitlen (a + b)) = Ok v /\ bit_unpack v a b = Ok w
            /\ bytes_ok v /\ Z.of_nat (length v) = 32 * bitlen (a + b).
Proof. exact bit_pack_unpack. Qed.

Theorem C08_bit_unpack_then_pack : forall a b v w,
  valid_ab a b -> bytes_ok v -> bit_unpack v a b = Ok w -> bit_pack w a b (32 * bitlen (a + b)) = Ok v.
Proof. exact bit_unpack_pack. Qed.

(* decoding is injective: two different byte strings are never read as the same vector *)
Theorem C08_bit_unpack_injective : forall a b v v' w,
  valid_ab a b -> bytes_ok v -> bytes_ok v' -> bit_unpack v a b = Ok w -> bit_unpack v' a b = Ok w -> v = v'.
Proof.
  intros a b v v' w Hab Hv Hv' H1 H2.
  pose proof (bit_unpack_pack a b v w Hab Hv H1) as E1. pose proof (bit_unpack_pack a b v' w Hab Hv' H2) as E2.
  rewrite E1 in E2. now inversion E2.
Qed.

Theorem C08_bit_unpack_total : forall a b v,
  valid_ab a b -> a + b + 1 = 2 ^ bitlen (a + b) -> bytes_ok v -> Z.of_nat (length v) = 32 * bitlen (a + b) ->
  exists w, bit_unpack v a b = Ok w /\ length w = 256%nat /\ is_in_range w a b = true.
Proof. exact bit_unpack_total. Qed.

(* the (a,b) pairs the crate uses: all valid; t1, t0, z and w1 ranges are full (every byte string decodes) *)
Theorem C08_pairs_used :
  valid_ab 0 1023 /\ valid_ab 2 2 /\ valid_ab 4 4 /\ valid_ab 4095 4096 /\ valid_ab 131071 131072 /\ valid_ab 524287 524288
  /\ valid_ab 0 15 /\ valid_ab 0 43
  /\ 0 + 1023 + 1 = 2 ^ bitlen (0 + 1023) /\ 4095 + 4096 + 1 = 2 ^ bitlen (4095 + 4096)
  /\ 131071 + 131072 + 1 = 2 ^ bitlen (131071 + 131072) /\ 524287 + 524288 + 1 = 2 ^ bitlen (524287 + 524288)
  /\ 0 + 15 + 1 = 2 ^ bitlen (0 + 15).
Proof. unfold valid_ab. repeat split; vm_compute; congruence. Qed.

Theorem C08_layout : forall P, In P all_params ->
  p_pk_len P = 32 + 32 * kz P * BLQD /\
  p_sk_len P = sk_len_formula P /\
  p_sig_len P = sig_len_formula P /\
  p_w1_len P = 32 * kz P * bitlen ((Q - 1) / (2 * p_gamma2 P) - 1) /\
  1 <= p_omega P + kz P < 256.
Proof.
  intros P [<- | [<- | [<- | []]]]; vm_compute; repeat split; congruence.
Qed.

(* the decoders accept exactly what FIPS 204 Algorithms 21, 23, 27 accept, and return their outputs:
   every malformed hint section the property names (unsorted or repeated indices, counts that
   decrease or exceed omega, non-zero unused bytes) is what HintBitUnpack (Spec/SpecConv.v) answers
   "bottom" for, and hint_bit_unpack answers Err Malformed (never Panic) exactly then *)
Theorem C08_hint_unpack_is_FIPS204 : forall (k : nat) omega y,
  0 <= omega -> 1 <= omega + Z.of_nat k < 256 -> zlen y = omega + Z.of_nat k -> HintProofs.bytes_ok y ->
  hint_bit_unpack k omega y = res_of_opt (SpecConv.HintBitUnpack omega k y).
Proof. exact hint_bit_unpack_spec. Qed.
Theorem C08_sig_decode_is_FIPS204 : forall P sigma, In P all_params -> bytes_ok sigma -> zlen sigma = p_sig_len P ->
  sig_decode P sigma = sig_decode_result (SpecConv.sigDecode P sigma).
Proof. exact sig_decode_spec. Qed.
Theorem C08_pk_decode_is_FIPS204 : forall P pk, In P all_params -> bytes_ok pk -> zlen pk = p_pk_len P ->
  pk_decode P pk = Ok (SpecConv.pkDecode (p_k P) pk).
Proof. exact pk_decode_spec. Qed.

(* canonical signatures: decode then encode is the identity on every accepted byte string *)
Theorem C08_signature_reencodes : forall P sigma c z h, In P all_params -> bytes_ok sigma -> zlen sigma = p_sig_len P ->
  sig_decode P sigma = Ok (c, z, h) -> sig_encode false P c z h = Ok sigma.
Proof. exact sig_reencode. Qed.
Theorem C08_sig_decode_injective : forall P sigma sigma' r, In P all_params ->
  bytes_ok sigma -> zlen sigma = p_sig_len P -> bytes_ok sigma' -> zlen sigma' = p_sig_len P ->
  sig_decode P sigma = Ok r -> sig_decode P sigma' = Ok r -> sigma = sigma'.
Proof.
  intros P sigma sigma' [[c z] h] HP Hb Hl Hb' Hl' E E'.
  pose proof (sig_reencode P sigma c z h HP Hb Hl E) as R. pose proof (sig_reencode P sigma' c z h HP Hb' Hl' E') as R'.
  rewrite R in R'. now inversion R'.
Qed.
(* and encode then decode returns the components (so sig_encode is injective on what signing produces) *)
Theorem C08_signature_decodes_back : forall P c z h sigma, In P all_params ->
  zlen c = p_lambda_div4 P -> bytes_ok c ->
  rvec (p_gamma1 P - 1) (p_gamma1 P) (p_l P) z -> rvec 0 1 (p_k P) h -> sumZ (map sumZ h) <= p_omega P ->
  sig_encode false P c z h = Ok sigma ->
  bytes_ok sigma /\ zlen sigma = p_sig_len P /\ sig_decode P sigma = Ok (c, z, h).
Proof. exact sig_decode_encode. Qed.
(* the hint section alone, at the level of FIPS 204 Algorithms 20/21 *)
Theorem C08_hint_section_canonical : forall omega (k : nat) y h, 0 <= omega -> HintProofs.bytes_ok y -> zlen y = omega + Z.of_nat k ->
  SpecConv.HintBitUnpack omega k y = Some h -> SpecConv.HintBitPack omega h = y.
Proof. exact HintBitPack_Unpack. Qed.

Print Assumptions C08_signature_reencodes.
Print Assumptions C08_sig_decode_injective.
Print Assumptions C08_signature_decodes_back.
Print Assumptions C08_hint_section_canonical.
Print Assumptions C08_hint_unpack_is_FIPS204.
Print Assumptions C08_sig_decode_is_FIPS204.
Print Assumptions C08_pk_decode_is_FIPS204.
Print Assumptions C08_bit_pack_then_unpack.
Print Assumptions C08_bit_unpack_then_pack.
Print Assumptions C08_bit_unpack_injective.
Print Assumptions C08_bit_unpack_total.
Print Assumptions C08_pairs_used.
Print Assumptions C08_layout.
(* T6: no conditional compilation inside the algorithm files (the hooks build runs the code users run) *)
Require F204.Proofs.SourcePins.
Check F204.Proofs.SourcePins.algorithm_files_have_no_cfg_gates.
