(* C09 - key serialisation round-trips exactly and preserves behaviour.
   FULL STATEMENT, proved below for every hash family with the output-length laws and each parameter set:
     (1) every byte string of PK_LEN bytes deserialises (never Err/Panic) and serialises back to itself;
     (2) every byte string of SK_LEN bytes that deserialisation accepts serialises back to itself;
     (3) conversely, the key pair returned by key generation for ANY seed serialises to byte strings
         that deserialise to THE SAME structs (field-for-field equal), so every later operation
         (signing with the same randomness, verification of any input, derivation) is computed from
         identical data and gives identical results.
   The structs hold s1, s2, t0, t1*2^d in NTT + Montgomery form; the proofs go through the
   NTT/inverse-NTT refinement and the Montgomery-form relation of Proofs/KeyRoundTrip.v. *)
Require Import List ZArith. Import ListNotations.
Require Import F204.Base.Util F204.Base.Mach F204.Gen.Params F204.Hash.HashIface F204.Impl.Helpers F204.Impl.Encodings
  F204.Impl.MlDsa F204.Impl.Api F204.Proofs.BitPackProofs F204.Proofs.KeyRoundTrip F204.Proofs.DeriveRefine.
Open Scope Z_scope.

Theorem C09_public_key_bytes_roundtrip : forall H P, In P all_params -> forall pkb, bytes_ok pkb -> zlen pkb = p_pk_len P ->
  exists pk, pk_try_from_bytes H P pkb = Ok pk /\ pk_into_bytes P pk = Ok pkb.
Proof.
  intros H P HP pkb Hb Hl. destruct (pk_roundtrip_bytes H P pkb HP Hb Hl) as (pk & E1 & E2 & _). exists pk. split; assumption.
Qed.

Theorem C09_private_key_bytes_roundtrip : forall P, In P all_params -> forall skb key, bytes_ok skb -> zlen skb = p_sk_len P ->
  sk_try_from_bytes P skb = Ok key -> sk_into_bytes P key = Ok skb.
Proof. intros P HP skb key Hb Hl E. exact (sk_roundtrip_bytes P skb key HP Hb Hl E). Qed.

Theorem C09_generated_keys_roundtrip_to_same_structs : forall H, HashLaws H -> forall P, In P all_params -> forall xi pk sk,
  keygen_from_seed H P xi = Ok (pk, sk) ->
  exists pkb skb, bytes_ok pkb /\ zlen pkb = p_pk_len P /\ bytes_ok skb /\ zlen skb = p_sk_len P /\
    pk_into_bytes P pk = Ok pkb /\ pk_try_from_bytes H P pkb = Ok pk /\
    sk_into_bytes P sk = Ok skb /\ sk_try_from_bytes P skb = Ok sk.
Proof. intros H HL P HP xi pk sk E. exact (generated_roundtrip H HL P HP xi pk sk E). Qed.

(* "behaves identically", stated on the operations: whatever serialising a generated private key and
   deserialising the bytes returns is the generated struct, so signing (both modes, every generator state and loop budget,
   message and context) and public-key derivation return the same result - value, error and generator
   state - with the round-tripped key as with the original. *)
Theorem C09_roundtripped_key_behaves_identically : forall H, HashLaws H -> forall P, In P all_params -> forall xi pk sk,
  keygen_from_seed H P xi = Ok (pk, sk) ->
  forall skb sk', sk_into_bytes P sk = Ok skb -> sk_try_from_bytes P skb = Ok sk' ->
  sk' = sk /\
  (forall fuel g m ctx, try_sign_with_rng H fuel P sk' g m ctx = try_sign_with_rng H fuel P sk g m ctx) /\
  (forall fuel g m ctx ph, try_hash_sign_with_rng H fuel P sk' g m ctx ph = try_hash_sign_with_rng H fuel P sk g m ctx ph) /\
  get_public_key H P sk' = get_public_key H P sk.
Proof.
  intros H HL P HP xi pk sk E skb sk' Eb Es.
  destruct (generated_roundtrip H HL P HP xi pk sk E) as (pkb & skb0 & _ & _ & _ & _ & _ & _ & Eb0 & Es0).
  assert (Hb : skb0 = skb) by congruence. subst skb0.
  assert (S : sk' = sk) by congruence. subst sk'. repeat split.
Qed.

(* t1 = 1023 is the largest value whose shift by d stays below q: t1 * 2^d <= q - 1 *)
Theorem C09_t1_shift_in_range : T1MAX = 1023 /\ T1MAX * 2 ^ D = Q - 1.
Proof. split; reflexivity. Qed.

Print Assumptions C09_public_key_bytes_roundtrip.
Print Assumptions C09_roundtripped_key_behaves_identically.
Print Assumptions C09_private_key_bytes_roundtrip.
Print Assumptions C09_generated_keys_roundtrip_to_same_structs.
Print Assumptions C09_t1_shift_in_range.
