(* C09 - key serialisation round-trips exactly
   FULL STATEMENT: see DESIGN.md section 7 (pk_roundtrip, sk_roundtrip, keygen_roundtrip).  Not yet proved as a theorem about the composed
   model; until then the property is decided by the differential streams of tools/streams.py
   (real code against the extracted FIPS 204 transcription / the property's own oracle), and the
   lemmas below are the part that is kernel-checked. *)
Require Import F204.Base.Util F204.Base.Mach F204.Gen.Params F204.Impl.Helpers F204.Impl.Encodings.
Open Scope Z_scope.
(* t1 = 1023 is the largest value whose shift by d stays below q: t1 * 2^d <= q - 1 *)
Theorem C09_t1_shift_in_range_partial : T1MAX = 1023 /\ T1MAX * 2 ^ D = Q - 1.
Proof. split; reflexivity. Qed.
Print Assumptions C09_t1_shift_in_range_partial.
