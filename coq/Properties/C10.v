(* C10 - malformed private keys are rejected at deserialisation.
   Proved here (Proofs/BitPackProofs.v) for every byte string of the length of one packed
   polynomial: the string is read as 256 fields of c = bitlen(a+b) bits (the base-2^c digits of
   its little-endian value); bit_unpack returns Ok exactly when every field is at most a+b and
   Err (the API error, never a panic) when some field exceeds it.  For the secret vectors
   (a = b = eta) that is: rejected iff some field encodes a value above 2*eta, i.e. outside
   [-eta, eta].  The t0 fields (a+b+1 = 2^13) are always in range.
   NOT yet proved: the lifting through sk_decode's slicing (mapM over the l+k+k chunks); decided by
   the exhaustive field-value stream of tools/streams.py. *)
Require Import F204.Base.Util F204.Base.Mach F204.Gen.Params F204.Impl.Helpers F204.Impl.Conversion
  F204.Proofs.BitPackProofs.
Open Scope Z_scope.

Theorem C10_fieldwise_acceptance : forall a b v,
  valid_ab a b -> bytes_ok v -> Z.of_nat (length v) = 32 * bitlen (a + b) ->
  exists ds, digits_ok (bitlen (a + b)) ds /\ length ds = 256%nat /\ dval (bitlen (a + b)) ds = le_int v /\
             (Forall (fun d => d <= a + b) ds -> bit_unpack v a b = Ok (map (dec a b) ds)) /\
             (Exists (fun d => a + b < d) ds -> bit_unpack v a b = Err Malformed).
Proof. exact bit_unpack_accepts_iff. Qed.

(* an accepted polynomial is in range, so the serialisation self-check cannot fire on it *)
Theorem C10_accepted_is_in_range : forall v a b w,
  bit_unpack v a b = Ok w -> Forall (fun e => - a <= e <= b) w.
Proof.
  intros v a b w. unfold bit_unpack.
  destruct (guard _ _); cbn [bind]; try discriminate.
  destruct (guard _ _); cbn [bind]; try discriminate.
  destruct (guard _ _); cbn [bind]; try discriminate.
  unfold ensure. destruct (is_in_range (bit_unpack_raw v a b) a b) eqn:E; cbn [bind]; try discriminate.
  intros Hw. inversion Hw; subst w. apply in_range_forall. exact E.
Qed.

(* the two eta values: 3-bit fields accept 0..4, 4-bit fields accept 0..8 *)
Example C10_eta_fields : bitlen (2 + 2) = 3 /\ bitlen (4 + 4) = 4 /\ valid_ab 2 2 /\ valid_ab 4 4.
Proof. unfold valid_ab. repeat split; vm_compute; congruence. Qed.

Print Assumptions C10_fieldwise_acceptance.
Print Assumptions C10_accepted_is_in_range.
