(* C10 - malformed private keys are rejected at deserialisation.
   FULL STATEMENT (not yet proved): sk_try_from_bytes P b = Err Malformed <-> some s1/s2 field of b
   encodes a value > 2*eta; Ok otherwise.
   Proved here (the step the pinned tree got wrong): the range test that bit_unpack applies is
   the test against [-a, b] itself - a vector is accepted iff every coefficient lies in [-a, b]. *)
Require Import F204.Base.Util F204.Base.Mach F204.Gen.Params F204.Impl.Helpers F204.Impl.Conversion.
Open Scope Z_scope.

Theorem C10_bit_unpack_range_partial : forall v a b w,
  bit_unpack v a b = Ok w -> Forall (fun e => - a <= e <= b) w.
Proof.
  intros v a b w. unfold bit_unpack.
  destruct (guard _ _); cbn [bind]; try discriminate.
  destruct (guard _ _); cbn [bind]; try discriminate.
  destruct (guard _ _); cbn [bind]; try discriminate.
  unfold ensure. destruct (is_in_range (bit_unpack_raw v a b) a b) eqn:E; cbn [bind]; try discriminate.
  intros Hw. inversion Hw; subst w. clear Hw.
  unfold is_in_range in E. rewrite forallb_forall in E. apply Forall_forall. intros e He.
  specialize (E e He). apply andb_prop in E as [E1 E2]. apply Z.leb_le in E1, E2. lia.
Qed.

Theorem C10_bit_unpack_rejects_partial : forall v a b,
  (0 <=? a) && (a <? 1048576) = true -> (1 <=? b) && (b <? 1048576) = true -> zlen v =? 32 * bitlen (a + b) = true ->
  Exists (fun e => e < - a \/ b < e) (bit_unpack_raw v a b) -> bit_unpack v a b = Err Malformed.
Proof.
  intros v a b Ha Hb Hl Hex. unfold bit_unpack. rewrite Ha, Hb, Hl. cbn [guard bind].
  replace (is_in_range (bit_unpack_raw v a b) a b) with false; [reflexivity|].
  symmetry. apply not_true_is_false. intros E. unfold is_in_range in E. rewrite forallb_forall in E.
  apply Exists_exists in Hex as (e & He & Hr). specialize (E e He).
  apply andb_prop in E as [E1 E2]. apply Z.leb_le in E1, E2. lia.
Qed.

Print Assumptions C10_bit_unpack_range_partial.
Print Assumptions C10_bit_unpack_rejects_partial.
