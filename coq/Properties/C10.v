(* C10 - malformed private keys are rejected at deserialisation.
   Proved here (Proofs/BitPackProofs.v) for every byte string of the length of one packed
   polynomial: the string is read as 256 fields of c = bitlen(a+b) bits (the base-2^c digits of
   its little-endian value); bit_unpack returns Ok exactly when every field is at most a+b and
   Err (the API error, never a panic) when some field exceeds it.  For the secret vectors
   (a = b = eta) that is: rejected iff some field encodes a value above 2*eta, i.e. outside
   [-eta, eta].  The t0 fields (a+b+1 = 2^13) are always in range.
   This is lifted through sk_decode's slicing and the NTT/Montgomery pre-computation to the API
   (Proofs/SkDecodeProofs.v): PrivateKey::try_from_bytes returns a key iff every field of the
   l + k packed polynomials of s1 and s2 is at most 2*eta, and Err Malformed (never a panic)
   otherwise - for every byte string of SK_LEN bytes and each of the three parameter sets.
   NOT yet proved: that into_bytes of an accepted key passes its own range self-check (needs the
   Montgomery/NTT inversion of C09); decided by the stream (every accepted key is re-serialised). *)
Require Import F204.Base.Util F204.Base.Mach F204.Gen.Params F204.Impl.Helpers F204.Impl.Conversion
  F204.Impl.Encodings F204.Impl.MlDsa F204.Impl.Api F204.Proofs.BitPackProofs F204.Proofs.SkDecodeProofs.
Open Scope Z_scope.

Theorem C10_fieldwise_acceptance : forall a b v,
  valid_ab a b -> bytes_ok v -> Z.of_nat (length v) = 32 * bitlen (a + b) ->
  exists ds, digits_ok (bitlen (a + b)) ds /\ length ds = 256%nat /\ dval (bitlen (a + b)) ds = le_int v /\
             (Forall (fun d => d <= a + b) ds -> bit_unpack v a b = Ok (map (dec a b) ds)) /\
             (Exists (fun d => a + b < d) ds -> bit_unpack v a b = Err Malformed).
Proof. exact bit_unpack_accepts_iff. Qed.

(* an accepted polynomial is in range, so the serialisation self-check cannot fire on it *)
Theorem C10_accepted_is_in_range : forall v a b w,
  bit_unpack v a b = Ok w -> Forall (fun e => - a <= e <= b) w.
Proof.
  intros v a b w. unfold bit_unpack.
  destruct (guard _ _); cbn [bind]; try discriminate.
  destruct (guard _ _); cbn [bind]; try discriminate.
  destruct (guard _ _); cbn [bind]; try discriminate.
  unfold ensure. destruct (is_in_range (bit_unpack_raw v a b) a b) eqn:E; cbn [bind]; try discriminate.
  intros Hw. inversion Hw; subst w. apply in_range_forall. exact E.
Qed.

(* the two eta values: 3-bit fields accept 0..4, 4-bit fields accept 0..8 *)
Example C10_eta_fields : bitlen (2 + 2) = 3 /\ bitlen (4 + 4) = 4 /\ valid_ab 2 2 /\ valid_ab 4 4.
Proof. unfold valid_ab. repeat split; vm_compute; congruence. Qed.

(* the API-level statement.  [s_chunks P sk] are the l+k byte chunks holding s1 and s2;
   [fields c ch] are the 256 c-bit fields of a chunk (c = 3 for eta = 2, c = 4 for eta = 4);
   chunk_ok = all fields <= 2*eta; chunk_bad = some field > 2*eta *)
Theorem C10_try_from_bytes_iff : forall P, In P all_params -> forall sk, bytes_ok sk -> zlen sk = p_sk_len P ->
  (Forall (chunk_ok P) (s_chunks P sk) -> exists key, sk_try_from_bytes P sk = Ok key)
  /\ (Exists (chunk_bad P) (s_chunks P sk) -> sk_try_from_bytes P sk = Err Malformed).
Proof. exact sk_try_from_bytes_iff. Qed.
(* the two cases are exhaustive *)
Theorem C10_dichotomy : forall P l, Forall (chunk_ok P) l \/ Exists (chunk_bad P) l.
Proof. exact chunks_ok_or_bad. Qed.

Print Assumptions C10_fieldwise_acceptance.
Print Assumptions C10_try_from_bytes_iff.
Print Assumptions C10_dichotomy.
Print Assumptions C10_accepted_is_in_range.
