(* C11 - the public key derived from a private key equals the generated one.
   FULL STATEMENT, proved below for every hash family with the output-length laws, each parameter
   set and ANY seed: for the key pair (pk, sk) returned by key generation,
     (1) get_public_key(sk) returns Ok pk - the SAME struct (never Err/Panic), hence the same
         serialisation and the same verification decision on every input;
     (2) the same holds for the private key obtained by serialising sk and deserialising the bytes
         (it is the same struct, C09), and pk equals the struct obtained by deserialising its own bytes.
   (3) For any accepted private key (not only generated ones) the derived key is the struct built
       from Power2Round(A*s1 + s2) of its decoded components - FIPS 204's derivation of t1. *)
Require Import List ZArith. Import ListNotations.
Require Import F204.Base.Util F204.Base.Mach F204.Gen.Params F204.Hash.HashIface F204.Impl.MlDsa F204.Impl.Api
  F204.Spec.SpecSample F204.Proofs.BitPackProofs F204.Proofs.SampleRefine F204.Proofs.KeyRoundTrip F204.Proofs.DeriveRefine.
Open Scope Z_scope.

Theorem C11_derived_is_generated : forall H, HashLaws H -> forall P, In P all_params -> forall xi pk sk,
  keygen_from_seed H P xi = Ok (pk, sk) -> get_public_key H P sk = Ok pk.
Proof. intros H HL P HP xi pk sk E. exact (derive_generated H HL P HP xi pk sk E). Qed.

Theorem C11_derived_after_roundtrip : forall H, HashLaws H -> forall P, In P all_params -> forall xi pk sk,
  keygen_from_seed H P xi = Ok (pk, sk) ->
  exists pkb skb sk', sk_into_bytes P sk = Ok skb /\ sk_try_from_bytes P skb = Ok sk' /\ get_public_key H P sk' = Ok pk /\
                      pk_into_bytes P pk = Ok pkb /\ pk_try_from_bytes H P pkb = Ok pk.
Proof.
  intros H HL P HP xi pk sk E.
  destruct (generated_roundtrip H HL P HP xi pk sk E) as (pkb & skb & _ & _ & _ & _ & E1 & E2 & E3 & E4).
  exists pkb, skb, sk. repeat split; try assumption. exact (derive_generated H HL P HP xi pk sk E).
Qed.

Theorem C11_derived_is_FIPS204_t1 : forall H, HashLaws H -> forall P, In P all_params -> forall skb sk,
  bytes_ok skb -> zlen skb = p_sk_len P -> sk_try_from_bytes P skb = Ok sk ->
  exists rho K tr s1 s2 t0, Impl.Encodings.sk_decode P skb = Ok (rho, K, tr, s1, s2, t0) /\
    get_public_key H P sk = match ExpandA H P rho with
                            | None => OutOfFuel
                            | Some A => pk_of rho tr (t1_of A s1 s2)
                            end.
Proof.
  intros H HL P HP skb sk Hb Hl E.
  destruct (expand_private_repr P skb sk HP Hb Hl E) as (rho & K & tr & s1 & s2 & t0 & Ed & Hrep).
  exists rho, K, tr, s1, s2, t0. split; [exact Ed|]. apply (derive_refines H HL P HP sk rho K tr s1 s2 t0); [|exact Hrep].
  apply (sk_decode_byte_fields P skb rho K tr s1 s2 t0 HP Hl Ed).
Qed.

(* the derived key carries the private key's rho and tr unchanged (the cached public-key hash is copied) *)
Theorem C11_derived_copies_rho_tr : forall H P sk pk,
  get_public_key H P sk = Ok pk -> pk_rho pk = sk_rho sk /\ pk_tr pk = sk_tr sk.
Proof.
  intros H P sk pk E. unfold get_public_key, private_to_public_key in E.
  repeat match goal with
  | H0 : bind ?m _ = Ok _ |- _ => destruct m eqn:?; cbn [bind] in H0; try discriminate
  | H0 : match ?x with pair _ _ => _ end = Ok _ |- _ => destruct x
  end.
  inversion E. split; reflexivity.
Qed.

(* (4) Interchangeability stated on the verification decisions themselves: for a generated pair, ANY result of
   derivation from sk, and ANY result of deserialising the serialised pk, is the generated struct, hence
   every verify / hash_verify call gives the same answer (value, error or otherwise) with either key,
   for every message, signature and context. *)
Theorem C11_interchangeable : forall H, HashLaws H -> forall P, In P all_params -> forall xi pk sk,
  keygen_from_seed H P xi = Ok (pk, sk) ->
  forall pk_d pkb pk_s, get_public_key H P sk = Ok pk_d -> pk_into_bytes P pk = Ok pkb -> pk_try_from_bytes H P pkb = Ok pk_s ->
  pk_d = pk /\ pk_s = pk /\
  (forall m sg ctx, verify H P pk_d m sg ctx = verify H P pk m sg ctx /\ verify H P pk_s m sg ctx = verify H P pk m sg ctx) /\
  (forall m sg ctx ph, hash_verify H P pk_d m sg ctx ph = hash_verify H P pk m sg ctx ph /\
                       hash_verify H P pk_s m sg ctx ph = hash_verify H P pk m sg ctx ph).
Proof.
  intros H HL P HP xi pk sk E pk_d pkb pk_s Ed Eb Es.
  destruct (C11_derived_after_roundtrip H HL P HP xi pk sk E) as (pkb' & skb & sk' & _ & _ & _ & Eb' & Es').
  assert (D : pk_d = pk) by (pose proof (C11_derived_is_generated H HL P HP xi pk sk E) as E1; congruence).
  assert (Hb : pkb' = pkb) by congruence. subst pkb'.
  assert (S : pk_s = pk) by congruence.
  subst pk_d pk_s. repeat split.
Qed.

Print Assumptions C11_derived_is_generated.
Print Assumptions C11_interchangeable.
Print Assumptions C11_derived_after_roundtrip.
Print Assumptions C11_derived_is_FIPS204_t1.
Print Assumptions C11_derived_copies_rho_tr.
