(* C11 - the derived public key equals the generated one
   FULL STATEMENT: see DESIGN.md section 7 (derive_eq).  Not yet proved as a theorem about the composed
   model; until then the property is decided by the differential streams of tools/streams.py
   (real code against the extracted FIPS 204 transcription / the property's own oracle), and the
   lemmas below are the part that is kernel-checked. *)
Require Import F204.Base.Util F204.Base.Mach F204.Gen.Params F204.Hash.HashIface F204.Impl.MlDsa F204.Impl.Api.
Open Scope Z_scope.
(* the derived key carries the private key's rho and tr unchanged (the cached public-key hash is copied) *)
Theorem C11_derived_copies_rho_tr_partial : forall H P sk pk,
  get_public_key H P sk = Ok pk -> pk_rho pk = sk_rho sk /\ pk_tr pk = sk_tr sk.
Proof.
  intros H P sk pk E. unfold get_public_key, private_to_public_key in E.
  repeat match goal with
  | H0 : bind ?m _ = Ok _ |- _ => destruct m eqn:?; cbn [bind] in H0; try discriminate
  | H0 : match ?x with pair _ _ => _ end = Ok _ |- _ => destruct x
  end.
  inversion E. split; reflexivity.
Qed.
Print Assumptions C11_derived_copies_rho_tr_partial.
