(* C12 - RNG failure is reported, and all drawn randomness is used (Proofs/RngFaults.v).
   The generator is an oracle: a script of replies to successive try_fill_bytes calls, each
   either Fill bytes or Fail (after an arbitrary partial write); the model has no access to the
   infallible RngCore methods.  [g] ranges over ALL scripts. *)
Require Import F204.Base.Util F204.Base.Mach F204.Gen.Params F204.Gen.Guards F204.Gen.Oids
  F204.Hash.HashIface F204.Impl.Hashing F204.Impl.MlDsa F204.Impl.Api F204.Proofs.RngFaults.
Open Scope Z_scope.

Theorem C12_keygen_fault : forall H P g, rng_fails g 32 ->
  try_keygen_with_rng H P g = (Err RngFailed, snd (try_fill g 32)).
Proof. exact keygen_fault. Qed.
Theorem C12_sign_fault : forall H fuel P sk g M ctx, rng_fails g 32 ->
  fst (try_sign_with_rng H fuel P sk g M ctx) = Err CtxTooLong \/
  try_sign_with_rng H fuel P sk g M ctx = (Err RngFailed, snd (try_fill g 32)).
Proof. exact sign_fault. Qed.
Theorem C12_hash_sign_fault : forall H fuel P sk g M ctx ph, rng_fails g 32 ->
  fst (try_hash_sign_with_rng H fuel P sk g M ctx ph) = Err CtxTooLong \/
  try_hash_sign_with_rng H fuel P sk g M ctx ph = (Err RngFailed, snd (try_fill g 32)).
Proof. exact hash_sign_fault. Qed.
(* every kind of failing reply is covered by the hypothesis above *)
Theorem C12_fault_kinds : forall p g n, rng_fails (Fail p :: g) n /\ rng_fails [] n.
Proof. intros; split; [apply fail_is_failure | apply empty_is_failure]. Qed.
(* at most one request per call *)
Theorem C12_keygen_one_request : forall H P g, snd (try_keygen_with_rng H P g) = tl g.
Proof. exact keygen_one_request. Qed.
Theorem C12_sign_requests : forall H fuel P sk g M ctx,
  snd (try_sign_with_rng H fuel P sk g M ctx) = g \/ snd (try_sign_with_rng H fuel P sk g M ctx) = tl g.
Proof. exact sign_requests. Qed.
(* all drawn bytes are in the hash preimage (influence up to SHAKE256 collisions) *)
Theorem C12_xi_injective : forall P xi xi', keygen_preimage P xi = keygen_preimage P xi' -> xi = xi'.
Proof. exact keygen_preimage_injective. Qed.
Theorem C12_rnd_injective : forall K rnd rnd' mu, length rnd = length rnd' ->
  rho2_preimage K rnd mu = rho2_preimage K rnd' mu -> rnd = rnd'.
Proof. exact rho2_preimage_injective. Qed.
(* the OS-RNG convenience functions are literally the _with_rng variants applied to OsRng (read by T2) *)
Theorem C12_os_wrappers : os_wrapper_try_keygen_is_with_rng_OsRng = true /\
  os_wrapper_try_sign_is_with_rng_OsRng = true /\ os_wrapper_try_hash_sign_is_with_rng_OsRng = true.
Proof. repeat split. Qed.

Print Assumptions C12_keygen_fault.
Print Assumptions C12_sign_fault.
Print Assumptions C12_hash_sign_fault.
Print Assumptions C12_fault_kinds.
Print Assumptions C12_keygen_one_request.
Print Assumptions C12_sign_requests.
Print Assumptions C12_xi_injective.
Print Assumptions C12_rnd_injective.
Print Assumptions C12_os_wrappers.
(* T2: lib.rs overrides no provided trait method: the OS-RNG entry points draw through the _with_rng variants *)
Require F204.Proofs.SourcePins.
Check F204.Proofs.SourcePins.lib_impl_methods_pinned.
