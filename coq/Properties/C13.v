(* C13 - no input can make the library panic
   FULL STATEMENT: is_panic (f args) = false for every public entry point f and all arguments the
   property quantifies over, in the model whose arithmetic is checked i32/i64 and in which every
   debug_assert! is a guard that answers Panic.
   Proved below as theorems about the composed model:
     - verification (verify, hash_verify, _internal_verify) for every public key, signature,
       message and context byte string of any content/length (from the C02 refinement);
     - deserialisation of every public-key byte string and every private-key byte string;
     - key generation for every seed, into_bytes and get_public_key for every generated key,
       into_bytes and get_public_key for every private key that deserialisation accepted,
       into_bytes for every deserialised public key (from the C04/C09/C11 refinements).
     - signing through all three entry points for every accepted private key and every behaviour
       of the caller's generator and EVERY loop budget: after the repair of finding F4 (commit acb1d71 in
       /repo) the rejection loop answers Err before the 16-bit counter kappa can overflow; before it, a
       hostile accepted key made the checked build panic and the release build loop for ever.  Everything is in addition
   decided by the hostile-input streams of tools/streams.py on the checked build. *)
Require Import List ZArith Lia. Import ListNotations.
Require Import F204.Base.Util F204.Base.Mach F204.Gen.Params F204.Gen.Guards F204.Hash.HashIface F204.Impl.Helpers F204.Impl.HighLow
  F204.Impl.Hashing F204.Impl.MlDsa F204.Impl.Api F204.Proofs.KernelLemmas
  F204.Proofs.BitPackProofs F204.Proofs.SkDecodeProofs F204.Proofs.SampleRefine F204.Proofs.VerifyRefine
  F204.Proofs.KeyRoundTrip F204.Proofs.KeygenRefine F204.Proofs.DeriveRefine F204.Proofs.SignRefine.
Open Scope Z_scope.

Lemma res_fuel_no_panic {A} (o : option A) : is_panic (res_fuel o) = false.
Proof. destruct o; reflexivity. Qed.

(* verification never panics, whatever the bytes *)
Theorem C13_verify_no_panic : forall H, HashLaws H -> forall P, In P all_params ->
  forall pkb sigma M ctx ph, bytes_ok pkb -> zlen pkb = p_pk_len P -> bytes_ok sigma -> zlen sigma = p_sig_len P ->
  exists pk, pk_try_from_bytes H P pkb = Ok pk /\
    is_panic (verify H P pk M sigma ctx) = false /\
    is_panic (hash_verify H P pk M sigma ctx ph) = false /\
    is_panic (internal_verify H P pk M sigma ctx) = false.
Proof.
  intros H HL P HP pkb sigma M ctx ph Hbp Hlp Hbs Hls.
  destruct (expand_public_ok H P HP pkb Hbp Hlp) as (pk & Epk & _). exists pk. split; [exact Epk|].
  rewrite (verify_refines H HL P HP pkb sigma pk M ctx Hbp Hlp Hbs Hls Epk).
  rewrite (hash_verify_refines H HL P HP pkb sigma pk M ctx ph Hbp Hlp Hbs Hls Epk).
  repeat split; try apply res_fuel_no_panic.
  unfold internal_verify. destruct (ctx_max_internal_verify <? zlen ctx) eqn:E; [reflexivity|].
  change ctx_max_internal_verify with 255 in E. apply Z.ltb_ge in E.
  pose proof (internal_verify_refines H HL P HP pkb sigma pk M ctx Hbp Hlp Hbs Hls Epk E) as R.
  unfold internal_verify in R. change ctx_max_internal_verify with 255 in R.
  replace (255 <? zlen ctx) with false in R by (symmetry; apply Z.ltb_ge; exact E).
  rewrite R. apply res_fuel_no_panic.
Qed.

(* deserialisation never panics: public keys always decode; private keys decode or are rejected with the API error *)
Theorem C13_deserialise_no_panic : forall H P, In P all_params ->
  (forall pkb, bytes_ok pkb -> zlen pkb = p_pk_len P -> exists pk, pk_try_from_bytes H P pkb = Ok pk) /\
  (forall skb, bytes_ok skb -> zlen skb = p_sk_len P ->
     (exists sk, sk_try_from_bytes P skb = Ok sk) \/ sk_try_from_bytes P skb = Err Malformed).
Proof.
  intros H P HP. split.
  - intros pkb Hb Hl. destruct (expand_public_ok H P HP pkb Hb Hl) as (pk & Epk & _). exists pk. exact Epk.
  - intros skb Hb Hl. destruct (sk_try_from_bytes_iff P HP skb Hb Hl) as [Hok Hbad].
    destruct (chunks_ok_or_bad P (s_chunks P skb)) as [Hc|Hc]; [left; apply Hok; exact Hc|right; apply Hbad; exact Hc].
Qed.

(* the scalar kernels never panic inside their documented domains (all self-checks hold) *)
Theorem C13_kernels_no_panic_partial : forall a, Z.abs a < 2143289344 ->
  is_panic (partial_reduce32 a) = false /\ is_panic (full_reduce32 a) = false /\ is_panic (center_mod a) = false /\
  is_panic (decompose 95232 a) = false /\ is_panic (decompose 261888 a) = false.
Proof.
  intros a Ha. destruct (partial_reduce32_spec a Ha) as (r & E & _).
  rewrite E, full_reduce32_spec, center_mod_spec by exact Ha.
  rewrite !decompose_spec by (try exact Ha; unfold valid_gamma2, G44, G65; auto).
  repeat split.
Qed.
Theorem C13_mont_no_panic_partial : forall a, -17996808479301632 <= a <= 17996808470921215 -> is_panic (mont_reduce a) = false.
Proof. intros a Ha. destruct (mont_reduce_spec a Ha) as (r & E & _). now rewrite E. Qed.
(* key generation for every seed; serialisation and derivation for every generated key and for every
   private key that deserialisation accepted *)
Theorem C13_key_operations_no_panic : forall H, HashLaws H -> forall P, In P all_params ->
  (forall xi, is_panic (keygen_from_seed H P xi) = false) /\
  (forall xi pk sk, keygen_from_seed H P xi = Ok (pk, sk) ->
     is_panic (pk_into_bytes P pk) = false /\ is_panic (sk_into_bytes P sk) = false /\ is_panic (get_public_key H P sk) = false) /\
  (forall skb sk, bytes_ok skb -> zlen skb = p_sk_len P -> sk_try_from_bytes P skb = Ok sk ->
     is_panic (sk_into_bytes P sk) = false /\ is_panic (get_public_key H P sk) = false) /\
  (forall pkb pk, bytes_ok pkb -> zlen pkb = p_pk_len P -> pk_try_from_bytes H P pkb = Ok pk -> is_panic (pk_into_bytes P pk) = false).
Proof.
  intros H HL P HP. split; [|split; [|split]].
  - intros xi. unfold keygen_from_seed. destruct (Spec.SpecMLDSA.KeyGen_internal H P xi) as [[pkb skb]|] eqn:E.
    + destruct (keygen_bytes H HL P HP xi pkb skb E) as (pk & sk & _ & _ & _ & _ & _ & _ & _ & _ & Ek & _). rewrite Ek. reflexivity.
    + rewrite (keygen_fuel H HL P HP xi E). reflexivity.
  - intros xi pk sk E. destruct (generated_roundtrip H HL P HP xi pk sk E) as (pkb & skb & _ & _ & _ & _ & E1 & _ & E3 & _).
    rewrite E1, E3, (derive_generated H HL P HP xi pk sk E). repeat split.
  - intros skb sk Hb Hl E. rewrite (sk_roundtrip_bytes P skb sk HP Hb Hl E). split; [reflexivity|].
    destruct (expand_private_repr P skb sk HP Hb Hl E) as (rho & K & tr & s1 & s2 & t0 & Ed & Hrep).
    apply (derive_no_panic H HL P HP sk rho K tr s1 s2 t0); [|exact Hrep]. apply (sk_decode_byte_fields P skb rho K tr s1 s2 t0 HP Hl Ed).
  - intros pkb pk Hb Hl E. destruct (pk_roundtrip_bytes H P pkb HP Hb Hl) as (pk' & E1 & E2 & _). rewrite E in E1. injection E1 as <-. rewrite E2. reflexivity.
Qed.

(* signing, for every accepted private key, every message/context/mode and every behaviour of the
   caller's generator (right-sized reply, wrong-sized reply, failure, exhausted script) *)
Lemma res_sign_no_panic r : is_panic (res_sign r) = false.
Proof. destruct r; reflexivity. Qed.
Theorem C13_sign_no_panic : forall H, HashLaws H -> forall P, In P all_params -> forall fuel,
  forall skb sk, bytes_ok skb -> zlen skb = p_sk_len P -> sk_try_from_bytes P skb = Ok sk ->
  forall g M ctx ph rnd,
    is_panic (fst (try_sign_with_rng H fuel P sk g M ctx)) = false /\
    is_panic (fst (try_hash_sign_with_rng H fuel P sk g M ctx ph)) = false /\
    is_panic (internal_sign H fuel P sk M ctx rnd) = false.
Proof.
  intros H HL P HP fuel skb sk Hb Hl Hsk g M ctx ph rnd.
  exact (sign_api_no_panic H HL P HP fuel skb sk g M ctx ph rnd Hb Hl Hsk).
Qed.

Print Assumptions C13_sign_no_panic.
Print Assumptions C13_key_operations_no_panic.
Print Assumptions C13_verify_no_panic.
Print Assumptions C13_deserialise_no_panic.
Print Assumptions C13_kernels_no_panic_partial.
Print Assumptions C13_mont_no_panic_partial.
Check F204.Proofs.KernelAgree.kernels_agree.
(* T2: the explicit panic sites of the crate are exactly the ones the model has a guard / Panic outcome for *)
Require F204.Proofs.SourcePins.
Check F204.Proofs.SourcePins.panic_sites_pinned.
(* T6: no conditional compilation inside the algorithm files (the hooks build runs the code users run) *)
Require F204.Proofs.SourcePins.
Check F204.Proofs.SourcePins.algorithm_files_have_no_cfg_gates.
(* T2: the XOF plumbing and the samplers of hashing.rs have the structure the model mirrors *)
Require F204.Proofs.SourcePins.
Check F204.Proofs.SourcePins.hashing_skeleton_pinned.
