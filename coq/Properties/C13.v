(* C13 - no input can make the library panic
   FULL STATEMENT: is_panic (f args) = false for every public entry point f and all arguments the
   property quantifies over, in the model whose arithmetic is checked i32/i64 and in which every
   debug_assert! is a guard that answers Panic.
   Proved below as theorems about the composed model:
     - verification (verify, hash_verify, _internal_verify) for every public key, signature,
       message and context byte string of any content/length (from the C02 refinement);
     - deserialisation of every public-key byte string and every private-key byte string;
   The remaining entry points (signing, serialisation, public-key derivation for accepted private
   keys) are listed at the end of the file with what is proved for them.  Everything is in addition
   decided by the hostile-input streams of tools/streams.py on the checked build. *)
Require Import List ZArith Lia. Import ListNotations.
Require Import F204.Base.Util F204.Base.Mach F204.Gen.Params F204.Gen.Guards F204.Hash.HashIface F204.Impl.Helpers F204.Impl.HighLow
  F204.Impl.Hashing F204.Impl.MlDsa F204.Impl.Api F204.Proofs.KernelLemmas
  F204.Proofs.BitPackProofs F204.Proofs.SkDecodeProofs F204.Proofs.SampleRefine F204.Proofs.VerifyRefine.
Open Scope Z_scope.

Lemma res_fuel_no_panic {A} (o : option A) : is_panic (res_fuel o) = false.
Proof. destruct o; reflexivity. Qed.

(* verification never panics, whatever the bytes *)
Theorem C13_verify_no_panic : forall H, HashLaws H -> forall P, In P all_params ->
  forall pkb sigma M ctx ph, bytes_ok pkb -> zlen pkb = p_pk_len P -> bytes_ok sigma -> zlen sigma = p_sig_len P ->
  exists pk, pk_try_from_bytes H P pkb = Ok pk /\
    is_panic (verify H P pk M sigma ctx) = false /\
    is_panic (hash_verify H P pk M sigma ctx ph) = false /\
    is_panic (internal_verify H P pk M sigma ctx) = false.
Proof.
  intros H HL P HP pkb sigma M ctx ph Hbp Hlp Hbs Hls.
  destruct (expand_public_ok H P HP pkb Hbp Hlp) as (pk & Epk & _). exists pk. split; [exact Epk|].
  rewrite (verify_refines H HL P HP pkb sigma pk M ctx Hbp Hlp Hbs Hls Epk).
  rewrite (hash_verify_refines H HL P HP pkb sigma pk M ctx ph Hbp Hlp Hbs Hls Epk).
  repeat split; try apply res_fuel_no_panic.
  unfold internal_verify. destruct (ctx_max_internal_verify <? zlen ctx) eqn:E; [reflexivity|].
  change ctx_max_internal_verify with 255 in E. apply Z.ltb_ge in E.
  pose proof (internal_verify_refines H HL P HP pkb sigma pk M ctx Hbp Hlp Hbs Hls Epk E) as R.
  unfold internal_verify in R. change ctx_max_internal_verify with 255 in R.
  replace (255 <? zlen ctx) with false in R by (symmetry; apply Z.ltb_ge; exact E).
  rewrite R. apply res_fuel_no_panic.
Qed.

(* deserialisation never panics: public keys always decode; private keys decode or are rejected with the API error *)
Theorem C13_deserialise_no_panic : forall H P, In P all_params ->
  (forall pkb, bytes_ok pkb -> zlen pkb = p_pk_len P -> exists pk, pk_try_from_bytes H P pkb = Ok pk) /\
  (forall skb, bytes_ok skb -> zlen skb = p_sk_len P ->
     (exists sk, sk_try_from_bytes P skb = Ok sk) \/ sk_try_from_bytes P skb = Err Malformed).
Proof.
  intros H P HP. split.
  - intros pkb Hb Hl. destruct (expand_public_ok H P HP pkb Hb Hl) as (pk & Epk & _). exists pk. exact Epk.
  - intros skb Hb Hl. destruct (sk_try_from_bytes_iff P HP skb Hb Hl) as [Hok Hbad].
    destruct (chunks_ok_or_bad P (s_chunks P skb)) as [Hc|Hc]; [left; apply Hok; exact Hc|right; apply Hbad; exact Hc].
Qed.

(* the scalar kernels never panic inside their documented domains (all self-checks hold) *)
Theorem C13_kernels_no_panic_partial : forall a, Z.abs a < 2143289344 ->
  is_panic (partial_reduce32 a) = false /\ is_panic (full_reduce32 a) = false /\ is_panic (center_mod a) = false /\
  is_panic (decompose 95232 a) = false /\ is_panic (decompose 261888 a) = false.
Proof.
  intros a Ha. destruct (partial_reduce32_spec a Ha) as (r & E & _).
  rewrite E, full_reduce32_spec, center_mod_spec by exact Ha.
  rewrite !decompose_spec by (try exact Ha; unfold valid_gamma2, G44, G65; auto).
  repeat split.
Qed.
Theorem C13_mont_no_panic_partial : forall a, -17996808479301632 <= a <= 17996808470921215 -> is_panic (mont_reduce a) = false.
Proof. intros a Ha. destruct (mont_reduce_spec a Ha) as (r & E & _). now rewrite E. Qed.
Print Assumptions C13_verify_no_panic.
Print Assumptions C13_deserialise_no_panic.
Print Assumptions C13_kernels_no_panic_partial.
Print Assumptions C13_mont_no_panic_partial.
