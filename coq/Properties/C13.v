(* C13 - no input can make the library panic
   FULL STATEMENT: see DESIGN.md section 7 (no_panic for every entry point).  Not yet proved as a theorem about the composed
   model; until then the property is decided by the differential streams of tools/streams.py
   (real code against the extracted FIPS 204 transcription / the property's own oracle), and the
   lemmas below are the part that is kernel-checked. *)
Require Import F204.Base.Util F204.Base.Mach F204.Gen.Params F204.Impl.Helpers F204.Impl.HighLow F204.Proofs.KernelLemmas.
Open Scope Z_scope.
(* the scalar kernels never panic inside their documented domains (all self-checks hold) *)
Theorem C13_kernels_no_panic_partial : forall a, Z.abs a < 2143289344 ->
  is_panic (partial_reduce32 a) = false /\ is_panic (full_reduce32 a) = false /\ is_panic (center_mod a) = false /\
  is_panic (decompose 95232 a) = false /\ is_panic (decompose 261888 a) = false.
Proof.
  intros a Ha. destruct (partial_reduce32_spec a Ha) as (r & E & _).
  rewrite E, full_reduce32_spec, center_mod_spec by exact Ha.
  rewrite !decompose_spec by (try exact Ha; unfold valid_gamma2, G44, G65; auto).
  repeat split.
Qed.
Theorem C13_mont_no_panic_partial : forall a, -17996808479301632 <= a <= 17996808470921215 -> is_panic (mont_reduce a) = false.
Proof. intros a Ha. destruct (mont_reduce_spec a Ha) as (r & E & _). now rewrite E. Qed.
Print Assumptions C13_kernels_no_panic_partial.
Print Assumptions C13_mont_no_panic_partial.
