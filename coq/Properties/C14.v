(* C14 - secret-independent execution in constant-time test mode (partial by nature).
   What a source-level model can carry is proved here:
   (1) the leakage model of the arithmetic kernels, regenerated from /repo/src on every run by translator T4
       (Gen/KernelsLeak.v: release-profile value + list of branch decisions): for EVERY input the trace of each kernel that
       key generation and signing apply to secret coefficients is independent of them (Proofs/KernelLeak.v), and the
       release-profile values are the checked model's values wherever that model returns;
   (2) under CTEST every loop-exit decision of the samplers and of the signing loop is independent of the sampled data
       (exact byte counts, no rejection, a single signing attempt).
   Not in the model: the loop structure and indexing of the glue around the kernels (constant bounds in the source), the
   bit-packing loops, and everything the compiler does (it may add or remove branches).  Instruction-level behaviour
   (branches and addresses of the compiled code) is OBSERVED by the trace stream of tools/streams.py (SanitizerCoverage edge
   and load/store-address traces of the pipeline and of each kernel) - that stream is the correspondence of (1)-(2) to the code. *)
Require Import F204.Base.Util F204.Base.Mach F204.Gen.Params F204.Hash.HashIface
  F204.Impl.Helpers F204.Impl.Conversion F204.Impl.Hashing F204.Impl.MlDsa F204.Proofs.KernelLemmas F204.Proofs.CtestLemmas
  F204.Gen.Kernels F204.Gen.KernelsLeak F204.Proofs.KernelLeak.
Open Scope Z_scope.

Theorem C14_three_bytes_never_rejected : forall b0 b1 b2, 0 <= b0 < 256 -> 0 <= b1 < 256 -> 0 <= b2 < 256 ->
  exists z, coeff_from_three_bytes true b0 b1 b2 = Ok z /\ 0 <= z < 4194304.
Proof. exact coeff_from_three_bytes_ctest. Qed.
Theorem C14_half_byte_never_rejected :
  forallb (fun eta => forallb (fun b => is_ok (coeff_from_half_byte true eta b)) (map Z.of_nat (seq 0 16))) [2; 4] = true.
Proof. exact coeff_from_half_byte_ctest_sweep. Qed.
Theorem C14_rej_ntt_exact_768_bytes : forall s, bytes_ok s -> length s = 768%nat ->
  exists l, rej_ntt_loop true s 256 [] = Ok l /\ length l = 256%nat.
Proof. intros s Hb Hl. destruct (rej_ntt_ctest_exact 256 s [] Hb) as (l & E & L); [exact Hl|]. exists l. split; assumption. Qed.
Theorem C14_rej_ntt_needs_all_bytes : forall need s acc, bytes_ok s -> (length s < 3 * need)%nat ->
  rej_ntt_loop true s need acc = OutOfFuel.
Proof. exact rej_ntt_ctest_short. Qed.
Theorem C14_sample_in_ball_reads_nothing : forall tau h8 c s i c' s',
  sib_step true tau h8 (c, s) i = Ok (c', s') -> s' = s.
Proof. exact sib_step_ctest_no_read. Qed.
Theorem C14_single_signing_attempt : forall H P sk A mu rho kappa,
  sign_attempt H true P sk A mu rho kappa <> Ok None.
Proof. exact sign_attempt_ctest_never_rejects. Qed.

(* (1) the kernels' leakage traces do not depend on secret inputs (statement: Proofs/KernelLeak.v) *)
Definition C14_kernel_traces_are_secret_independent := kernel_traces_are_secret_independent.
Theorem C14_make_hint_trace : forall g z r z' r', leak (r_make_hint g z r) = leak (r_make_hint g z' r').
Proof. exact leak_make_hint. Qed.
Theorem C14_decompose_trace : forall g r r', leak (r_decompose g r) = leak (r_decompose g r').
Proof. exact leak_decompose. Qed.
Theorem C14_half_byte_trace_ctest : forall eta b, eta = 2 \/ eta = 4 -> 0 <= b < 16 ->
  leak (r_coeff_from_half_byte true eta b) = leak (r_coeff_from_half_byte true eta 0).
Proof. exact leak_half_byte_ctest. Qed.
Theorem C14_rejection_tests_ctest : forall zn g1 b r0n g2 n hs om,
  r_sign_reject1 true zn g1 b r0n g2 = (false, [false]) /\ r_sign_reject2 true n g2 hs om = (false, [false]).
Proof. intros. split; reflexivity. Qed.
(* the release-profile values of the leakage model are the checked model's values *)
Definition C14_release_model_agrees := release_values_agree.
(* kernels that branch on their data - nothing is claimed for them *)
Definition C14_use_hint_is_not_constant_time := use_hint_branches_on_data.
Definition C14_range_test_is_not_constant_time := in_range_elem_branches_on_data.
Definition C14_recentring_is_not_constant_time := recenter_branches_on_data.

Print Assumptions C14_kernel_traces_are_secret_independent.
Print Assumptions C14_make_hint_trace.
Print Assumptions C14_decompose_trace.
Print Assumptions C14_half_byte_trace_ctest.
Print Assumptions C14_rejection_tests_ctest.
Print Assumptions C14_release_model_agrees.
Print Assumptions C14_three_bytes_never_rejected.
Print Assumptions C14_half_byte_never_rejected.
Print Assumptions C14_rej_ntt_exact_768_bytes.
Print Assumptions C14_rej_ntt_needs_all_bytes.
Print Assumptions C14_sample_in_ball_reads_nothing.
Print Assumptions C14_single_signing_attempt.
(* T2: the XOF plumbing and the samplers of hashing.rs have the structure the model mirrors *)
Require F204.Proofs.SourcePins.
Check F204.Proofs.SourcePins.hashing_skeleton_pinned.
