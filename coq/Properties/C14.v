(* C14 - secret-independent execution in constant-time test mode (partial by nature).
   What a source-level model can carry is proved here: under CTEST every loop-exit decision of the
   samplers and of the signing loop is independent of the sampled data (exact byte counts, no
   rejection, a single signing attempt).  Instruction-level behaviour (branches and addresses of
   the compiled code) is OBSERVED by the trace stream of tools/streams.py (SanitizerCoverage edge
   and load/store-address traces), not proved. *)
Require Import F204.Base.Util F204.Base.Mach F204.Gen.Params F204.Hash.HashIface
  F204.Impl.Helpers F204.Impl.Conversion F204.Impl.Hashing F204.Impl.MlDsa F204.Proofs.KernelLemmas F204.Proofs.CtestLemmas.
Open Scope Z_scope.

Theorem C14_three_bytes_never_rejected : forall b0 b1 b2, 0 <= b0 < 256 -> 0 <= b1 < 256 -> 0 <= b2 < 256 ->
  exists z, coeff_from_three_bytes true b0 b1 b2 = Ok z /\ 0 <= z < 4194304.
Proof. exact coeff_from_three_bytes_ctest. Qed.
Theorem C14_half_byte_never_rejected :
  forallb (fun eta => forallb (fun b => is_ok (coeff_from_half_byte true eta b)) (map Z.of_nat (seq 0 16))) [2; 4] = true.
Proof. exact coeff_from_half_byte_ctest_sweep. Qed.
Theorem C14_rej_ntt_exact_768_bytes : forall s, bytes_ok s -> length s = 768%nat ->
  exists l, rej_ntt_loop true s 256 [] = Ok l /\ length l = 256%nat.
Proof. intros s Hb Hl. destruct (rej_ntt_ctest_exact 256 s [] Hb) as (l & E & L); [exact Hl|]. exists l. split; assumption. Qed.
Theorem C14_rej_ntt_needs_all_bytes : forall need s acc, bytes_ok s -> (length s < 3 * need)%nat ->
  rej_ntt_loop true s need acc = OutOfFuel.
Proof. exact rej_ntt_ctest_short. Qed.
Theorem C14_sample_in_ball_reads_nothing : forall tau h8 c s i c' s',
  sib_step true tau h8 (c, s) i = Ok (c', s') -> s' = s.
Proof. exact sib_step_ctest_no_read. Qed.
Theorem C14_single_signing_attempt : forall H P sk A mu rho kappa,
  sign_attempt H true P sk A mu rho kappa <> Ok None.
Proof. exact sign_attempt_ctest_never_rejects. Qed.

Print Assumptions C14_three_bytes_never_rejected.
Print Assumptions C14_half_byte_never_rejected.
Print Assumptions C14_rej_ntt_exact_768_bytes.
Print Assumptions C14_rej_ntt_needs_all_bytes.
Print Assumptions C14_sample_in_ball_reads_nothing.
Print Assumptions C14_single_signing_attempt.
