(* C15 - coefficient arithmetic is exact on its whole domain.
   Statements only (proofs: Proofs/KernelLemmas.v).  Left-hand sides are the implementation
   model of helpers.rs / high_low.rs / conversion.rs in checked machine arithmetic (Ok = no
   overflow, no failed debug_assert!); right-hand sides are the FIPS 204 definitions (Spec). *)
Require Import F204.Base.Util F204.Base.Mach F204.Gen.Params
  F204.Impl.Helpers F204.Impl.HighLow F204.Impl.Conversion
  F204.Spec.SpecConv F204.Spec.SpecRound F204.Spec.SpecNtt F204.Proofs.KernelLemmas.
Open Scope Z_scope.

(* documented input range of the 32-bit reductions: |a| < 2_143_289_344 *)
Theorem C15_partial_reduce32 : forall a, Z.abs a < 2143289344 ->
  exists r, partial_reduce32 a = Ok r /\ r mod Q = a mod Q /\ Z.abs r <= 4194304 + 255 * 8191.
Proof. exact partial_reduce32_spec. Qed.
Theorem C15_full_reduce32 : forall a, Z.abs a < 2143289344 -> full_reduce32 a = Ok (a mod Q).
Proof. exact full_reduce32_spec. Qed.
Theorem C15_center_mod : forall a, Z.abs a < 2143289344 -> center_mod a = Ok (mod_pm a q).
Proof. exact center_mod_spec. Qed.
(* Montgomery reduction on its documented (asymmetric) input range *)
Theorem C15_mont_reduce : forall a, -17996808479301632 <= a <= 17996808470921215 ->
  exists r, mont_reduce a = Ok r /\ r * 4294967296 mod Q = a mod Q /\ - Q < r < Q
            /\ Z.abs r * 4294967296 <= Z.abs a + 2147483648 * Q.
Proof. exact mont_reduce_spec. Qed.
(* 64-bit Barrett-style reduction on the only shape its caller supplies, x << 32 *)
Theorem C15_partial_reduce64_shape : forall x, Z.abs x < 67058539 ->
  exists r, to_mont_coef x = Ok r /\ r mod Q = (x * 4294967296) mod Q /\ Z.abs r < 2 * Q.
Proof. exact to_mont_coef_spec. Qed.
Theorem C15_power2round : forall r, 0 <= r < Q ->
  exists r1 r0, p2r_hi r = Ok r1 /\ p2r_lo r r1 = Ok r0 /\ p2r_check r r1 r0 = Ok true
                /\ (r1, r0) = Power2Round r /\ 0 <= r1 <= 1023 /\ -4096 < r0 <= 4096.
Proof. exact p2r_spec. Qed.
Theorem C15_decompose : forall g r, g = 95232 \/ g = 261888 -> Z.abs r < 2143289344 ->
  decompose g r = Ok (Decompose g r).
Proof. exact decompose_spec. Qed.
Theorem C15_high_bits : forall g r, g = 95232 \/ g = 261888 -> Z.abs r < 2143289344 ->
  high_bits g r = Ok (HighBits g r).
Proof. exact high_bits_spec. Qed.
Theorem C15_low_bits : forall g r, g = 95232 \/ g = 261888 -> Z.abs r < 2143289344 ->
  low_bits g r = Ok (LowBits g r).
Proof. exact low_bits_spec. Qed.
Theorem C15_make_hint : forall g z r, g = 95232 \/ g = 261888 ->
  Z.abs r < 2143289344 -> Z.abs (r + z) < 2143289344 -> make_hint g z r = Ok (MakeHint g z r).
Proof. exact make_hint_spec. Qed.
Theorem C15_use_hint : forall g h r, g = 95232 \/ g = 261888 -> h = 0 \/ h = 1 ->
  Z.abs r < 2143289344 -> use_hint g h r = Ok (UseHint g h r).
Proof. exact use_hint_spec. Qed.
Theorem C15_gamma2_values : p_gamma2 P44 = 95232 /\ p_gamma2 P65 = 261888 /\ p_gamma2 P87 = 261888.
Proof. exact gamma2_values. Qed.
Theorem C15_coeff_from_three_bytes : forall b0 b1 b2, 0 <= b0 < 256 -> 0 <= b1 < 256 -> 0 <= b2 < 256 ->
  coeff_from_three_bytes false b0 b1 b2 = res_of_option (CoeffFromThreeBytes b0 b1 b2).
Proof. exact coeff_from_three_bytes_spec. Qed.
Theorem C15_coeff_from_half_byte : forall eta b, eta = 2 \/ eta = 4 -> 0 <= b < 16 ->
  coeff_from_half_byte false eta b = res_of_option (CoeffFromHalfByte eta b).
Proof. exact coeff_from_half_byte_spec. Qed.
(* the compile-time tables the NTT uses *)
Theorem C15_zeta_table : ZETA_TABLE_MONT = map (fun m => (zeta (Z.of_nat m) * 4294967296) mod Q) (seq 0 256).
Proof. exact zeta_table_spec. Qed.
Theorem C15_f_mont : (F_PLAIN * 256) mod Q = 1 /\ F_MONT = (F_PLAIN * 4294967296) mod Q /\ F_PLAIN = f_inv256.
Proof. exact f_mont_spec. Qed.

(* non-vacuity: the corner r+ - r0 = q - 1 and a boundary of mod+- lie inside the domains *)
Example C15_corner44 : decompose 95232 8285185 = Ok (0, -95232) /\ Decompose 95232 8285185 = (0, -95232).
Proof. split; vm_compute; reflexivity. Qed.
Example C15_corner65 : decompose 261888 8118529 = Ok (0, -261888) /\ Decompose 261888 8118529 = (0, -261888).
Proof. split; vm_compute; reflexivity. Qed.
Example C15_center_boundary : center_mod 4190208 = Ok 4190208 /\ center_mod 4190209 = Ok (-4190208).
Proof. split; vm_compute; reflexivity. Qed.

Print Assumptions C15_partial_reduce32.
Print Assumptions C15_full_reduce32.
Print Assumptions C15_center_mod.
Print Assumptions C15_mont_reduce.
Print Assumptions C15_partial_reduce64_shape.
Print Assumptions C15_power2round.
Print Assumptions C15_decompose.
Print Assumptions C15_high_bits.
Print Assumptions C15_low_bits.
Print Assumptions C15_make_hint.
Print Assumptions C15_use_hint.
Print Assumptions C15_coeff_from_three_bytes.
Print Assumptions C15_coeff_from_half_byte.
Print Assumptions C15_zeta_table.
Print Assumptions C15_f_mont.
(* T4: the kernels of this file's theorems are literally what /repo/src says today *)
Check F204.Proofs.KernelAgree.kernels_agree.
