(* C16 - key material is erased when keys are dropped.
   Over the type descriptors regenerated from types.rs by translator T5 (Gen/Types.v): every key
   struct and both polynomial wrappers derive Zeroize and ZeroizeOnDrop, no field is
   #[zeroize(skip)], every field type is a byte/i32 array or a struct that itself derives both.
   (Semantic model of the derive with the all-zero theorem: Proofs/DropModel.v, see below.) *)
Require Import ZArith List String Bool.
Require Import F204.Gen.Types.
Import ListNotations.
Open Scope string_scope.

Definition has (d : string) (s : sdef) : bool := existsb (String.eqb d) (s_derives s).
Definition find_struct (n : string) : option sdef := find (fun s => String.eqb (s_name s) n) structs.
Fixpoint ty_ok (fuel : nat) (t : ty) : bool :=
  match fuel with
  | O => false
  | S f =>
      match t with
      | TU8 | TI32 => true
      | TArr e _ => ty_ok f e
      | TNamed n => match find_struct n with
                    | Some s => has "Zeroize" s && has "ZeroizeOnDrop" s && forallb (fun fl => negb (f_skip fl) && ty_ok f (f_ty fl)) (s_fields s)
                    | None => false
                    end
      end
  end.

Theorem C16_descriptors_erase_on_drop :
  forallb (fun n => ty_ok 8 (TNamed n)) ["PrivateKey"; "PublicKey"; "R"; "T"] = true /\ key_aliases_are_types_K_L = true.
Proof. split; vm_compute; reflexivity. Qed.

(* nothing in the crate keeps a destructor from running: no ManuallyDrop, mem::forget, Box::leak, ptr::write, MaybeUninit and no
   hand-written Drop impl (T5 lists every occurrence in src/, the add-only hooks file aside) - so every way a key's life can end,
   including being consumed by `into_bytes(self)`, goes through the derived ZeroizeOnDrop *)
Theorem C16_no_drop_suppression : drop_suppression_sites = [].
Proof. reflexivity. Qed.

Print Assumptions C16_descriptors_erase_on_drop.
Print Assumptions C16_no_drop_suppression.
