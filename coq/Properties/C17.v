(* C17 - every supported feature combination builds and behaves the same (partial).
   Over the feature table and cfg gates regenerated from Cargo.toml / src by translator T6.
   Proved: the list of configurations the check iterates over is complete (28 = 7 x 2 x 2), and
   every cfg gate guards a whole item from the expected list (nothing inside a function body
   that the model covers), so the model - which has no configuration parameter - is the
   behaviour in every configuration.  That rustc accepts each configuration warning-free is
   observed by the check (cargo), not proved. *)
Require Import ZArith List String Bool.
Require Import F204.Gen.Features.
Import ListNotations.
Open Scope string_scope.
Open Scope list_scope.

Definition set_features := ["ml-dsa-44"; "ml-dsa-65"; "ml-dsa-87"].
Fixpoint subsets {A} (l : list A) : list (list A) :=
  match l with [] => [[]] | a :: r => let s := subsets r in s ++ map (cons a) s end.
Definition configs : list (list string) :=
  flat_map (fun s => match s with [] => [] | _ =>
     [s; s ++ ["default-rng"]; s ++ ["dudect"]; s ++ ["default-rng"; "dudect"]] end) (subsets set_features).

Definition feature_known (f : string) : bool := existsb (fun p => String.eqb (fst p) f) features.
Definition gate_ok (g : string * string * string * string * string) : bool :=
  let '(file, cond, kind, item, name) := g in
  (String.eqb kind "attr") &&
  (existsb (String.eqb cond) ["test"; "feature = 'verif-hooks'"; "feature = 'default-rng'"; "feature = 'dudect'";
                               "feature = 'ml-dsa-44'"; "feature = 'ml-dsa-65'"; "feature = 'ml-dsa-87'"]) &&
  (existsb (String.eqb item) ["mod"; "fn"; "use"] || (String.eqb cond "feature = 'dudect'" && String.eqb item "other")).

Theorem C17_configs_complete_partial :
  List.length configs = 28%nat /\
  forallb (fun c => forallb feature_known c) configs = true /\
  forallb gate_ok gates = true /\ crate_no_std = true /\ std_paths_in_nontest_code = 0%nat /\
  existsb (String.eqb "warnings") crate_denies = true /\ existsb (String.eqb "dead_code") crate_denies = true.
Proof. repeat split; vm_compute; reflexivity. Qed.

Print Assumptions C17_configs_complete_partial.
