(* C18 - NTT-based polynomial products equal the negacyclic product mod q; no 32-bit intermediate overflows.
   Statements only (proofs: Proofs/NttRefine.v, NttRing.v, NttPipeline.v).
   Spec = FIPS 204 Algorithms 41-48 over mathematical integers; negacyclic = schoolbook product in
   Z_q[X]/(X^256+1); the left-hand sides with `Ok` are the implementation model in checked machine
   arithmetic (Ok = no i32/i64 overflow and no failed debug_assert!). *)
Require Import F204.Base.Util F204.Base.Mach F204.Gen.Params F204.Impl.Helpers F204.Impl.Ntt
  F204.Spec.SpecConv F204.Spec.SpecNtt F204.Spec.SpecMLDSA
  F204.Proofs.KernelLemmas F204.Proofs.NttRefine F204.Proofs.NttRing F204.Proofs.NttPipeline.
Open Scope Z_scope.

(* 1. the FIPS 204 transforms multiply in the ring: for ALL a, b *)
Theorem C18_ring : forall a b, length a = 256%nat -> length b = 256%nat ->
  invNTT (MultiplyNTT (NTT a) (NTT b)) = negacyclic a b.
Proof. exact ntt_ring. Qed.
Theorem C18_inverse_left : forall w, length w = 256%nat -> invNTT (NTT w) = map (fun x => x mod Q) w.
Proof. exact invNTT_NTT. Qed.
Theorem C18_inverse_right : forall x, length x = 256%nat -> Forall (fun v => 0 <= v < Q) x -> NTT (invNTT x) = x.
Proof. exact NTT_invNTT. Qed.
(* with one operand already in the NTT domain (matrix entries of ML-DSA) *)
Theorem C18_ntt_domain_product : forall a_hat s, length a_hat = 256%nat -> Forall (fun v => 0 <= v < Q) a_hat -> length s = 256%nat ->
  invNTT (MultiplyNTT a_hat (NTT s)) = negacyclic (invNTT a_hat) s.
Proof. exact ntt_domain_product. Qed.

(* 2. the implementation's forward transform: congruent to FIPS NTT, interval bound B + 8*G(Bmax), no overflow *)
Theorem C18_forward_ntt : forall w B Bmax,
  length w = 256%nat -> bounded B w -> 0 <= B -> B + 8 * G Bmax <= Bmax -> 0 <= Bmax <= 2147483647 ->
  exists w', ntt_poly w = Ok w' /\ Forall2 congQ w' (NTT w) /\ bounded (B + 8 * G Bmax) w' /\ length w' = 256%nat.
Proof. exact ntt_poly_ok. Qed.
(* every call site feeds |coefficients| <= 2^19 (y, z; smaller for s, t0, t1, c): output below the to_mont bound *)
Theorem C18_forward_ntt_callsites : forall w, length w = 256%nat -> bounded 524288 w ->
  exists w', ntt_poly w = Ok w' /\ Forall2 congQ w' (NTT w) /\ bounded 35000000 w' /\ length w' = 256%nat.
Proof. exact ntt_poly_callsite. Qed.
(* 3. the inverse transform EQUALS FIPS invNTT on the whole domain of its copy-in reduction: any |x| < 2^31 - 2^22,
      in particular every unreduced sum mat_vec_mul can produce from an adversarial response vector *)
Theorem C18_inverse_ntt_exact : forall w, length w = 256%nat -> bounded 2143289343 w -> inv_ntt_poly w = Ok (invNTT w).
Proof. exact inv_ntt_poly_ok. Qed.
(* 4. matrix-vector product: any matrix with entries in [0,q), any vector below the to_mont bound, up to 7 columns *)
Theorem C18_mat_vec_mul : forall A u,
  Forall (fun row => Forall in_q row /\ length row = length u /\ Forall (fun p => length p = 256%nat) row) A ->
  Forall (fun p => bounded 67058538 p /\ length p = 256%nat) u -> (length u <= 7)%nat ->
  exists w, mat_vec_mul A u = Ok w /\ Forall (bounded (7 * 4222912)) w
            /\ Forall2 (Forall2 congQ) w (MatrixVectorNTT A u) /\ Forall (fun p => length p = 256%nat) w.
Proof. exact mat_vec_mul_ok. Qed.
(* 5. the whole pipeline on every in-range input returns, and returns exactly the FIPS 204 value *)
Theorem C18_pipeline : forall A s,
  matrix_ok (length s) A -> Forall (poly256 524288) s -> (length s <= 7)%nat ->
  (sh <- ntt s ;; p <- mat_vec_mul A sh ;; inv_ntt p) = Ok (vinvNTT (MatrixVectorNTT A (vNTT s))).
Proof. exact ntt_pipeline_ok. Qed.
(* 6. tables *)
Theorem C18_tables :
  ZETA_TABLE_MONT = map (fun m => (zeta (Z.of_nat m) * 4294967296) mod Q) (seq 0 256) /\
  (F_PLAIN * 256) mod Q = 1 /\ F_MONT = (F_PLAIN * 4294967296) mod Q.
Proof. split; [exact zeta_table_spec | destruct f_mont_spec as (A & B & _); split; assumption]. Qed.

(* non-vacuity: a product that wraps around X^256 = -1 *)
Example C18_wraparound :
  let x255 := repeat 0 255 ++ [1] in let x1 := 0 :: 1 :: repeat 0 254 in
  nth 0 (negacyclic x255 x1) 0 = Q - 1 /\ nth 0 (invNTT (MultiplyNTT (NTT x255) (NTT x1))) 0 = Q - 1.
Proof. split; vm_compute; reflexivity. Qed.

Print Assumptions C18_ring.
Print Assumptions C18_inverse_left.
Print Assumptions C18_inverse_right.
Print Assumptions C18_ntt_domain_product.
Print Assumptions C18_forward_ntt.
Print Assumptions C18_forward_ntt_callsites.
Print Assumptions C18_inverse_ntt_exact.
Print Assumptions C18_mat_vec_mul.
Print Assumptions C18_pipeline.
Print Assumptions C18_tables.
Check F204.Proofs.KernelAgree.kernels_agree.
