(* C18 - NTT-based products equal the negacyclic product mod q
   FULL STATEMENT: see DESIGN.md section 7 (ring theorem + NTT refinement with bounds).  Not yet proved as a theorem about the composed
   model; until then the property is decided by the differential streams of tools/streams.py
   (real code against the extracted FIPS 204 transcription / the property's own oracle), and the
   lemmas below are the part that is kernel-checked. *)
Require Import F204.Base.Util F204.Base.Mach F204.Gen.Params F204.Impl.Helpers F204.Spec.SpecNtt F204.Proofs.KernelLemmas.
Open Scope Z_scope.
(* the tables the transforms use are the FIPS 204 constants in Montgomery form *)
Theorem C18_tables_partial :
  ZETA_TABLE_MONT = map (fun m => (zeta (Z.of_nat m) * 4294967296) mod Q) (seq 0 256) /\
  (F_PLAIN * 256) mod Q = 1 /\ F_MONT = (F_PLAIN * 4294967296) mod Q.
Proof. split; [exact zeta_table_spec | destruct f_mont_spec as (A & B & _); split; assumption]. Qed.
Print Assumptions C18_tables_partial.
