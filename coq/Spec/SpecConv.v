(* FIPS 204 (August 2024) sections 7.1 and 7.2: Algorithms 9-28, transcribed literally over
   mathematical integers, bit strings (list bool) and byte strings (list Z). *)
Require Import F204.Base.Util F204.Gen.Params.
Open Scope Z_scope.

Definition q : Z := Q.
Definition d : Z := D.
Definition modq (x : Z) : Z := x mod q.
(* m mod+- a : the representative in (-a/2, a/2] *)
Definition mod_pm (m a : Z) : Z := let r := m mod a in if r <=? a / 2 then r else r - a.

Definition bitlen (x : Z) : nat := Z.to_nat (Z.log2 x + 1).

(* Algorithm 9 *)
Fixpoint IntegerToBits (x : Z) (alpha : nat) : list bool :=
  match alpha with O => [] | S a => Z.odd x :: IntegerToBits (x / 2) a end.
(* Algorithm 10 *)
Fixpoint BitsToInteger (y : list bool) : Z :=
  match y with [] => 0 | b :: r => Z.b2z b + 2 * BitsToInteger r end.
(* Algorithm 11 *)
Fixpoint IntegerToBytes (x : Z) (alpha : nat) : bytes :=
  match alpha with O => [] | S a => x mod 256 :: IntegerToBytes (x / 256) a end.
(* Algorithm 12 (the length of y is a multiple of 8 at every use) *)
Fixpoint BitsToBytes_n (n : nat) (y : list bool) : bytes :=
  match n with O => [] | S n' => BitsToInteger (firstn 8 y) :: BitsToBytes_n n' (skipn 8 y) end.
Definition BitsToBytes (y : list bool) : bytes := BitsToBytes_n (Nat.div (length y) 8) y.
(* Algorithm 13 *)
Definition BytesToBits (z : bytes) : list bool := flat_map (fun b => IntegerToBits b 8) z.

(* Algorithm 14 *)
Definition CoeffFromThreeBytes (b0 b1 b2 : Z) : option Z :=
  let b2' := if 127 <? b2 then b2 - 128 else b2 in
  let z := 65536 * b2' + 256 * b1 + b0 in
  if z <? q then Some z else None.
(* Algorithm 15 *)
Definition CoeffFromHalfByte (eta b : Z) : option Z :=
  if (eta =? 2) && (b <? 15) then Some (2 - (b mod 5))
  else if (eta =? 4) && (b <? 9) then Some (4 - b)
  else None.

(* Algorithm 16 *)
Definition SimpleBitPack (w : list Z) (b : Z) : bytes :=
  BitsToBytes (flat_map (fun wi => IntegerToBits wi (bitlen b)) w).
(* Algorithm 17 *)
Definition BitPack (w : list Z) (a b : Z) : bytes :=
  BitsToBytes (flat_map (fun wi => IntegerToBits (b - wi) (bitlen (a + b))) w).
(* Algorithm 18 *)
Definition SimpleBitUnpack (v : bytes) (b : Z) : list Z :=
  let c := bitlen b in
  map BitsToInteger (chunks c 256 (BytesToBits v)).
(* Algorithm 19 *)
Definition BitUnpack (v : bytes) (a b : Z) : list Z :=
  let c := bitlen (a + b) in
  map (fun bits => b - BitsToInteger bits) (chunks c 256 (BytesToBits v)).

(* Algorithm 20: h is a list of k polynomials with 0/1 coefficients *)
Definition hint_positions (p : list Z) : list Z :=
  map (fun x => Z.of_nat (fst x)) (filter (fun x => negb (snd x =? 0)) (combine (seq 0 (length p)) p)).
Fixpoint HintBitPack_loop (h : list (list Z)) (idx : list Z) (counts : list Z) : list Z * list Z :=
  match h with
  | [] => (idx, counts)
  | p :: r => let idx' := idx ++ hint_positions p in
              HintBitPack_loop r idx' (counts ++ [zlen idx'])
  end.
Definition HintBitPack (omega : Z) (h : list (list Z)) : bytes :=
  let '(idx, counts) := HintBitPack_loop h [] [] in
  idx ++ zeros (Z.to_nat omega - length idx) ++ counts.

(* Algorithm 21.  None is the "bottom" output. *)
Fixpoint strictly_increasing (l : list Z) : bool :=
  match l with
  | a :: ((b :: _) as r) => (a <? b) && strictly_increasing r
  | _ => true
  end.
Definition set_ones (pos : list Z) : list Z :=
  fold_left (fun p j => zupd p j 1) pos (zeros 256).
Fixpoint HintBitUnpack_loop (omega : Z) (y : bytes) (counts : list Z) (index : Z) (acc : list (list Z))
  : option (list (list Z) * Z) :=
  match counts with
  | [] => Some (rev acc, index)
  | c :: r =>
      if (c <? index) || (omega <? c) then None
      else let pos := zslice index c y in
           if strictly_increasing pos
           then HintBitUnpack_loop omega y r c (set_ones pos :: acc)
           else None
  end.
Definition HintBitUnpack (omega : Z) (k : nat) (y : bytes) : option (list (list Z)) :=
  match HintBitUnpack_loop omega y (zslice omega (omega + Z.of_nat k) y) 0 [] with
  | None => None
  | Some (h, index) =>
      if forallb (fun b => b =? 0) (zslice index omega y) then Some h else None
  end.

(* ---- section 7.2 ---- *)
Definition bl_t1 : Z := Z.of_nat (bitlen (q - 1)) - d.           (* 10 *)
Definition t1_max : Z := 2 ^ bl_t1 - 1.                          (* 1023 *)

(* Algorithm 22 *)
Definition pkEncode (rho : bytes) (t1 : list (list Z)) : bytes :=
  rho ++ flat_map (fun p => SimpleBitPack p t1_max) t1.
(* Algorithm 23 *)
Definition pkDecode (k : nat) (pk : bytes) : bytes * list (list Z) :=
  let rho := ztake 32 pk in
  let zs := chunks (Z.to_nat (32 * bl_t1)) k (zdrop 32 pk) in
  (rho, map (fun z => SimpleBitUnpack z t1_max) zs).
(* Algorithm 24 *)
Definition skEncode (eta : Z) (rho K tr : bytes) (s1 s2 t0 : list (list Z)) : bytes :=
  rho ++ K ++ tr
  ++ flat_map (fun p => BitPack p eta eta) s1
  ++ flat_map (fun p => BitPack p eta eta) s2
  ++ flat_map (fun p => BitPack p (2 ^ (d - 1) - 1) (2 ^ (d - 1))) t0.
(* Algorithm 25 *)
Definition skDecode (P : Params) (sk : bytes)
  : bytes * bytes * bytes * list (list Z) * list (list Z) * list (list Z) :=
  let eta := p_eta P in
  let rho := zslice 0 32 sk in
  let K := zslice 32 64 sk in
  let tr := zslice 64 128 sk in
  let step := (32 * bitlen (2 * eta))%nat in
  let r1 := zdrop 128 sk in
  let ys := chunks step (p_l P) r1 in
  let r2 := skipn (step * p_l P) r1 in
  let zs := chunks step (p_k P) r2 in
  let r3 := skipn (step * p_k P) r2 in
  let ws := chunks (Z.to_nat (32 * d)) (p_k P) r3 in
  (rho, K, tr,
   map (fun y => BitUnpack y eta eta) ys,
   map (fun z => BitUnpack z eta eta) zs,
   map (fun w => BitUnpack w (2 ^ (d - 1) - 1) (2 ^ (d - 1))) ws).
(* Algorithm 26 *)
Definition sigEncode (P : Params) (c_tilde : bytes) (z h : list (list Z)) : bytes :=
  c_tilde ++ flat_map (fun p => BitPack p (p_gamma1 P - 1) (p_gamma1 P)) z ++ HintBitPack (p_omega P) h.
(* Algorithm 27 *)
Definition sigDecode (P : Params) (sigma : bytes) : bytes * list (list Z) * option (list (list Z)) :=
  let g1 := p_gamma1 P in
  let c_tilde := ztake (p_lambda_div4 P) sigma in
  let step := (32 * (1 + bitlen (g1 - 1)))%nat in
  let r1 := zdrop (p_lambda_div4 P) sigma in
  let xs := chunks step (p_l P) r1 in
  let y := skipn (step * p_l P) r1 in
  (c_tilde, map (fun x => BitUnpack x (g1 - 1) g1) xs, HintBitUnpack (p_omega P) (p_k P) y).
(* Algorithm 28 *)
Definition w1Encode (P : Params) (w1 : list (list Z)) : bytes :=
  flat_map (fun p => SimpleBitPack p ((q - 1) / (2 * p_gamma2 P) - 1)) w1.
