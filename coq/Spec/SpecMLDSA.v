(* FIPS 204 Algorithms 1-8: ML-DSA.KeyGen/Sign/Verify, HashML-DSA.Sign/Verify and the internal
   algorithms, transcribed literally.  Polynomials have coefficients in [0,q) unless decoded from
   a byte string (then as decoded); NTT reduces its input mod q.  This is the oracle the
   properties name.  It is validated (not verified) against the ACVP vectors shipped with the
   repository (tools/check.py stream "acvp"). *)
Require Import F204.Base.Util F204.Gen.Params F204.Hash.HashIface
  F204.Spec.SpecConv F204.Spec.SpecRound F204.Spec.SpecNtt F204.Spec.SpecSample.
Open Scope Z_scope.

Section WithHashes.
Variable H : Hashes.
Let Hx (m : bytes) (n : Z) : bytes := h_shake256 H m (Z.to_nat n).

Definition vNTT (v : list (list Z)) := map NTT v.
Definition vinvNTT (v : list (list Z)) := map invNTT v.
Definition vadd (a b : list (list Z)) := map2 padd a b.
Definition vsub (a b : list (list Z)) := map2 psub a b.
Definition infnorm_poly (p : list Z) : Z := maxZ (map (fun x => Z.abs (mod_pm x q)) p).
Definition infnorm (v : list (list Z)) : Z := maxZ (map infnorm_poly v).
Definition weight (h : list (list Z)) : Z := sumZ (map sumZ h).

(* Algorithm 6 *)
Definition KeyGen_internal (P : Params) (xi : bytes) : option (bytes * bytes) :=
  let h := Hx (xi ++ IntegerToBytes (Z.of_nat (p_k P)) 1 ++ IntegerToBytes (Z.of_nat (p_l P)) 1) 128 in
  let rho := zslice 0 32 h in let rho' := zslice 32 96 h in let K := zslice 96 128 h in
  match ExpandA H P rho, ExpandS H P rho' with
  | Some A_hat, Some (s1, s2) =>
      let t := vadd (vinvNTT (MatrixVectorNTT A_hat (vNTT s1))) (map (map modq) s2) in
      let t1 := map (map (fun r => fst (Power2Round r))) t in
      let t0 := map (map (fun r => snd (Power2Round r))) t in
      let pk := pkEncode rho t1 in
      let tr := Hx pk 64 in
      Some (pk, skEncode (p_eta P) rho K tr s1 s2 t0)
  | _, _ => None
  end.

(* Algorithm 7; fuel = number of loop iterations allowed *)
Fixpoint Sign_loop (fuel : nat) (P : Params) (A_hat : list (list (list Z))) (s1h s2h t0h : list (list Z))
  (mu rho'' : bytes) (kappa : Z) : option (bytes * list (list Z) * list (list Z)) :=
  match fuel with
  | O => None
  | S f =>
      let g1 := p_gamma1 P in let g2 := p_gamma2 P in let beta := p_beta P in
      let y := ExpandMask H P rho'' kappa in
      let w := vinvNTT (MatrixVectorNTT A_hat (vNTT y)) in
      let w1 := map (map (HighBits g2)) w in
      let c_tilde := Hx (mu ++ w1Encode P w1) (p_lambda_div4 P) in
      match SampleInBall H (p_tau P) c_tilde with
      | None => None
      | Some c =>
          let c_hat := NTT c in
          let cs1 := vinvNTT (ScalarVectorNTT c_hat s1h) in
          let cs2 := vinvNTT (ScalarVectorNTT c_hat s2h) in
          let z := vadd (map (map modq) y) cs1 in
          let r0 := map (map (LowBits g2)) (vsub w cs2) in
          if (g1 - beta <=? infnorm z) || (g2 - beta <=? maxZ (map (fun p => maxZ (map Z.abs p)) r0))
          then Sign_loop f P A_hat s1h s2h t0h mu rho'' (kappa + Z.of_nat (p_l P))
          else
            let ct0 := vinvNTT (ScalarVectorNTT c_hat t0h) in
            let h := map2 (map2 (fun a b => Z.b2z (MakeHint g2 ((- a) mod q) b))) ct0 (vadd (vsub w cs2) ct0) in
            if (g2 <=? infnorm ct0) || (p_omega P <? weight h)
            then Sign_loop f P A_hat s1h s2h t0h mu rho'' (kappa + Z.of_nat (p_l P))
            else Some (c_tilde, map (map (fun x => mod_pm x q)) z, h)
      end
  end.

Definition Sign_internal (fuel : nat) (P : Params) (sk M' rnd : bytes) : option bytes :=
  let '(rho, K, tr, s1, s2, t0) := skDecode P sk in
  match ExpandA H P rho with
  | None => None
  | Some A_hat =>
      let mu := Hx (tr ++ M') 64 in
      let rho'' := Hx (K ++ rnd ++ mu) 64 in
      match Sign_loop fuel P A_hat (vNTT s1) (vNTT s2) (vNTT t0) mu rho'' 0 with
      | None => None
      | Some (c_tilde, z, h) => Some (sigEncode P c_tilde z h)
      end
  end.

(* Algorithm 8; None only if the XOF prefix fuel of a sampler is exhausted *)
Definition Verify_internal (P : Params) (pk M' sigma : bytes) : option bool :=
  let '(rho, t1) := pkDecode (p_k P) pk in
  let '(c_tilde, z, h) := sigDecode P sigma in
  match h with
  | None => Some false
  | Some h =>
      match ExpandA H P rho, SampleInBall H (p_tau P) c_tilde with
      | Some A_hat, Some c =>
          let tr := Hx pk 64 in
          let mu := Hx (tr ++ M') 64 in
          let t1d := map (map (fun x => x * 2 ^ d)) t1 in
          let w'approx := vinvNTT (vsub (MatrixVectorNTT A_hat (vNTT z)) (ScalarVectorNTT (NTT c) (vNTT t1d))) in
          let w1' := map2 (map2 (UseHint (p_gamma2 P))) h w'approx in
          let c_tilde' := Hx (mu ++ w1Encode P w1') (p_lambda_div4 P) in
          Some ((infnorm z <? p_gamma1 P - p_beta P) && list_eqb c_tilde c_tilde')
      | _, _ => None
      end
  end.

(* ---- external interface: Algorithms 2-5 ---- *)
Definition M_pure (M ctx : bytes) : bytes :=
  IntegerToBytes 0 1 ++ IntegerToBytes (zlen ctx) 1 ++ ctx ++ M.
(* Algorithm 4 lines 10-22: OID and pre-hash, from FIPS 204 (not from the crate) *)
Inductive PH := PH_SHA256 | PH_SHA512 | PH_SHAKE128.
Definition OID (ph : PH) : bytes :=
  match ph with
  | PH_SHA256 => [6; 9; 96; 134; 72; 1; 101; 3; 4; 2; 1]      (* 0x06 09 60 86 48 01 65 03 04 02 01 *)
  | PH_SHA512 => [6; 9; 96; 134; 72; 1; 101; 3; 4; 2; 3]      (* ... 03 *)
  | PH_SHAKE128 => [6; 9; 96; 134; 72; 1; 101; 3; 4; 2; 11]   (* ... 0B *)
  end.
Definition PHM (ph : PH) (M : bytes) : bytes :=
  match ph with
  | PH_SHA256 => h_sha256 H M
  | PH_SHA512 => h_sha512 H M
  | PH_SHAKE128 => h_shake128 H M 32
  end.
Definition M_hash (ph : PH) (M ctx : bytes) : bytes :=
  IntegerToBytes 1 1 ++ IntegerToBytes (zlen ctx) 1 ++ ctx ++ OID ph ++ PHM ph M.

(* Algorithm 2 / 4: None = the error indication for a context longer than 255 bytes *)
Inductive sign_result := SR_ctx_too_long | SR_out_of_fuel | SR_sig (s : bytes).
Definition Sign (fuel : nat) (P : Params) (sk M ctx rnd : bytes) : sign_result :=
  if 255 <? zlen ctx then SR_ctx_too_long
  else match Sign_internal fuel P sk (M_pure M ctx) rnd with Some s => SR_sig s | None => SR_out_of_fuel end.
Definition HashSign (fuel : nat) (P : Params) (sk M ctx : bytes) (ph : PH) (rnd : bytes) : sign_result :=
  if 255 <? zlen ctx then SR_ctx_too_long
  else match Sign_internal fuel P sk (M_hash ph M ctx) rnd with Some s => SR_sig s | None => SR_out_of_fuel end.
(* Algorithm 3 / 5 *)
Definition Verify (P : Params) (pk M sigma ctx : bytes) : option bool :=
  if 255 <? zlen ctx then Some false else Verify_internal P pk (M_pure M ctx) sigma.
Definition HashVerify (P : Params) (pk M sigma ctx : bytes) (ph : PH) : option bool :=
  if 255 <? zlen ctx then Some false else Verify_internal P pk (M_hash ph M ctx) sigma.
End WithHashes.
