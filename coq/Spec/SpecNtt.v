(* FIPS 204 section 7.5 and 7.6: Algorithms 41-48.  The in-place loops of Algorithms 41 and 42
   are written as the equivalent recursion on the two halves of the block (layer len splits a
   block into lo ++ hi and uses one zeta per block; the zeta index of block b in layer L is
   m = 2^L + b, its children are 2m and 2m+1). *)
Require Import F204.Base.Util F204.Gen.Params F204.Spec.SpecConv.
Open Scope Z_scope.

Fixpoint pow_mod (b : Z) (e : nat) : Z :=
  match e with O => 1 | S e' => (b * pow_mod b e') mod q end.
(* Algorithm 43 *)
Definition BitRev8 (m : Z) : Z := BitsToInteger (rev (IntegerToBits m 8)).
Definition zeta_of (m : Z) : Z := pow_mod ZETA (Z.to_nat (BitRev8 m)).
Definition zetas : list Z := map (fun m => zeta_of (Z.of_nat m)) (seq 0 256).
Definition zeta (m : Z) : Z := znth zetas m.

Definition padd (a b : list Z) : list Z := map2 (fun x y => (x + y) mod q) a b.
Definition psub (a b : list Z) : list Z := map2 (fun x y => (x - y) mod q) a b.
Definition pscale (c : Z) (a : list Z) : list Z := map (fun x => (c * x) mod q) a.
Definition pmul (a b : list Z) : list Z := map2 (fun x y => (x * y) mod q) a b.

(* Algorithm 41 *)
Fixpoint NTT_rec (depth : nat) (m : Z) (w : list Z) : list Z :=
  match depth with
  | O => w
  | S dp =>
      let n := Nat.pow 2 dp in
      let lo := firstn n w in
      let hi := skipn n w in
      let t := pscale (zeta m) hi in
      NTT_rec dp (2 * m) (padd lo t) ++ NTT_rec dp (2 * m + 1) (psub lo t)
  end.
Definition NTT (w : list Z) : list Z := NTT_rec 8 1 (map modq w).

(* Algorithm 42: block b of the layer with 2^L blocks uses -zeta(2^(L+1) - 1 - b), i.e.
   index 3*base - 1 - m for m = base + b, base = 2^L *)
Fixpoint invNTT_rec (depth : nat) (base m : Z) (w : list Z) : list Z :=
  match depth with
  | O => w
  | S dp =>
      let n := Nat.pow 2 dp in
      let lo := invNTT_rec dp (2 * base) (2 * m) (firstn n w) in
      let hi := invNTT_rec dp (2 * base) (2 * m + 1) (skipn n w) in
      let z := - zeta (3 * base - 1 - m) in
      padd lo hi ++ pscale z (psub lo hi)
  end.
Definition f_inv256 : Z := 8347681.
Definition invNTT (w : list Z) : list Z := pscale f_inv256 (invNTT_rec 8 1 1 (map modq w)).

(* Algorithms 44-48 *)
Definition AddNTT := padd.
Definition MultiplyNTT := pmul.
Definition AddVectorNTT (v w : list (list Z)) : list (list Z) := map2 padd v w.
Definition ScalarVectorNTT (c : list Z) (v : list (list Z)) : list (list Z) := map (pmul c) v.
Definition zero_poly : list Z := zeros 256.
Definition MatrixVectorNTT (M : list (list (list Z))) (v : list (list Z)) : list (list Z) :=
  map (fun row => fold_left padd (map2 pmul row v) zero_poly) M.

(* the product in Z_q[X]/(X^256+1), schoolbook: the reference the NTT pipeline must equal *)
Definition mulX (b : list Z) : list Z :=    (* X * b *)
  match rev b with
  | [] => []
  | last :: r => ((- last) mod q) :: rev r
  end.
Fixpoint negacyclic_aux (a : list Z) (b : list Z) : list Z :=
  match a with
  | [] => map (fun _ => 0) b
  | ai :: r => padd (pscale ai b) (negacyclic_aux r (mulX b))
  end.
Definition negacyclic (a b : list Z) : list Z := negacyclic_aux (map modq a) (map modq b).
