(* FIPS 204 section 7.4: Algorithms 35-40 *)
Require Import F204.Base.Util F204.Gen.Params F204.Spec.SpecConv.
Open Scope Z_scope.

(* Algorithm 35 *)
Definition Power2Round (r : Z) : Z * Z :=
  let rp := r mod q in
  let r0 := mod_pm rp (2 ^ d) in
  ((rp - r0) / 2 ^ d, r0).
(* Algorithm 36 *)
Definition Decompose (gamma2 r : Z) : Z * Z :=
  let rp := r mod q in
  let r0 := mod_pm rp (2 * gamma2) in
  if rp - r0 =? q - 1 then (0, r0 - 1) else ((rp - r0) / (2 * gamma2), r0).
(* Algorithm 37, 38 *)
Definition HighBits (gamma2 r : Z) : Z := fst (Decompose gamma2 r).
Definition LowBits (gamma2 r : Z) : Z := snd (Decompose gamma2 r).
(* Algorithm 39 *)
Definition MakeHint (gamma2 z r : Z) : bool :=
  negb (HighBits gamma2 r =? HighBits gamma2 (r + z)).
(* Algorithm 40 *)
Definition UseHint (gamma2 h r : Z) : Z :=
  let m := (q - 1) / (2 * gamma2) in
  let '(r1, r0) := Decompose gamma2 r in
  if (h =? 1) && (0 <? r0) then (r1 + 1) mod m
  else if (h =? 1) && (r0 <=? 0) then (r1 - 1) mod m
  else r1.
