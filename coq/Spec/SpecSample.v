(* FIPS 204 section 7.3: Algorithms 29-34, transcribed over mathematical integers.
   XOF output is consumed from a finite prefix; None = the prefix was too short (the model-only
   "out of fuel" outcome; FIPS 204's loops are unbounded). *)
Require Import F204.Base.Util F204.Gen.Params F204.Hash.HashIface F204.Spec.SpecConv.
Open Scope Z_scope.

Fixpoint first_some {A} (f : nat -> option A) (fuels : list nat) : option A :=
  match fuels with
  | [] => None
  | n :: r => match f n with Some x => Some x | None => first_some f r end
  end.

Section WithHashes.
Variable H : Hashes.

(* Algorithm 29 *)
Fixpoint sib_squeeze (i : Z) (s : bytes) : option (Z * bytes) :=
  match s with
  | [] => None
  | j :: r => if i <? j then sib_squeeze i r else Some (j, r)
  end.
Fixpoint SampleInBall_loop (tau : Z) (hbits : list bool) (is : list Z) (c : list Z) (s : bytes) : option (list Z) :=
  match is with
  | [] => Some c
  | i :: r =>
      match sib_squeeze i s with
      | None => None
      | Some (j, s') =>
          let c1 := zupd c i (znth c j) in
          let sign := if nth (Z.to_nat (i + tau - 256)) hbits false then (-1) else 1 in
          SampleInBall_loop tau hbits r (zupd c1 j sign) s'
      end
  end.
Definition SampleInBall_from (tau : Z) (stream : bytes) : option (list Z) :=
  if zlen stream <? 8 then None else
  SampleInBall_loop tau (BytesToBits (ztake 8 stream))
    (map (fun k => 256 - tau + Z.of_nat k) (seq 0 (Z.to_nat tau))) (zeros 256) (zdrop 8 stream).
Definition SampleInBall (tau : Z) (rho : bytes) : option (list Z) :=
  first_some (fun n => SampleInBall_from tau (h_shake256 H rho n)) (map Z.to_nat [136; 272; 1360; 13600]).

(* Algorithm 30 *)
Fixpoint RejNTTPoly_loop (s : bytes) (need : nat) (acc : list Z) : option (list Z) :=
  match need with
  | O => Some (rev acc)
  | S need' =>
      match s with
      | b0 :: b1 :: b2 :: r =>
          match CoeffFromThreeBytes b0 b1 b2 with
          | Some z => RejNTTPoly_loop r need' (z :: acc)
          | None => RejNTTPoly_loop r need acc
          end
      | _ => None
      end
  end.
Definition RejNTTPoly (seed : bytes) : option (list Z) :=
  first_some (fun n => RejNTTPoly_loop (h_shake128 H seed n) 256 []) (map Z.to_nat [840; 1008; 1680; 16800]).

(* Algorithm 31 *)
Definition rb_take (need : nat) (acc : list Z) (r : option Z) : nat * list Z :=
  match r, need with
  | Some v, S n' => (n', v :: acc)
  | _, _ => (need, acc)
  end.
Fixpoint RejBoundedPoly_loop (eta : Z) (s : bytes) (need : nat) (acc : list Z) : option (list Z) :=
  match need with
  | O => Some (rev acc)
  | S _ =>
      match s with
      | z :: r =>
          let '(n1, a1) := rb_take need acc (CoeffFromHalfByte eta (z mod 16)) in
          let '(n2, a2) := rb_take n1 a1 (CoeffFromHalfByte eta (z / 16)) in
          RejBoundedPoly_loop eta r n2 a2
      | [] => None
      end
  end.
Definition RejBoundedPoly (eta : Z) (seed : bytes) : option (list Z) :=
  first_some (fun n => RejBoundedPoly_loop eta (h_shake256 H seed n) 256 []) (map Z.to_nat [272; 408; 816; 8160]).

Fixpoint option_all {A} (l : list (option A)) : option (list A) :=
  match l with
  | [] => Some []
  | None :: _ => None
  | Some a :: r => match option_all r with Some rs => Some (a :: rs) | None => None end
  end.

(* Algorithm 32: A[r][s] = RejNTTPoly(rho || IntegerToBytes(s,1) || IntegerToBytes(r,1)) *)
Definition ExpandA (P : Params) (rho : bytes) : option (list (list (list Z))) :=
  option_all (map (fun r => option_all (map (fun s =>
     RejNTTPoly (rho ++ IntegerToBytes (Z.of_nat s) 1 ++ IntegerToBytes (Z.of_nat r) 1)) (seq 0 (p_l P))))
     (seq 0 (p_k P))).
(* Algorithm 33 *)
Definition ExpandS (P : Params) (rho : bytes) : option (list (list Z) * list (list Z)) :=
  match option_all (map (fun r => RejBoundedPoly (p_eta P) (rho ++ IntegerToBytes (Z.of_nat r) 2)) (seq 0 (p_l P))),
        option_all (map (fun r => RejBoundedPoly (p_eta P) (rho ++ IntegerToBytes (Z.of_nat (r + p_l P)) 2)) (seq 0 (p_k P))) with
  | Some s1, Some s2 => Some (s1, s2)
  | _, _ => None
  end.
(* Algorithm 34 *)
Definition ExpandMask (P : Params) (rho : bytes) (mu : Z) : list (list Z) :=
  let c := (1 + bitlen (p_gamma1 P - 1))%nat in
  map (fun r => let rho' := rho ++ IntegerToBytes (mu + Z.of_nat r) 2 in
                BitUnpack (h_shake256 H rho' (32 * c)) (p_gamma1 P - 1) (p_gamma1 P)) (seq 0 (p_l P)).
End WithHashes.
